(* M_Qos: executable model of ramses_tx.protocol_fsm.ProtocolContext (+ the caller side of
   ProtocolContext.send_cmd and the writer task) on a mini-asyncio that reproduces
   BaseEventLoop._run_once batching (C07, C08, C09).  Time unit: microseconds.
   Every "Coding error" assert of the source is an explicit [Crash n]. *)
From Coq Require Import ZArith List Bool Arith Lia.
From RV Require Import GenConsts.
Import ListNotations.
Open Scope Z_scope.

(* ---------- static data ---------- *)
Definition cid := nat.
Record cmdinfo := { prio : Z; max_retries : nat; timeout : Z; wfr : bool;
                    tx_hdr : nat; rx_hdr : option nat;
                    rx_null : option nat }.   (* an RQ|0418: the class of its reply header without the log index (0418|RP|<ctl>|) *)
Record pkt := { p_hdr : nat; p_src : nat; p_dst_ok : bool;
                p_null : option nat }.        (* a NULL fault-log entry (it always carries index 00): the class of its header without the index *)
(* WantRply's special case: the reply to RQ|0418 for an empty slot is the addressed controller's null entry, whose header says 00, not nn *)
Definition null_ok (ci : cmdinfo) (p : pkt) : bool :=
  match rx_null ci, p_null p with Some a, Some b => Nat.eqb a b | _, _ => false end.
Inductive exn := ERetries | ETransport | EFsm.
Inductive fstat := FPending | FRes (p : pkt) | FExn (e : exn) | FCancelled.
Inductive st := Inactive | Idle | WantEcho | WantRply.

(* regenerated from the source on every run *)
Definition ECHO_TO : Z := FSM_ECHO_TIMEOUT_us.
Definition RPLY_TO : Z := FSM_RPLY_TIMEOUT_us.
Definition MAX_RETRY : nat := Z.to_nat FSM_MAX_RETRY_LIMIT.
Definition SEND_LIMIT : Z := FSM_SEND_TIMEOUT_LIMIT_us.
Definition BUF_SIZE : nat := Z.to_nat FSM_MAX_BUFFER_SIZE.
Definition MULT_CAP : nat := 3.   (* the literal in min(3, old_val + 1) *)

(* what the transport does with the n-th write request (environment-chosen): latency before
   the frame is written, whether the write raises TransportError, whether/when the gateway
   echoes it and the device replies (delays measured from the write) *)
Record wplan := { w_lat : Z; w_fail : bool; w_echo : option Z; w_rply : option Z }.
Definition wplan0 : wplan := {| w_lat := 0; w_fail := false; w_echo := None; w_rply := None |}.

(* Stall d: a callback that takes d microseconds of wall time (a slow handler, a blocking write, a GC pause): the clock moves on WITHIN the
   iteration, so timers that fall due meanwhile run in the next iteration together with what this one has made ready *)
Inductive ext := Call (c : cid) | Rx (p : pkt) | ConnMade | ConnLost | Stall (d : Z)
  | Cancel (c : cid).     (* the caller's task is cancelled from OUTSIDE (an outer wait_for, a shutdown) *)

Inductive cb :=
| CbEffect (timed_out : bool)
| CbCheckBuf
| CbExpStart (t : nat) | CbExpTimer (t : nat) | CbExpWake (t : nat)
| CbWriter (c : cid) | CbWTimer (n : nat) (c : cid) | CbWWake (n : nat) (c : cid)
| CbCallerStart (c : cid) | CbCallerTimer (c : cid) | CbCallerWake (c : cid)
| CbExt (e : ext).

(* what the caller of send_cmd gets: a packet, ProtocolSendFailed, or -- raw, through wait_for --
   the exception the FSM put on its future (TransportError, ProtocolFsmError); ErrOther = anything else *)
Inductive outcome := OkPkt (p : pkt) | ErrSendFailed | ErrExn (e : exn) | ErrOther | ErrCancelled.
Inductive obs := Write (t : Z) (c : cid) | Done (t : Z) (c : cid) (o : outcome) | LoopExn (t : Z) (n : nat).

Inductive estat := ENotStarted | ESleeping (old : nat) | EWoken (old : nat) | ERunning | EDone | ECancelled.
Inductive cstat := CNone | CWaiting | CTimedOut (* wait_for's timer called task.cancel() *) | CDone
  | CCancelled.   (* task.cancel() from outside: CancelledError, not TimeoutError, leaves send_cmd -- nobody resets the FSM *)

Record ctx := { state : st; cur : option cid; curfut : option cid;
                txc : nat; txl : nat; mult : nat;
                que : list (Z * Z * cid);
                expiry : option nat; sent : option cid; echo : option pkt }.

Record world := {
  now : Z; ready : list cb; batch : nat; timers : list (Z * nat * cb); seq : nat;
  cx : ctx; futs : list (cid * fstat); callers : list (cid * cstat);
  exps : list (nat * estat); next_tid : nat; stamp : Z;
  nwrites : nat;                       (* number of write requests so far *)
  trace : list obs }.

(* ---------- assoc helpers ---------- *)
Fixpoint aget {A} (d : A) (k : nat) (l : list (nat * A)) : A :=
  match l with [] => d | (k', v) :: l' => if Nat.eqb k k' then v else aget d k l' end.
Fixpoint aset {A} (k : nat) (v : A) (l : list (nat * A)) : list (nat * A) :=
  match l with [] => [(k, v)] | (k', v') :: l' => if Nat.eqb k k' then (k, v) :: l' else (k', v') :: aset k v l' end.

(* ---------- field updates ---------- *)
Definition upd_loop (w : world) (n : Z) (r : list cb) (b : nat) (ts : list (Z * nat * cb)) (s : nat) : world :=
  {| now := n; ready := r; batch := b; timers := ts; seq := s;
     cx := cx w; futs := futs w; callers := callers w; exps := exps w; next_tid := next_tid w;
     stamp := stamp w; nwrites := nwrites w; trace := trace w |}.
Definition set_cx (w : world) (c : ctx) : world :=
  {| now := now w; ready := ready w; batch := batch w; timers := timers w; seq := seq w;
     cx := c; futs := futs w; callers := callers w; exps := exps w; next_tid := next_tid w;
     stamp := stamp w; nwrites := nwrites w; trace := trace w |}.
Definition call_soon (w : world) (c : cb) : world := upd_loop w (now w) (ready w ++ [c]) (batch w) (timers w) (seq w).
Definition call_at (w : world) (t : Z) (c : cb) : world :=
  upd_loop w (now w) (ready w) (batch w) (timers w ++ [(t, seq w, c)]) (S (seq w)).
Definition cb_eqb (a b : cb) : bool :=
  match a, b with
  | CbExpTimer x, CbExpTimer y => Nat.eqb x y
  | CbCallerTimer x, CbCallerTimer y => Nat.eqb x y
  | _, _ => false end.
Definition cancel_timer (w : world) (c : cb) : world :=
  upd_loop w (now w) (ready w) (batch w) (filter (fun e => negb (cb_eqb (snd e) c)) (timers w)) (seq w).
Definition set_futs (w : world) (f : list (cid * fstat)) : world :=
  {| now := now w; ready := ready w; batch := batch w; timers := timers w; seq := seq w;
     cx := cx w; futs := f; callers := callers w; exps := exps w; next_tid := next_tid w;
     stamp := stamp w; nwrites := nwrites w; trace := trace w |}.
Definition set_fut (w : world) (c : cid) (f : fstat) : world := set_futs w (aset c f (futs w)).
Definition set_caller (w : world) (c : cid) (s : cstat) : world :=
  {| now := now w; ready := ready w; batch := batch w; timers := timers w; seq := seq w;
     cx := cx w; futs := futs w; callers := aset c s (callers w); exps := exps w; next_tid := next_tid w;
     stamp := stamp w; nwrites := nwrites w; trace := trace w |}.
Definition set_exps (w : world) (e : list (nat * estat)) (nt : nat) : world :=
  {| now := now w; ready := ready w; batch := batch w; timers := timers w; seq := seq w;
     cx := cx w; futs := futs w; callers := callers w; exps := e; next_tid := nt;
     stamp := stamp w; nwrites := nwrites w; trace := trace w |}.
Definition set_exp (w : world) (t : nat) (s : estat) : world := set_exps w (aset t s (exps w)) (next_tid w).
Definition emit (w : world) (o : obs) : world :=
  {| now := now w; ready := ready w; batch := batch w; timers := timers w; seq := seq w;
     cx := cx w; futs := futs w; callers := callers w; exps := exps w; next_tid := next_tid w;
     stamp := stamp w; nwrites := nwrites w; trace := trace w ++ [o] |}.
Definition bump_stamp (w : world) : world :=
  {| now := now w; ready := ready w; batch := batch w; timers := timers w; seq := seq w;
     cx := cx w; futs := futs w; callers := callers w; exps := exps w; next_tid := next_tid w;
     stamp := stamp w + 1; nwrites := nwrites w; trace := trace w |}.
Definition bump_writes (w : world) : world :=
  {| now := now w; ready := ready w; batch := batch w; timers := timers w; seq := seq w;
     cx := cx w; futs := futs w; callers := callers w; exps := exps w; next_tid := next_tid w;
     stamp := stamp w; nwrites := S (nwrites w); trace := trace w |}.

Definition mk_ctx (s : st) (cu cf : option cid) (tc tl m : nat) (q : list (Z * Z * cid))
                  (e : option nat) (se : option cid) (ec : option pkt) : ctx :=
  {| state := s; cur := cu; curfut := cf; txc := tc; txl := tl; mult := m; que := q; expiry := e; sent := se; echo := ec |}.
Definition set_expiry (w : world) (e : option nat) : world :=
  let c := cx w in set_cx w (mk_ctx (state c) (cur c) (curfut c) (txc c) (txl c) (mult c) (que c) e (sent c) (echo c)).
Definition set_sent (w : world) (s : option cid) : world :=
  let c := cx w in set_cx w (mk_ctx (state c) (cur c) (curfut c) (txc c) (txl c) (mult c) (que c) (expiry c) s (echo c)).
Definition set_echo (w : world) (p : option pkt) : world :=
  let c := cx w in set_cx w (mk_ctx (state c) (cur c) (curfut c) (txc c) (txl c) (mult c) (que c) (expiry c) (sent c) p).
Definition set_que (w : world) (q : list (Z * Z * cid)) : world :=
  let c := cx w in set_cx w (mk_ctx (state c) (cur c) (curfut c) (txc c) (txl c) (mult c) q (expiry c) (sent c) (echo c)).
Definition set_mult (w : world) (m : nat) : world :=
  let c := cx w in set_cx w (mk_ctx (state c) (cur c) (curfut c) (txc c) (txl c) m (que c) (expiry c) (sent c) (echo c)).
Definition set_cur (w : world) (cu cf : option cid) (tc tl : nat) : world :=
  let c := cx w in set_cx w (mk_ctx (state c) cu cf tc tl (mult c) (que c) (expiry c) (sent c) (echo c)).

Definition fut_of (w : world) (c : cid) : fstat := aget FPending c (futs w).
Definition fut_done (f : fstat) : bool := match f with FPending => false | _ => true end.

(* resolving a future wakes the task awaiting it (the caller), via call_soon *)
Definition resolve (w : world) (c : cid) (f : fstat) : world :=
  let w := set_fut w c f in
  match aget CNone c (callers w) with
  | CWaiting => call_soon w (CbCallerWake c)
  | _ => w end.

(* result of a step that may trip an assertion: Crash n keeps the partial effects *)
Inductive R := Ok (w : world) | Crash (n : nat) (w : world).
Definition bind (r : R) (f : world -> R) : R := match r with Ok w => f w | Crash n w => Crash n w end.
Notation "'do' w <- r ; k" := (bind r (fun w => k)) (at level 200, w name, r at level 100, k at level 200).
Definition assert (b : bool) (n : nat) (w : world) : R := if b then Ok w else Crash n w.

Definition sending_state (s : st) : bool := match s with WantEcho | WantRply => true | _ => false end.
Definition is_some {A} (o : option A) : bool := match o with Some _ => true | None => false end.

(* ProtocolContext.is_sending, with its asserts *)
Definition is_sending_ok (w : world) : bool :=
  let c := cx w in
  if sending_state (state c)
  then is_some (cur c) && is_some (curfut c)
  else negb (is_some (cur c)) &&
       match curfut c with None => true | Some f => fut_done (fut_of w f) end.

(* Task.cancel() on the expiry task *)
Definition cancel_exp (w : world) (t : nat) : world :=
  match aget EDone t (exps w) with
  | ENotStarted => set_exp w t ECancelled
  | ESleeping _ => set_exp (cancel_timer w (CbExpTimer t)) t ECancelled
  | EWoken _ => set_exp w t ECancelled          (* _must_cancel: the wake-up gets CancelledError *)
  | ERunning => w                               (* cancels itself: no further await *)
  | EDone | ECancelled => w
  end.

Inductive how := HPlain | HExpired | HTimedOut | HExn (e : exn) | HRes (p : pkt).
Definition is_timed_out (h : how) : bool := match h with HTimedOut => true | _ => false end.

(* ProtocolContext.set_state, first half: cancel the expiry timer, then settle the command's
   future according to how the state is being left (asserts 1-11 of the source) *)
Definition settle (w : world) (h : how) : R :=
  let w := match expiry (cx w) with
           | Some t => set_expiry (cancel_exp w t) None
           | None => w end in
  let c := cx w in
  match curfut c with
  | None =>
      do w <- assert (negb (is_some (cur c))) 1 w;
      assert (negb (sending_state (state c))) 2 w
  | Some f =>
      match fut_of w f, h with
      | FCancelled, _ =>
          do w <- assert (is_some (cur c)) 3 w;
          assert (sending_state (state c)) 4 w
      | fs, HExn e =>
          do w <- assert (negb (fut_done fs)) 5 w;
          do w <- assert (sending_state (state c)) 6 w;
          Ok (resolve w f (FExn e))
      | fs, HRes p =>
          do w <- assert (negb (fut_done fs)) 7 w;
          do w <- assert (sending_state (state c)) 8 w;
          Ok (resolve w f (FRes p))
      | fs, HExpired =>
          do w <- assert (negb (fut_done fs)) 9 w;
          do w <- assert (sending_state (state c)) 10 w;
          Ok (resolve w f (FExn ERetries))
      | fs, _ => assert (negb (fut_done fs)) 11 w
      end
  end.

(* ... second half: the new state object (the WantEcho / WantRply constructors copy _sent_cmd /
   _echo_pkt), the transmit counter, and the deferred effect_state *)
Definition switch (w : world) (ns : st) (h : how) : R :=
  let c := cx w in
  let nsent := match ns with WantEcho | WantRply => sent c | _ => None end in
  let necho := match ns with WantRply => echo c | _ => None end in
  let ncur := if is_timed_out h then cur c
              else match ns with WantEcho | WantRply => cur c | _ => None end in
  let ntxc := if is_timed_out h then S (txc c)
              else match ns with WantEcho => 1%nat | WantRply => txc c | _ => 0%nat end in
  do w <- (if is_timed_out h then Ok w
           else match ns with
                | WantEcho => assert (is_some (cur c)) 12 w     (* assert self._qos is not None *)
                | _ => Ok w end);
  let w := set_cx w (mk_ctx ns ncur (curfut c) ntxc (txl c) (mult c) (que c) (expiry c) nsent necho) in
  do w <- assert (is_sending_ok w) 13 w;
  Ok (call_soon w (CbEffect (is_timed_out h))).

Definition set_state (w : world) (ns : st) (h : how) : R :=
  do w <- settle w h; switch w ns h.

Section WithEnv.
Variable cmds : cid -> cmdinfo.
Variable plan : nat -> wplan.      (* the transport's behaviour on the n-th write request *)

(* ProtocolContext._send_cmd *)
Definition send_cmd_ (w : world) (c : cid) (is_retry : bool) : R :=
  match state (cx w) with
  | Idle =>
      do w <- assert (negb (is_some (sent (cx w))) && negb is_retry) 20 w;
      do w <- set_state (set_sent w (Some c)) WantEcho HPlain;
      Ok (call_soon w (CbWriter c))
  | WantEcho =>
      do w <- assert (is_some (sent (cx w)) && is_retry) 21 w;
      Ok (call_soon w (CbWriter c))
  | _ => set_state w Idle (HExn EFsm)       (* ProtocolFsmError -> set_state(IsInIdle, exception) *)
  end.

(* the priority queue: lowest (priority, stamp) first *)
Fixpoint insert_q (e : Z * Z * cid) (q : list (Z * Z * cid)) : list (Z * Z * cid) :=
  match q with
  | [] => [e]
  | e' :: q' => let '(p, s, _) := e in let '(p', s', _) := e' in
      if (p <? p') || ((p =? p') && (s <? s')) then e :: q else e' :: insert_q e q'
  end.

(* get_nowait until an entry whose future is not done *)
Fixpoint dequeue (w : world) (q : list (Z * Z * cid)) : world * option cid :=
  match q with
  | [] => (set_que w [], None)
  | (_, _, c) :: q' => if fut_done (fut_of w c) then dequeue w q' else (set_que w q', Some c)
  end.

(* ProtocolContext._check_buffer_for_cmd *)
Definition check_buffer (w : world) : R :=
  do w <- assert (is_sending_ok w) 30 w;
  let c := cx w in
  if match curfut c with Some f => negb (fut_done (fut_of w f)) | None => false end then Ok w
  else
    let '(w, oc) := dequeue w (que c) in
    match oc with
    | None => Ok (set_cur w None None (txc (cx w)) (txl (cx w)))
    | Some k =>
        let w := set_cur w (Some k) (Some k) 0 (S (Nat.min (max_retries (cmds k)) MAX_RETRY)) in
        send_cmd_ w k false
    end.

Definition new_exp (w : world) : world :=
  let t := next_tid w in
  let w := call_soon w (CbExpStart t) in
  let w := set_exps w (aset t ENotStarted (exps w)) (S t) in
  set_expiry w (Some t).

(* effect_state(timed_out) *)
Definition effect_state (w : world) (timed_out : bool) : R :=
  do w <- assert (is_sending_ok w) 40 w;
  do w <- (if timed_out then
             match cur (cx w) with
             | None => Crash 41 w
             | Some k => send_cmd_ w k true
             end
           else Ok w);
  match state (cx w) with
  | Idle => Ok (call_soon w CbCheckBuf)
  | WantRply =>
      match cur (cx w) with
      | Some k => if negb (wfr (cmds k))
                  then match echo (cx w) with Some p => set_state w Idle (HRes p) | None => set_state w Idle HPlain end
                  else Ok (new_exp w)
      | None => Crash 42 w      (* self._qos is None: AttributeError *)
      end
  | WantEcho => Ok (new_exp w)
  | Inactive => Ok w
  end.

(* expire_state_on_timeout: the part before the sleep *)
Definition exp_start (w : world) (t : nat) : R :=
  match aget EDone t (exps w) with
  | ENotStarted =>
      do w <- assert (is_some (cur (cx w))) 50 w;
      do w <- assert (is_sending_ok w) 51 w;
      do w <- assert (Nat.ltb 0 (txc (cx w))) 52 w;
      let base := match state (cx w) with WantEcho => ECHO_TO | _ => RPLY_TO end in
      let m := mult (cx w) in
      let delay := base * 2 ^ (Z.of_nat m) in
      let w := set_mult w (Nat.pred m) in
      let w := set_exp w t (ESleeping m) in
      Ok (call_at w (now w + delay) (CbExpTimer t))
  | _ => Ok w   (* cancelled before its first step *)
  end.

(* ... and the part after it *)
Definition exp_wake (w : world) (t : nat) : R :=
  match aget EDone t (exps w) with
  | EWoken old_val =>
      let w := set_exp w t ERunning in
      let w := set_mult w (Nat.min MULT_CAP (S old_val)) in
      do w <- assert (is_sending_ok w) 53 w;
      do w <- (if Nat.ltb (txc (cx w)) (txl (cx w))
               then set_state w WantEcho HTimedOut
               else set_state w Idle HExpired);
      do w <- assert (is_sending_ok w) 54 w;
      Ok (set_exp w t EDone)
  | _ => Ok w
  end.

(* WantEcho.pkt_rcvd / WantRply.pkt_rcvd / IsInIdle / Inactive *)
Definition pkt_rcvd (w : world) (p : pkt) : R :=
  match state (cx w) with
  | Inactive | Idle => assert (negb (is_some (sent (cx w)))) 60 w
  | WantEcho =>
      match sent (cx w) with
      | None => Crash 61 w
      | Some k =>
          let ci := cmds k in
          if match rx_hdr ci with Some h => Nat.eqb (p_hdr p) h && p_dst_ok p | None => false end
          then set_state w Idle (HRes p)                 (* the reply arrived before the echo *)
          else if negb (Nat.eqb (p_hdr p) (tx_hdr ci)) then Ok w
          else let w := set_echo w (Some p) in
               match rx_hdr ci with
               | Some _ => set_state w WantRply HPlain
               | None => set_state w Idle (HRes p)
               end
      end
  | WantRply =>
      match sent (cx w), echo (cx w) with
      | Some k, Some e =>
          let ci := cmds k in
          if Nat.eqb (p_hdr p) (tx_hdr ci) && Nat.eqb (p_src p) (p_src e) then Ok w
          else match rx_hdr ci with
               | Some h => if null_ok ci p || Nat.eqb (p_hdr p) h then set_state w Idle (HRes p) else Ok w
               | None => Crash 63 w
               end
      | _, _ => Crash 62 w
      end
  end.

(* the caller coroutine: ProtocolContext.send_cmd up to its await *)
Definition caller_start (w : world) (c : cid) : R :=
  match state (cx w) with
  | Inactive => Ok (emit (set_caller w c CDone) (Done (now w) c ErrSendFailed))
  | _ =>
      if Nat.leb BUF_SIZE (length (que (cx w)))
      then Ok (emit (set_caller (set_fut w c FCancelled) c CDone) (Done (now w) c ErrSendFailed))
      else
        let w := set_fut w c FPending in
        let w := set_que w (insert_q (prio (cmds c), stamp w, c) (que (cx w))) in
        let w := bump_stamp w in
        let w := match state (cx w) with Idle => call_soon w CbCheckBuf | _ => w end in
        let w := set_caller w c CWaiting in
        Ok (call_at w (now w + Z.min (timeout (cmds c)) SEND_LIMIT) (CbCallerTimer c))
  end.

(* wait_for's timer: task.cancel() *)
Definition caller_timer (w : world) (c : cid) : R :=
  match aget CNone c (callers w) with
  | CWaiting =>
      let w := set_caller w c CTimedOut in
      if fut_done (fut_of w c) then Ok w      (* the wake-up is already scheduled; _must_cancel *)
      else Ok (call_soon (set_fut w c FCancelled) (CbCallerWake c))
  | _ => Ok w
  end.

(* task.cancel() from outside.  A task not yet started never runs; a waiting one has its future cancelled (or, the future being done already,
   is marked _must_cancel) and wakes with CancelledError; one whose wait_for timer has fired already has been asked to cancel twice, so the
   timeout context lets the CancelledError through instead of turning it into TimeoutError *)
Definition caller_cancel (w : world) (c : cid) : R :=
  match aget CNone c (callers w) with
  | CNone => Ok (set_caller w c CDone)
  | CWaiting =>
      let w := set_caller w c CCancelled in
      if fut_done (fut_of w c) then Ok w
      else Ok (call_soon (set_fut w c FCancelled) (CbCallerWake c))
  | CTimedOut => Ok (set_caller w c CCancelled)
  | _ => Ok w
  end.

Definition caller_wake (w : world) (c : cid) : R :=
  match aget CNone c (callers w) with
  | CCancelled =>   (* CancelledError propagates: the timeout context drops its timer, send_cmd's handlers do not see it *)
      let w := cancel_timer w (CbCallerTimer c) in
      Ok (emit (set_caller w c CDone) (Done (now w) c ErrCancelled))
  | CWaiting =>   (* the future completed normally *)
      let w := cancel_timer w (CbCallerTimer c) in
      let o := match fut_of w c with FRes p => OkPkt p | FExn ERetries => ErrSendFailed | FExn e => ErrExn e | _ => ErrOther end in
      Ok (emit (set_caller w c CDone) (Done (now w) c o))
  | CTimedOut =>
      (* except TimeoutError: if self._cmd is cmd: set_state(IsInIdle, expired=True); raise ProtocolSendFailed.
         An assertion tripped inside set_state reaches the caller in place of ProtocolSendFailed *)
      match (match cur (cx w) with
             | Some k => if Nat.eqb k c then set_state w Idle HExpired else Ok w
             | None => Ok w end) with
      | Ok w => Ok (emit (set_caller w c CDone) (Done (now w) c ErrSendFailed))
      | Crash _ w => Ok (emit (set_caller w c CDone) (Done (now w) c ErrOther))
      end
  | _ => Ok w
  end.

Definition conn_made (w : world) : R :=
  match state (cx w) with Inactive => set_state w Idle HPlain | _ => Ok w end.
Definition conn_lost (w : world) : R :=
  match state (cx w) with
  | Inactive => Ok w
  | Idle => set_state w Inactive HPlain
  | _ => set_state w Inactive (HExn ETransport)
  end.

(* send_fnc_wrapper: except TransportError -- the command fails, if it is still the one in flight (a write that fails after its command
   has ended fails nobody) *)
Definition fail_write (w : world) (c : cid) : R :=
  match cur (cx w) with
  | Some k => if Nat.eqb k c then set_state w Idle (HExn ETransport) else Ok w
  | None => Ok w
  end.

(* the transport hands the frame to the radio (or fails) and the world reacts *)
Definition do_write (w : world) (n : nat) (c : cid) : R :=
  let pl := plan n in
  if w_fail pl then fail_write w c
  else
    let w := emit w (Write (now w) c) in
    let ci := cmds c in
    let w := match w_echo pl with
             | Some d => call_at w (now w + d) (CbExt (Rx {| p_hdr := tx_hdr ci; p_src := 0%nat; p_dst_ok := false; p_null := None |}))
             | None => w end in
    let w := match w_rply pl, rx_hdr ci with
             | Some d, Some h => call_at w (now w + d) (CbExt (Rx {| p_hdr := h; p_src := 1%nat; p_dst_ok := true; p_null := None |}))
             | _, _ => w end in
    Ok w.

(* send_fnc_wrapper task: first step *)
Definition writer_start (w : world) (c : cid) : R :=
  let n := nwrites w in
  let w := bump_writes w in
  if w_lat (plan n) <=? 0 then do_write w n c
  else Ok (call_at w (now w + w_lat (plan n)) (CbWTimer n c)).

Definition run_cb (w : world) (c : cb) : R :=
  match c with
  | CbEffect b => effect_state w b
  | CbCheckBuf => check_buffer w
  | CbExpStart t => exp_start w t
  | CbExpTimer t => match aget EDone t (exps w) with
                    | ESleeping o => Ok (call_soon (set_exp w t (EWoken o)) (CbExpWake t))
                    | _ => Ok w end
  | CbExpWake t => exp_wake w t
  | CbWriter c => writer_start w c
  | CbWTimer n c => Ok (call_soon w (CbWWake n c))
  | CbWWake n c => do_write w n c
  | CbCallerStart c => match aget CNone c (callers w) with CNone => caller_start w c | _ => Ok w end   (* cancelled before its first step *)
  | CbCallerTimer c => caller_timer w c
  | CbCallerWake c => caller_wake w c
  | CbExt (Call c) => Ok (call_soon w (CbCallerStart c))
  | CbExt (Rx p) => pkt_rcvd w p
  | CbExt ConnMade => conn_made w
  | CbExt ConnLost => conn_lost w
  | CbExt (Cancel c) => caller_cancel w c
  | CbExt (Stall d) => Ok (upd_loop w (now w + Z.max d 0) (ready w) (batch w) (timers w) (seq w))
  end.

(* ---------- the loop: BaseEventLoop._run_once ---------- *)
Fixpoint min_when (ts : list (Z * nat * cb)) (acc : option Z) : option Z :=
  match ts with
  | [] => acc
  | (t, _, _) :: ts' => min_when ts' (match acc with None => Some t | Some a => Some (Z.min a t) end)
  end.

(* insertion by (when, seq); lifo = true reverses ties (the tie policy is the environment's) *)
Fixpoint ins_due (lifo : bool) (e : Z * nat * cb) (l : list (Z * nat * cb)) : list (Z * nat * cb) :=
  match l with
  | [] => [e]
  | e' :: l' => let '(t, s, _) := e in let '(t', s', _) := e' in
      if (t <? t') || ((t =? t') && (if lifo then Nat.ltb s' s else Nat.ltb s s'))
      then e :: l else e' :: ins_due lifo e l'
  end.

Definition boundary (lifo : bool) (w : world) : option world :=
  let n := match ready w with
           | [] => match min_when (timers w) None with Some t => Some (Z.max t (now w)) | None => None end
           | _ => Some (now w) end in
  match n with
  | None => None   (* quiescent *)
  | Some n =>
      let due := filter (fun e => let '(t, _, _) := e in t <=? n) (timers w) in
      let rest := filter (fun e => let '(t, _, _) := e in negb (t <=? n)) (timers w) in
      let due := fold_right (ins_due lifo) [] due in
      let r := ready w ++ map (fun e => snd e) due in
      Some (upd_loop w n r (length r) rest (seq w))
  end.

(* one step of the machine: run one ready callback of the current batch, or cross a batch boundary *)
Definition step (lifo : bool) (w : world) : option world :=
  match batch w, ready w with
  | S b, c :: r =>
      let w1 := upd_loop w (now w) r b (timers w) (seq w) in
      match run_cb w1 c with
      | Ok w2 => Some w2
      | Crash n w2 => Some (emit w2 (LoopExn (now w2) n))
      end
  | _, _ => boundary lifo w
  end.

Fixpoint run (lifo : bool) (fuel : nat) (w : world) : world * bool (* finished *) :=
  match fuel with
  | O => (w, false)
  | S fuel' => match step lifo w with None => (w, true) | Some w' => run lifo fuel' w' end
  end.

Definition ctx0 : ctx := mk_ctx Inactive None None 0 0 0 [] None None None.
Fixpoint preload (evs : list (Z * ext)) (k : nat) : list (Z * nat * cb) :=
  match evs with [] => [] | (t, e) :: evs' => (t, k, CbExt e) :: preload evs' (S k) end.
Definition world0 (evs : list (Z * ext)) : world :=
  {| now := 0; ready := []; batch := 0; timers := preload evs 0; seq := length evs;
     cx := ctx0; futs := []; callers := []; exps := []; next_tid := 0; stamp := 0; nwrites := 0; trace := [] |}.
Definition simulate (lifo : bool) (fuel : nat) (evs : list (Z * ext)) : list obs * st * bool :=
  let '(w, fin) := run lifo fuel (world0 evs) in (trace w, state (cx w), fin).
End WithEnv.
