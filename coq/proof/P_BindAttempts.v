(* P_BindAttempts: with the timer cancelled first, no abandoned state object ever keeps an armed timer; hence a new
   attempt on a context that is not binding behaves exactly like a first attempt, whatever happened before. *)
From Coq Require Import List Bool Arith Lia.
From RV Require Import M_Bind M_BindAttempts.
Import ListNotations.

Lemma astep_stale0 c a : c_stale c = 0 -> c_stale (astep true c a) = 0.
Proof.
  intros H. destruct a as [e| |hst|]; cbn [astep].
  - destruct (step true (c_cur c) e); exact H.
  - destruct (binding (c_cur c)); cbn; exact H.
  - destruct (binding (c_cur c)); exact H.
  - rewrite H. exact H.
Qed.
Lemma fold_stale0 evs : forall c, c_stale c = 0 -> c_stale (fold_left (astep true) evs c) = 0.
Proof. induction evs as [|a evs IH]; intros c H; cbn [fold_left]; [exact H | apply IH, astep_stale0, H]. Qed.
Lemma ainstant_stale0 c evs : c_stale c = 0 -> c_stale (ainstant true c evs) = 0.
Proof. intros H. unfold ainstant. cbn [c_stale]. apply fold_stale0, H. Qed.
Lemma afold_stale0 instants : forall c, c_stale c = 0 -> c_stale (afold true c instants) = 0.
Proof. unfold afold. induction instants as [|i is IH]; intros c H; cbn [fold_left]; [exact H | apply IH, ainstant_stale0, H]. Qed.

Theorem abandon_leaves_no_timer hst instants : c_stale (arun true hst instants) = 0.
Proof. apply afold_stale0. reflexivity. Qed.

(* one instant of a single attempt, stale timers interleaved: the wait evolves as M_Bind.instant says *)
Lemma lift_fold evs : forall c, c_stale c = 0 ->
  c_cur (fold_left (astep true) (lift evs) c) =
    fst (fold_left (fun acc e => let '(s', n) := step true (fst acc) e in (s', snd acc + n)) (strip evs) (c_cur c, 0))
  /\ c_stale (fold_left (astep true) (lift evs) c) = 0.
Proof.
  induction evs as [|[e|] evs IH]; intros c H; cbn [lift map strip fold_left].
  - split; [reflexivity | exact H].
  - cbn [astep fst snd]. destruct (step true (c_cur c) e) as [s' n] eqn:E.
    destruct (IH (mkC s' (c_stale c) (c_exn c + n)) H) as [A B]. fold (lift evs). split; [|exact B].
    rewrite A. cbn [c_cur].
    assert (G : forall l s a b, fst (fold_left (fun acc e0 => let '(s'0, n0) := step true (fst acc) e0 in (s'0, snd acc + n0)) l (s, a)) =
                                fst (fold_left (fun acc e0 => let '(s'0, n0) := step true (fst acc) e0 in (s'0, snd acc + n0)) l (s, b))).
    { induction l as [|x l IHl]; intros s a b; cbn [fold_left]; [reflexivity|]. cbn [fst snd]. destruct (step true s x). apply IHl. }
    apply G.
  - cbn [astep]. rewrite H. fold (lift evs). apply IH, H.
Qed.

Lemma lift_instant c evs : c_stale c = 0 ->
  c_cur (ainstant true c (lift evs)) = fst (instant true (c_cur c, 0) (strip evs)) /\ c_stale (ainstant true c (lift evs)) = 0.
Proof.
  intros H. unfold ainstant, instant, steps. cbn [c_cur c_stale fst snd].
  destruct (lift_fold evs c H) as [A B]. rewrite A. split; [|exact B].
  destruct (fold_left _ (strip evs) (c_cur c, 0)) as [s' n]. reflexivity.
Qed.

Lemma instant_fst acc acc' evs : fst acc = fst acc' -> fst (instant true acc evs) = fst (instant true acc' evs).
Proof.
  destruct acc as [s a], acc' as [s' b]. cbn [fst]. intros ->. unfold instant, steps. cbn [fst snd].
  assert (G : forall l s a b, fst (fold_left (fun acc e0 => let '(s'0, n0) := step true (fst acc) e0 in (s'0, snd acc + n0)) l (s, a)) =
                              fst (fold_left (fun acc e0 => let '(s'0, n0) := step true (fst acc) e0 in (s'0, snd acc + n0)) l (s, b))).
  { induction l as [|x l IHl]; intros s a0 b0; cbn [fold_left]; [reflexivity|]. cbn [fst snd]. destruct (step true s x). apply IHl. }
  specialize (G evs s' 0 0).
  destruct (fold_left _ evs (s', 0)) as [u m]. reflexivity.
Qed.

Lemma lift_afold h : forall c acc, c_stale c = 0 -> c_cur c = fst acc ->
  c_cur (afold true c (map lift h)) = fst (fold_left (instant true) (map strip h) acc).
Proof.
  unfold afold. induction h as [|i h IH]; intros c acc H E; cbn [map fold_left]; [exact E|].
  destruct (lift_instant c i H) as [A B]. apply IH; [exact B|].
  rewrite A. apply instant_fst. cbn [fst]. exact E.
Qed.

(* THE statement: after ANY history on the context -- waits, timers, repeats, abandoned attempts, retries -- once the device
   is not binding, a new attempt (with stale timers coming due at any point during it) evolves exactly as a first attempt *)
Theorem retry_is_fresh hst0 h1 hst i0 h2 :
  binding (c_cur (arun true hst0 h1)) = false ->
  c_cur (afold true (arun true hst0 h1) ((ANew hst :: lift i0) :: map lift h2)) = fst (run true hst (strip i0 :: map strip h2)).
Proof.
  intros NB. pose proof (abandon_leaves_no_timer hst0 h1) as S0.
  set (c := arun true hst0 h1) in *.
  unfold afold. cbn [fold_left]. fold (afold true (ainstant true c (ANew hst :: lift i0)) (map lift h2)).
  unfold run. cbn [fold_left].
  assert (E1 : ainstant true c (ANew hst :: lift i0) = ainstant true (mkC (bw0 hst) (c_stale c) (c_exn c)) (lift i0)).
  { unfold ainstant. cbn [fold_left astep]. rewrite NB. reflexivity. }
  rewrite E1.
  destruct (lift_instant (mkC (bw0 hst) (c_stale c) (c_exn c)) i0 S0) as [A B].
  apply lift_afold; [exact B|]. rewrite A. cbn [c_cur]. apply instant_fst. reflexivity.
Qed.

(* the attempt-level events never leave the device binding after an abandon *)
Theorem abandon_ends_binding cf c : binding (c_cur (astep cf c AAbandon)) = false.
Proof. cbn [astep]. destruct (binding (c_cur c)) eqn:E; [reflexivity | exact E]. Qed.

(* witness: with the timer looked up AFTER the state was replaced, an attempt that was given up at once disturbs its successor *)
Definition h_retry : list (list aev) :=
  [[AWait EStart]; [AAbandon]; [ANew true; AWait EStart]; [AStale]; [AWait EMatch]].
Theorem wrong_order_refuted :
  b_ctx (c_cur (arun false true h_retry)) = CFailed /\ b_w (c_cur (arun false true h_retry)) <> Done OkMsg /\ c_exn (arun false true h_retry) = 1.
Proof. vm_compute. repeat split; discriminate. Qed.
Theorem right_order_witness :
  b_ctx (c_cur (arun true true h_retry)) = CNext /\ b_w (c_cur (arun true true h_retry)) = Done OkMsg /\ c_exn (arun true true h_retry) = 0.
Proof. vm_compute. repeat split. Qed.
