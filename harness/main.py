"""./check entry point (see DESIGN.md 2.1)."""

from __future__ import annotations

import argparse
import importlib
import json
import os
import sys
import traceback

from . import common


def setup() -> int:
    ok, out = common.regenerate()
    print(out[-2000:])
    if not ok:
        print("setup: translator failed")
        return 1
    bad = common.hygiene()
    if bad:
        print("setup: hygiene grep failed:\n" + "\n".join(bad))
        return 1
    mk = common.COQ / "Makefile"
    if mk.exists():
        mk.unlink()
    ok, out = common.coq_make([], timeout=6000)
    print(out[-3000:])
    return 0 if ok else 1


def main() -> int:
    ap = argparse.ArgumentParser()
    ap.add_argument("pid", nargs="?")
    ap.add_argument("--tier", default=os.environ.get("VERIF_TIER", "quick"), choices=["quick", "thorough"])
    ap.add_argument("--setup", action="store_true")
    ap.add_argument("--replay")
    a = ap.parse_args()
    if a.setup:
        return setup()
    if not a.pid:
        ap.error("property id required")
    seed = int(os.environ.get("VERIF_SEED", "1") or "1")
    mod = importlib.import_module(f"harness.props.{a.pid.lower()}")
    if a.replay:
        case = json.load(open(a.replay))
        return mod.replay(case)
    ctx = common.Ctx(a.pid, a.tier, seed)
    try:
        mod.run(ctx)
    except Exception:  # the check itself broke: never silently pass
        tb = traceback.format_exc()
        print(tb)
        ctx.obligation("check-harness-ran-to-completion", False, "harness", tb[-700:])
    return ctx.finish()


if __name__ == "__main__":
    sys.exit(main())
