(* Py: exception classes and the result monad shared by all models. *)
From Coq Require Import ZArith List.
Import ListNotations.

Inductive exn :=
| ValueError | TypeError | KeyError | AssertionError | ZeroDivisionError
| PacketInvalid            (* exc.PacketInvalid and its subclasses (PacketAddrSetInvalid, PacketPayloadInvalid) *)
| ProtocolError | ProtocolSendFailed | TransportError | ProtocolFsmError
| TimeoutErr | CancelledError | InvalidStateError
| OtherExn.

Definition exn_eqb (a b : exn) : bool :=
  match a, b with
  | ValueError, ValueError | TypeError, TypeError | KeyError, KeyError
  | AssertionError, AssertionError | ZeroDivisionError, ZeroDivisionError
  | PacketInvalid, PacketInvalid | ProtocolError, ProtocolError
  | ProtocolSendFailed, ProtocolSendFailed | TransportError, TransportError
  | ProtocolFsmError, ProtocolFsmError | TimeoutErr, TimeoutErr
  | CancelledError, CancelledError | InvalidStateError, InvalidStateError
  | OtherExn, OtherExn => true
  | _, _ => false
  end.

Inductive result (A : Type) := Ok (a : A) | Raise (e : exn).
Arguments Ok {A} a.
Arguments Raise {A} e.

Definition bind {A B} (r : result A) (f : A -> result B) : result B :=
  match r with Ok a => f a | Raise e => Raise e end.
Notation "'do' x <- r ; k" := (bind r (fun x => k)) (at level 200, x pattern, r at level 100, k at level 200).

Definition of_option {A} (e : exn) (o : option A) : result A :=
  match o with Some a => Ok a | None => Raise e end.

(* z .. z+n-1 as a list, by structural recursion on n (never loops Z.of_nat) *)
Fixpoint zrange (n : nat) (start : Z) : list Z :=
  match n with O => [] | S n' => start :: zrange n' (start + 1)%Z end.

Lemma in_zrange n : forall s w, (s <= w < s + Z.of_nat n)%Z -> In w (zrange n s).
Proof.
  induction n as [|n IH]; intros s w H.
  - simpl in H. exfalso. apply (Z.lt_irrefl w). apply Z.lt_le_trans with (s + 0)%Z; [apply H|].
    rewrite Z.add_0_r. apply H.
  - cbn [zrange]. destruct (Z.eq_dec s w) as [->|Hne]; [left; reflexivity|right].
    apply IH. rewrite Nat2Z.inj_succ in H. split.
    + destruct H as [H1 _]. apply Z.le_succ_l. apply Z.le_neq. split; assumption.
    + destruct H as [_ H2]. rewrite <- Z.add_assoc. rewrite (Z.add_comm 1). exact H2.
Qed.
