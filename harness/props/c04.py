"""C04 -- wire value codecs: build the theorems, tie the model to helpers.py/address.py/
schedule.py over whole domains (block hashes), and run the oracle on the implementation."""

from __future__ import annotations

import math
import re
from datetime import datetime as dt, timedelta as td

from .. import common
from ..common import Ctx

THEOREMS = [
    "C04_temp_decode_encode", "C04_temp_encode_decode", "C04_temp_sentinels",
    "C04_temp_no_silent_wrap", "C04_temp_trunc_refuted",
    "C04_percent_decode_encode", "C04_percent_sentinel", "C04_percent_no_silent_wrap",
    "C04_double_decode_encode", "C04_bool_roundtrip", "C04_bool_decode_encode",
    "C04_flag8_decode_encode", "C04_flag8_encode_decode",
    "C04_dts_roundtrip", "C04_dts_decode_encode", "C04_dts_sentinel",
    "C04_dtm_roundtrip", "C04_dtm_roundtrip_no_seconds", "C04_dtm_sentinel",
    "C04_id_hex_dev_hex", "C04_id_dev_hex_dev", "C04_id_fields_in_range",
    "C04_id_text_hex_roundtrip", "C04_sched_setpoint_roundtrip", "C04_nonvacuous",
]

HM = 2**61 - 1


def hstep(acc: int, x: int) -> int:
    return (acc * 1000003 + x) % HM


EXN = {"ValueError": 1, "TypeError": 2, "KeyError": 3, "AssertionError": 4}


def exn_code(e: BaseException) -> int:
    return EXN.get(type(e).__name__, 9)


def float_code(x: float) -> int:
    if x != x or x in (math.inf, -math.inf):
        return -1
    if x == 0.0:
        s = 1 if math.copysign(1.0, x) < 0 else 0
        return (s * 2**53 + 0) * 4096 + 2000
    m, e = math.frexp(abs(x))
    mant = int(m * 2**53)
    assert mant * 2.0 ** (e - 53) == abs(x)
    return ((1 if x < 0 else 0) * 2**53 + mant) * 4096 + (e - 53 + 2000)


def call(f, *a):
    try:
        return ("ok", f(*a))
    except Exception as err:  # noqa: BLE001
        return ("exc", err)


def res_code(r, c) -> int:
    return 16 * c(r[1]) if r[0] == "ok" else exn_code(r[1])


def tempv_code(v) -> int:
    if v is None:
        return 1
    if v is False:
        return 2
    return 3 + 4 * float_code(float(v))


def optf_code(v) -> int:
    return 1 if v is None else 3 + 4 * float_code(float(v))


def hexint(s: str) -> int:
    if not re.fullmatch(r"[0-9A-F]+", s):
        return -7  # malformed text: never equals a model integer
    return int(s, 16)


def impl_codes(H):
    """The implementation's codes, mirroring model/M_CodecsShow.v."""

    def temp_code(w):
        r = call(H.hex_to_temp, f"{w:04X}")
        if r[0] == "ok" and r[1] is not None and r[1] is not False:
            r2 = call(H.hex_from_temp, r[1])
            return hstep(res_code(r, tempv_code), res_code(r2, hexint))
        return res_code(r, tempv_code)

    def pct_code(hr, b):
        r = call(H.hex_to_percent, f"{b:02X}", hr)
        if r[0] == "ok" and r[1] is not None:
            r2 = call(H.hex_from_percent, r[1], hr)
            return hstep(res_code(r, optf_code), res_code(r2, hexint))
        return res_code(r, optf_code)

    def dbl_code(factor, w):
        r = call(H.hex_to_double, f"{w:04X}", factor)
        if r[0] != "ok":
            return -3
        if r[1] is None:
            return 1
        r2 = call(H.hex_from_double, r[1], factor)
        return hstep(optf_code(r[1]), res_code(r2, hexint))

    def bool_code(b):
        r = call(H.hex_to_bool, f"{b:02X}")
        return res_code(r, lambda v: 1 if v is None else (3 if v else 2))

    def flag_code(lsb, b):
        acc = 1
        for x in H.hex_to_flag8(f"{b:02X}", lsb):
            acc = acc * 2 + x
        return acc

    def temp_enc_code(k):
        return res_code(call(H.hex_from_temp, k / 100), hexint)

    return dict(temp=temp_code, pct=pct_code, dbl=dbl_code, bool=bool_code, flag=flag_code,
                temp_enc=temp_enc_code)


def block_hashes(f, nblocks, bsize, start=0):
    out = []
    for b in range(nblocks):
        acc = 0
        for i in range(start + b * bsize, start + (b + 1) * bsize):
            acc = hstep(acc, f(i))
        out.append(acc)
    return out


PRELUDE = ("From Coq Require Import ZArith List String Bool.\n"
           "From RV Require Import Py PyStr PyFloat M_Codecs M_CodecsShow.\n"
           "Import ListNotations.\nOpen Scope Z_scope.\nSet Printing Width 1000000.\nSet Printing Depth 1000000.\n")


def parse_zlist(out: str) -> list[int]:
    m = re.search(r"=\s*\[(.*?)\]\s*:\s*list Z", out, flags=re.S)
    if not m:
        raise ValueError("cannot parse coq output: " + out[:400])
    return [int(x) for x in re.findall(r"-?\d+", m.group(1))]


def dtf_code(y, mo, d, h, mi, s):
    return ((((y * 16 + mo) * 32 + d) * 32 + h) * 64 + mi) * 64 + s


def run(ctx: Ctx) -> None:
    import ramses_tx.address as A  # noqa: PLC0415
    import ramses_tx.helpers as H  # noqa: PLC0415
    from ramses_rf.system import schedule as S  # noqa: PLC0415

    thorough = ctx.tier == "thorough"
    rng = ctx.rng
    ctx.rule = ("whole finite domains (65 536 temperature/counter words, 256 percent/flag/bool bytes, "
                "110 000 grid temperatures k/100 incl. out-of-range) compared model-vs-implementation by "
                "256-element block hashes; sampled date-times/timestamps/ids (boundaries + PRNG); a case is "
                "non-trivial when the decoder returns a value (not a sentinel, not an error); distinct = by input")
    ctx.trusted.append("primitive binary64 operations of the Coq VM (PrimFloat, hardware IEEE-754) in lib/PyFloat.v")
    ctx.assumptions += [
        "hex strings are modelled by the integer they denote plus PyStr.hexN/int16 for the text layer",
        "datetime()/strftime/strptime are modelled by valid_dt and fixed-width decimal fields",
    ]
    built = ctx.build("C04", THEOREMS)

    codes = impl_codes(H)
    # ---------------------------------------------------------------- correspondence (X)
    suites: dict[str, tuple[str, list[int], object]] = {}
    # name -> (coq expr, impl list, locator(f, start))
    suites["temp_words"] = ("blocks temp_code 256 256", block_hashes(codes["temp"], 256, 256), ("temp_code", codes["temp"], 0))
    suites["pct_hi"] = ("blocks (pct_code true) 1 256", block_hashes(lambda b: codes["pct"](True, b), 1, 256), ("pct_code true", lambda b: codes["pct"](True, b), 0))
    suites["pct_lo"] = ("blocks (pct_code false) 1 256", block_hashes(lambda b: codes["pct"](False, b), 1, 256), ("pct_code false", lambda b: codes["pct"](False, b), 0))
    for fac in (1, 10, 100):
        suites[f"dbl_{fac}"] = (f"blocks (dbl_code {fac}) 256 256", block_hashes(lambda w, fac=fac: codes["dbl"](fac, w), 256, 256),
                                (f"dbl_code {fac}", lambda w, fac=fac: codes["dbl"](fac, w), 0))
    suites["bool"] = ("blocks bool_code 1 256", block_hashes(codes["bool"], 1, 256), ("bool_code", codes["bool"], 0))
    suites["flag_lsb"] = ("blocks (flag_code true) 1 256", block_hashes(lambda b: codes["flag"](True, b), 1, 256), ("flag_code true", lambda b: codes["flag"](True, b), 0))
    suites["flag_msb"] = ("blocks (flag_code false) 1 256", block_hashes(lambda b: codes["flag"](False, b), 1, 256), ("flag_code false", lambda b: codes["flag"](False, b), 0))
    K0, KB = -40192, 432  # k in [-40192, 70400)
    suites["temp_enc"] = (f"map (fun b => block_hash temp_enc_code 256 ({K0} + b * 256) 0) (zrange {KB} 0)",
                          block_hashes(codes["temp_enc"], KB, 256, start=K0), ("temp_enc_code", codes["temp_enc"], K0))

    def sp_code(w):
        raw = bytes([0, 0, 0, 0, 0, 0, 0, 0, 0, 0, 0, 0, 0, 0, 0, 0]) + w.to_bytes(2, "little") + b"\0\0"
        swp = real_sched_decode(S, raw, whole=True)      # through the REAL fragz_to_full_sched (one record, compressed and cut as the wire has it)
        if swp is None:
            return -1
        r = call(S._struct_pack, {"zone_idx": "00"}, {"day_of_week": 0}, swp)     # 0 / 1 decode to enabled False / True, everything else to a setpoint
        if r[0] != "ok":
            return -1
        return int.from_bytes(r[1][16:18], "little")

    suites["sched_setpoint"] = ("blocks sp_code 256 256", block_hashes(sp_code, 256, 256), ("sp_code", sp_code, 0))

    # sampled: dts / dtm / date decode, ids
    def rand_dtfields():
        y = rng.choice([1, 5, 23, 24, 99, 0, 100, 127, rng.randrange(128)])
        mo = rng.choice([1, 2, 12, 0, 13, rng.randrange(16)])
        d = rng.choice([1, 28, 29, 30, 31, 0, rng.randrange(32)])
        h = rng.choice([0, 23, 24, rng.randrange(32)])
        mi = rng.choice([0, 59, 60, rng.randrange(64)])
        s = rng.choice([0, 59, 60, rng.randrange(64)])
        return y, mo, d, h, mi, s

    n_s = 6000 if thorough else 1500
    dts_inputs = [0x7F, 0]
    for _ in range(n_s):
        y, mo, d, h, mi, s = rand_dtfields()
        v = (y << 24) + (mo << 36) + (d << 31) + (h << 19) + (mi << 13) + (s << 7)
        if rng.random() < 0.2:
            v |= rng.randrange(128) | (rng.randrange(256) << 40)
        dts_inputs.append(v)

    def dts_dec(v):
        r = call(H.hex_to_dts, f"{v:012X}")
        if r[0] == "ok" and r[1] is not None:
            # recover the 7-bit year the model reports (text shows it mod 100)
            t = r[1]
            yy, mo, d, h, mi, s = int(t[0:2]), int(t[3:5]), int(t[6:8]), int(t[9:11]), int(t[12:14]), int(t[15:17])
            y7 = (v >> 24) & 0x7F
            if y7 % 100 != yy:      # the text shows another year than the one in the word: report the text's (the model will differ)
                y7 = 200 + yy
            return 16 * (3 + 4 * dtf_code(y7, mo, d, h, mi, s))
        return res_code(r, lambda _: 1)

    suites["dts_decode"] = ("map dts_dec_code " + common.coq_list([str(v) for v in dts_inputs]),
                            [dts_dec(v) for v in dts_inputs], None)

    dtm_inputs = [2**48 - 1, 2**56 - 1]
    for _ in range(n_s):
        y = rng.choice([2023, 2024, 1, 9999, 0, 10000, 1900, 2100, rng.randrange(65536)])
        _, mo, d, h, mi, s = rand_dtfields()
        h |= rng.choice([0, 0, 0x20, 0xE0])
        s |= rng.choice([0, 0x80])
        incl = rng.random() < 0.5
        v = (mi << 40) + (h << 32) + (d << 24) + (mo << 16) + y + ((s << 48) if incl else 0)
        dtm_inputs.append((v, incl))
    dtm_inputs[0] = (dtm_inputs[0], False)
    dtm_inputs[1] = (dtm_inputs[1], True)

    def dtm_dec(v, incl):
        r = call(H.hex_to_dtm, f"{v:014X}" if incl else f"{v:012X}")
        if r[0] == "ok" and r[1] is not None:
            t = dt.fromisoformat(r[1])
            return 16 * (3 + 4 * dtf_code(t.year, t.month, t.day, t.hour, t.minute, t.second))
        return res_code(r, lambda _: 1)

    suites["dtm_decode"] = ("map dtm_dec_code " + common.coq_list([str(v) for v, _ in dtm_inputs]),
                            [dtm_dec(v, i) for v, i in dtm_inputs], None)

    # encoders on valid date-times
    enc_dts, enc_dtm, enc_dts_exp, enc_dtm_exp = [], [], [], []
    base = dt(2001, 1, 1)
    for _ in range(n_s):
        t = base + td(seconds=rng.randrange(99 * 366 * 86400))
        if t.year > 2099:
            continue
        enc_dts.append(t)
        enc_dts_exp.append(int(H.hex_from_dts(t), 16))
    for t in (dt(2024, 2, 29, 23, 59, 59), dt(2001, 1, 1), dt(2099, 12, 31, 23, 59, 59)):
        enc_dts.append(t)
        enc_dts_exp.append(int(H.hex_from_dts(t.strftime("%y-%m-%dT%H:%M:%S")), 16))
    for _ in range(n_s):
        try:
            t = dt(rng.choice([1, 1999, 2024, 9999, rng.randrange(1, 10000)]), 1, 1) + td(seconds=rng.randrange(366 * 86400))
        except OverflowError:       # 31 Dec 9999 + a day of a leap year: no such datetime
            continue
        dst, incl = rng.random() < 0.5, rng.random() < 0.5
        arg = t if rng.random() < 0.5 else t.isoformat()
        try:
            word = int(H.hex_from_dtm(arg, is_dst=dst, incl_seconds=incl), 16)
        except Exception as err:  # noqa: BLE001
            ctx.violation(f"dtm-encoder-raises:{type(err).__name__}", f"hex_from_dtm({arg!r}, is_dst={dst}, incl_seconds={incl}) raised {type(err).__name__}: {err}",
                          {"value": t.isoformat(), "is_dst": dst, "incl_seconds": incl}, "input")
            continue
        enc_dtm.append((t, dst, incl))
        enc_dtm_exp.append(word)

    def coq_dtf(t):
        return f"(Some (mk_dtf {t.year} {t.month} {t.day} {t.hour} {t.minute} {t.second}))"

    def coq_dtf2(t):
        return f"(Some (mk_dtf {t.year % 100} {t.month} {t.day} {t.hour} {t.minute} {t.second}))"

    suites["dts_encode"] = ("map hex_from_dts " + common.coq_list([coq_dtf2(t) for t in enc_dts]), enc_dts_exp, None)
    suites["dtm_encode"] = ("map (fun x => match x with (d, a, b) => hex_from_dtm d a b end) " + common.coq_list(
        [f"({coq_dtf(t)}, {str(a).lower()}, {str(b).lower()})" for t, a, b in enc_dtm]), enc_dtm_exp, None)

    id_inputs = [0, 1, 0x03FFFF, 0x040000, 0xFBFFFF, 0xFC0000, 0xFFFFFE, 0xFFFFFF, 0x06368E] + [
        rng.randrange(2**24) for _ in range(20000 if thorough else 3000)]

    def id_code(h):
        s = A.hex_id_to_dev_id(f"{h:06X}")
        s2 = A.Address.convert_from_hex(f"{h:06X}")
        if s != s2 or not re.fullmatch(r"\d\d:\d{6}", s):
            return -5
        return int(s[:2]) * 2**20 + int(s[3:])

    suites["id_decode"] = ("map id_code " + common.coq_list([str(h) for h in id_inputs]), [id_code(h) for h in id_inputs], None)
    id_enc_inputs = [(0, 0), (63, 262143), (63, 262142), (1, 145038), (18, 730)] + [
        (rng.randrange(64), rng.randrange(2**18)) for _ in range(3000)]

    def id_enc(t, n):
        a = A.dev_id_to_hex_id(f"{t:02d}:{n:06d}")
        b = A.Address.convert_to_hex(f"{t:02d}:{n:06d}")
        return int(a, 16) if a == b and len(a) == 6 else -5

    suites["id_encode"] = ("map dev_id_to_hex_id " + common.coq_list([f"({t},{n})" for t, n in id_enc_inputs]),
                           [id_enc(t, n) for t, n in id_enc_inputs], None)

    if built:
        files = {name: PRELUDE + f"Eval vm_compute in ({expr})." for name, (expr, _, _) in suites.items()}
        res = common.coq_eval("C04", files, timeout=900)
        for name, (expr, impl, loc) in suites.items():
            rc, out = res[name]
            if rc != 0:
                ctx.obligation(f"correspondence:{name}", False, "correspondence", "coqc failed: " + out[-400:])
                continue
            model = parse_zlist(out)
            bad = [i for i, (a, b) in enumerate(zip(model, impl)) if a != b]
            ok = not bad and len(model) == len(impl)
            detail = ""
            if not ok:
                detail = f"{len(bad)} of {len(impl)} entries differ; first index {bad[:3]}"
                if loc and bad:
                    fname, pf, start = loc
                    b0 = bad[0]
                    lo = start + b0 * 256
                    r2 = common.coq_eval("C04loc", {"loc": PRELUDE + f"Eval vm_compute in (map ({fname}) (zrange 256 ({lo})))."})
                    if r2["loc"][0] == 0:
                        mm = parse_zlist(r2["loc"][1])
                        for i, v in enumerate(mm):
                            if v != pf(lo + i):
                                detail += f"; first differing input {lo + i} (0x{(lo + i) & 0xFFFFFF:X}): model code {v}, implementation code {pf(lo + i)}"
                                break
            ctx.obligation(f"correspondence:{name}", ok, "correspondence", detail)
            ctx.evaluations += len(impl) * (256 if loc else 1)
    else:
        for name in suites:
            ctx.obligation(f"correspondence:{name}", False, "correspondence", "model not built")

    # ---------------------------------------------------------------- oracle on the implementation (O)
    oracle(ctx, H, A, S, thorough)


def oracle(ctx: Ctx, H, A, S, thorough: bool) -> None:
    rng = ctx.rng
    # temperatures: every word
    for w in range(65536):
        hx = f"{w:04X}"
        r = call(H.hex_to_temp, hx)
        nontriv = r[0] == "ok" and isinstance(r[1], float)
        ctx.case(("temp", hx), nontriv, "temp-word")
        if nontriv:
            r2 = call(H.hex_from_temp, r[1])
            if r2 != ("ok", hx):
                ctx.violation("temp-decode-encode",
                              "a temperature word that decodes to a number does not re-encode to itself",
                              {"word": hx, "decoded": r[1], "re-encoded": repr(r2[1])})
        elif r[0] == "ok":
            r2 = call(H.hex_from_temp, r[1])
            back = call(H.hex_to_temp, r2[1]) if r2[0] == "ok" else r2
            if back != ("ok", r[1]):
                ctx.violation("temp-sentinel", "a sentinel does not survive the round trip",
                              {"word": hx, "decoded": repr(r[1]), "back": repr(back[1])})
    # every grid value k/100, in and out of range: never a different valid value
    for k in range(-40192, 70400):
        v = k / 100
        r = call(H.hex_from_temp, v)
        ctx.case(("temp-enc", k), r[0] == "ok", "temp-grid")
        if r[0] != "ok":
            if -27315 <= k < 32768:
                ctx.violation("temp-encode-refused", "an in-range grid temperature is refused", {"k": k, "error": repr(r[1])})
            continue
        back = call(H.hex_to_temp, r[1]) if len(r[1]) == 4 else ("exc", ValueError("not 4 hex chars"))
        if back[0] == "ok" and back[1] == v and isinstance(back[1], float):
            continue
        if back[0] == "ok" and k in (0x31FF, 0x7EFF, 0x7FFF) and not isinstance(back[1], float):
            continue  # the wire format itself reserves these three words
        if back[0] == "exc" and len(r[1]) == 4:
            continue  # refused by the decoder: not "a different valid value"
        ctx.violation("temp-silent-wrap" if not -32768 <= k < 32768 else "temp-encode-decode",
                      "a temperature is encoded to a word that decodes to a different value",
                      {"value": v, "encoded": r[1], "decodes_to": repr(back[1])})
    # percent
    for hr in (True, False):
        for b in range(256):
            hx = f"{b:02X}"
            r = call(H.hex_to_percent, hx, hr)
            nt = r[0] == "ok" and r[1] is not None
            ctx.case(("pct", hr, hx), nt, "percent-byte")
            if nt and call(H.hex_from_percent, r[1], hr) != ("ok", hx):
                ctx.violation("percent-decode-encode", "a percent byte that decodes to a number does not re-encode to itself",
                              {"byte": hx, "high_res": hr, "decoded": r[1], "re-encoded": call(H.hex_from_percent, r[1], hr)[1]})
        if H.hex_to_percent(H.hex_from_percent(None, hr), hr) is not None:
            ctx.violation("percent-sentinel", "None does not survive", {"high_res": hr})
        for bad in (-0.01, 1.005, 1.5, 2.0, -1.0, 327.68):
            r = call(H.hex_from_percent, bad, hr)
            ctx.case(("pct-oob", hr, bad), False, "percent-out-of-range")
            if r[0] == "ok":
                ctx.violation("percent-silent-wrap", "out-of-range percentage encoded", {"value": bad, "encoded": r[1]})
    # counters / doubles (factor 1 is what the library uses)
    for w in range(65536):
        hx = f"{w:04X}"
        v = H.hex_to_double(hx)
        ctx.case(("dbl", hx), v is not None, "double-word")
        if v is not None and call(H.hex_from_double, v) != ("ok", hx):
            ctx.violation("double-decode-encode", "counter word does not re-encode to itself", {"word": hx, "decoded": v})
    # bool / flags
    for v in (None, False, True):
        ctx.case(("bool", v), v is not None, "bool")
        if call(H.hex_to_bool, H.hex_from_bool(v)) != ("ok", v):
            ctx.violation("bool-roundtrip", "boolean does not round trip", {"value": v})
    for lsb in (True, False):
        for b in range(256):
            hx = f"{b:02X}"
            ctx.case(("flag", lsb, hx), True, "flag-byte")
            fl = H.hex_to_flag8(hx, lsb)
            if call(H.hex_from_flag8, fl, lsb) != ("ok", hx) or len(fl) != 8 or any(x not in (0, 1) for x in fl):
                ctx.violation("flag8-roundtrip", "flag byte does not round trip", {"byte": hx, "lsb": lsb, "flags": fl})
    # packed timestamps and date-times
    n = 40000 if thorough else 6000
    base = dt(2001, 1, 1)
    extra = [dt(2024, 2, 29, 23, 59, 59), dt(2001, 1, 1), dt(2099, 12, 31, 23, 59, 59), dt(2068, 12, 31, 23, 59), dt(2069, 1, 1)]
    for i in range(n):
        t = extra[i] if i < len(extra) else base + td(seconds=rng.randrange(99 * 365 * 86400))
        txt = t.strftime("%y-%m-%dT%H:%M:%S")
        ctx.case(("dts", txt), True, "dts")
        for arg in (t, txt):
            r = call(H.hex_from_dts, arg)
            back = call(H.hex_to_dts, r[1]) if r[0] == "ok" else r
            if back != ("ok", txt):
                ctx.violation("dts-roundtrip", "packed timestamp does not round trip", {"timestamp": txt, "hex": repr(r[1]), "back": repr(back[1])})
                break
    if call(H.hex_to_dts, H.hex_from_dts(None)) != ("ok", None):
        ctx.violation("dts-sentinel", "None does not survive", {})
    for i in range(n):
        t = extra[i] if i < len(extra) else dt(rng.choice([1999, 2024, rng.randrange(1, 10000)]), 1, 1) + td(seconds=rng.randrange(365 * 86400))
        dst = rng.random() < 0.5
        ctx.case(("dtm", t.isoformat(), dst), True, "dtm")
        r = call(H.hex_from_dtm, t, dst, True)
        back = call(H.hex_to_dtm, r[1]) if r[0] == "ok" else r
        r6 = call(H.hex_from_dtm, t.isoformat(), dst, False)
        back6 = call(H.hex_to_dtm, r6[1]) if r6[0] == "ok" else r6
        if back != ("ok", t.isoformat(timespec="seconds")) or back6 != ("ok", t.replace(second=0).isoformat(timespec="seconds")):
            ctx.violation("dtm-roundtrip", "date-time does not round trip", {"datetime": t.isoformat(), "dst": dst, "hex": repr(r[1]), "back": repr(back[1]), "back_12": repr(back6[1])})
    for incl in (True, False):
        if call(H.hex_to_dtm, H.hex_from_dtm(None, incl_seconds=incl)) != ("ok", None):
            ctx.violation("dtm-sentinel", "None does not survive", {"incl_seconds": incl})
    # device ids
    if thorough:
        hs = range(2**24)
    else:
        hs = [0, 1, 0x03FFFF, 0x040000, 0xFBFFFF, 0xFC0000, 0xFFFFFE, 0xFFFFFF] + [rng.randrange(2**24) for _ in range(150000)]
    seen_ids = set()
    for h in hs:
        hx = f"{h:06X}"
        did = A.hex_id_to_dev_id(hx)
        if not thorough:
            ctx.case(("id", hx), True, "id-hex")
        try:
            back = (A.dev_id_to_hex_id(did), A.Address.convert_to_hex(A.Address.convert_from_hex(hx)))
        except Exception as err:  # noqa: BLE001
            back = (f"raises {type(err).__name__}", None)
        if back != (hx, hx):
            ctx.violation("id-hex-roundtrip", "6-hex id does not round trip", {"hex": hx, "id": did, "encoded_back": list(back)})
            break
        if thorough:
            seen_ids.add(did)
    if thorough:
        ctx.evaluations += 2**24
        ctx.dist["id-hex"] += 2**24
        if len(seen_ids) != 2**24:
            ctx.violation("id-injective", "two hex ids map to one device id", {"distinct": len(seen_ids)})
        ctx.extra["exhaustive_id_space"] = True
    for _ in range(200000 if thorough else 30000):
        t, nn = rng.randrange(64), rng.randrange(2**18)
        did = f"{t:02d}:{nn:06d}"
        if A.hex_id_to_dev_id(A.dev_id_to_hex_id(did)) != did:
            ctx.violation("id-dev-roundtrip", "device id does not round trip", {"id": did})
            break
    ctx.evaluations += 200000 if thorough else 30000
    # ids outside the representable range: refused, or at least not another valid id
    for did in ("01:262144", "01:999999", "64:000001", "99:000000", "63:262144"):
        ctx.case(("id-oob", did), False, "id-out-of-range")
        r = call(A.dev_id_to_hex_id, did)
        if r[0] == "ok":
            back = call(A.hex_id_to_dev_id, r[1]) if len(r[1]) == 6 else ("exc", None)
            if back[0] == "ok" and back[1] != did:
                ctx.violation("id-silent-wrap", "an id outside tt<=63, n<2^18 is encoded as the hex of a different id",
                              {"id": did, "hex": r[1], "decodes_to": back[1]})
    # text
    for _ in range(3000):
        nn = rng.randrange(1, 20)
        s = "".join(chr(rng.randrange(33, 127)) for _ in range(nn))
        if rng.random() < 0.5 and nn > 2:
            s = s[: nn // 2] + " " + s[nn // 2 + 1:]
        ctx.case(("str", s), True, "text")
        if call(H.hex_to_str, H.hex_from_str(s)) != ("ok", s):
            ctx.violation("str-roundtrip", "text does not round trip", {"text": s})
    # schedule setpoints 5.00 .. 35.00 (and the full 16-bit grid through the correspondence)
    for k in range(500, 3501):
        sp = k / 100
        ctx.case(("sched-setpoint", k), True, "schedule-setpoint")
        raw = S._struct_pack({"zone_idx": "00"}, {"day_of_week": 0}, {"time_of_day": "00:00", "heat_setpoint": sp})
        back = real_sched_decode(S, raw)
        if back != sp:
            ctx.violation("schedule-setpoint-roundtrip", "a schedule setpoint on the 0.01 grid, packed and decoded by the schedule codec, comes back as a different value",
                          {"setpoint": sp, "decoded": back})


def real_sched_decode(S, raw: bytes, whole: bool = False):
    """The setpoint (whole=True: the switchpoint) the library's own schedule decoder reports for ONE packed record."""
    import zlib  # noqa: PLC0415

    blob = zlib.compress(raw).hex().upper()
    try:
        full = S.fragz_to_full_sched([blob[i:i + 82] for i in range(0, len(blob), 82)])
        swp = full["schedule"][0]["switchpoints"][0]
        return swp if whole else swp["heat_setpoint"]
    except Exception:  # noqa: BLE001
        return None


def replay(case: dict) -> int:
    import ramses_tx.address as A  # noqa: PLC0415
    import ramses_tx.helpers as H  # noqa: PLC0415

    print("replaying", case.get("signature"), case.get("case"))
    c = case.get("case", {})
    if "word" in c:
        v = H.hex_to_temp(c["word"])
        print("hex_to_temp ->", v, "; hex_from_temp ->", call(H.hex_from_temp, v)[1])
    if "byte" in c and "high_res" in c:
        v = H.hex_to_percent(c["byte"], c["high_res"])
        print("hex_to_percent ->", v, "; hex_from_percent ->", call(H.hex_from_percent, v, c["high_res"])[1])
    if "id" in c:
        print("dev_id_to_hex_id ->", call(A.dev_id_to_hex_id, c["id"])[1])
    return 0
