(* C03 -- Command builders emit valid frames of the advertised verb/code that decode back.  Statements only.
   PAYLOAD_REGEXES and API_MAP are regenerated from the source on every run; `payload_ok` is re.match by the verified matcher. *)
From Coq Require Import ZArith String Ascii List Bool.
From RV Require Import Py PyStr Regex GenRegex GenTables M_Codecs M_Command P_Command M_ModeCmd P_ModeCmd M_ParamCmd P_ParamCmd.
Import ListNotations.
Open Scope Z_scope.

(* the six zone getters that have a payload regex: for every zone index 0..15 the payload is accepted for RQ|code, the
   constructor is registered under RQ|code, and the index reads back; every other index 0..255 is refused, except ... *)
Theorem C03_zone_getters_valid : forall g i p, In g valid_getters -> 0 <= i < 16 -> getter_payload g i = Some p ->
  payload_ok V_RQ (getter_code g) p = true /\ registered V_RQ (getter_code g) (getter_name g) = true /\ int16 (slice 0 2 p) = Some i.
Proof. exact zone_getters. Qed.
Theorem C03_zone_getters_refuse : forall g i, In g valid_getters -> 0 <= i < 256 ->
  (getter_payload g i = None <-> (15 < i /\ i <> 0xF9 /\ i <> 0xFA /\ i <> 0xFC)).
Proof. exact zone_getters_refuse. Qed.
(* ... the domain ids F9/FA/FC, which _check_idx lets through for the TPI/DHW constructors: the zone getters' regex rejects them (known finding) *)
Theorem C03_getter_domain_id_refuted : exists p, getter_payload GZoneConfig 0xFC = Some p /\ payload_ok V_RQ (getter_code GZoneConfig) p = false.
Proof. exact getter_domain_id_refuted. Qed.
(* get_mix_valve_params builds RQ|1030, for which the schema has no regex: rejected for every index (known finding) *)
Theorem C03_mix_valve_refuted : forall i p, getter_payload GMixValve i = Some p -> payload_ok V_RQ (getter_code GMixValve) p = false.
Proof. exact mix_valve_refuted. Qed.

(* set_zone_setpoint: for every zone index 0..15 and EVERY setpoint the encoder accepts (k/100, any integer k; the word is
   k mod 2^16 by C04_temp_encode_decode) the payload is accepted for W|2309 and the word reads back *)
Theorem C03_set_zone_setpoint_valid : forall idx k, 0 <= idx < 16 -> payload_ok V_W 0x2309 (setpoint_payload idx k) = true.
Proof. intros idx k H. exact (proj1 (set_zone_setpoint idx k H)). Qed.
Theorem C03_set_zone_setpoint_decodes_back : forall idx k, 0 <= idx < 16 -> int16 (slice 2 6 (setpoint_payload idx k)) = Some (k mod 65536).
Proof. intros idx k H. exact (proj2 (set_zone_setpoint idx k H)). Qed.

(* get_system_log_entry: whatever it builds is one of the 64 entries and is accepted for RQ|0418 *)
Theorem C03_log_entry_valid : forall i p, log_entry_payload i = Some p -> 0 <= i < 64 /\ payload_ok V_RQ 0x0418 p = true.
Proof. exact log_entry_valid. Qed.
(* regression witness: index 64, built before fix cc4b630, is rejected *)
Theorem C03_log_entry_refuted : payload_ok V_RQ 0x0418 (hexN 6 64) = false.
Proof. exact log_entry_refuted. Qed.

(* get_opentherm_data: all 256 ids, with the parity flag, are accepted for RQ|3220 and the id reads back *)
Theorem C03_opentherm_valid : forall i, 0 <= i < 256 ->
  payload_ok V_RQ 0x3220 (opentherm_payload i) = true /\ int16 (slice 4 6 (opentherm_payload i)) = Some i.
Proof. exact opentherm_valid. Qed.

(* get_schedule_fragment: every (zone, fragment, total) it does not refuse is accepted for RQ|0404 *)
Theorem C03_fragment_request_valid : forall idx fn tot p, 0 <= idx < 16 -> 0 <= fn < 32 -> 0 <= tot < 32 ->
  fragment_request idx fn tot = Some p -> payload_ok V_RQ 0x0404 p = true.
Proof. exact fragment_request_valid. Qed.

Theorem C03_registered :
  registered V_W 0x2309 "set_zone_setpoint" = true /\ registered V_RQ 0x0418 "get_system_log_entry" = true /\
  registered V_RQ 0x3220 "get_opentherm_data" = true /\ registered V_RQ 0x0404 "get_schedule_fragment" = true.
Proof. exact registered_all. Qed.

(* ---- the mode / time / configuration commands: modes x setpoints x until x duration (M_ModeCmd: the constructors with
   _normalise_mode / _normalise_until AND the decoders parser_2349 / parser_1f41 / parser_2e04 / parser_313f / parser_000a) ---- *)

(* set_zone_mode: for every zone 0..15, every mode argument, every setpoint word the encoder can produce (None = 7FFF), every valid
   end time and every duration below FFFFFF minutes: whatever the constructor does not refuse is accepted by the W|2349 regex, and the
   decoder returns exactly the normalised mode, the setpoint the word stands for (or rejects the frame exactly when the C04 decoder
   rejects that word: below -273.15), the duration, and the end time to the minute *)
Theorem C03_set_zone_mode_valid : forall idx mode spw until dur p,
  0 <= idx < 16 -> (forall w, spw = Some w -> 0 <= w < 65536) -> (forall f, until = Some f -> valid_dt f = true) ->
  (forall d, dur = Some d -> 0 <= d < 0xFFFFFF) ->
  set_zone_mode idx mode spw until dur = Some p ->
  exists m, normalise_mode mode (negb (is_some spw)) until dur = Some m /\ 0 <= m <= 4 /\
    payload_ok V_W 0x2349 p = true /\ parser_2349 p = zm_expect m (word_of spw) until dur.
Proof. exact set_zone_mode_valid. Qed.

(* set_dhw_mode: the same for DHW 00/01 -- EXCEPT the countdown mode and a temporary override without an end time ... *)
Theorem C03_set_dhw_mode_valid : forall dhw_idx mode active until dur p,
  0 <= dhw_idx <= 1 -> (forall f, until = Some f -> valid_dt f = true) ->
  set_dhw_mode dhw_idx mode active until dur = Some p ->
  exists m, normalise_mode mode (negb (is_some active)) until dur = Some m /\ 0 <= m <= 4 /\
    (m <> M_COUNTDOWN -> ~ (m = M_TEMPORARY /\ until = None) ->
     payload_ok V_W 0x1F41 p = true /\ parser_1f41 p = dm_expect m active until).
Proof. exact set_dhw_mode_valid. Qed.
(* ... which are built and then rejected by the library's own decoder, as is a DHW index other than 00/01 (known findings) *)
Theorem C03_set_dhw_mode_countdown_refuted :
  exists p, set_dhw_mode 0 (Some M_COUNTDOWN) (Some true) None (Some 60) = Some p /\ payload_ok V_W 0x1F41 p = false.
Proof. exact set_dhw_mode_countdown_refuted. Qed.
Theorem C03_set_dhw_mode_temporary_without_until_refuted :
  exists p, set_dhw_mode 0 (Some M_TEMPORARY) (Some true) None None = Some p /\ payload_ok V_W 0x1F41 p = true /\ parser_1f41 p = Raise AssertionError.
Proof. exact set_dhw_mode_temporary_without_until_refuted. Qed.
Theorem C03_set_dhw_mode_idx_refuted :
  exists p, set_dhw_mode 2 (Some M_PERMANENT) (Some true) None None = Some p /\ payload_ok V_W 0x1F41 p = false.
Proof. exact set_dhw_mode_idx_refuted. Qed.

(* set_system_mode: every mode 00..07 with or without an end time (refused for auto / heat_off / auto_with_reset) *)
Theorem C03_set_system_mode_valid : forall mode until p,
  (forall f, until = Some f -> valid_dt f = true) -> set_system_mode mode until = Some p ->
  let m := match mode with Some m => m | None => 0 end in
  0 <= m <= 7 /\ payload_ok V_W 0x2E04 p = true /\ parser_2e04 p = sm_expect m until.
Proof. exact set_system_mode_valid. Qed.

(* set_system_time: every valid datetime (years 1..9999, leap days) and the DST flag, to the second *)
Theorem C03_set_system_time_valid : forall d dst, valid_dt d = true ->
  payload_ok V_W 0x313F (set_system_time d dst) = true /\ parser_313f (set_system_time d dst) = Ok (Some d, dst).
Proof. exact set_system_time_valid. Qed.

(* set_zone_config: every zone 0..15, min 5..21, max 21..35 on the 0.01 grid, the three flags *)
Theorem C03_set_zone_config_valid : forall idx kmin kmax lo ow mr p, 0 <= idx < 16 -> set_zone_config idx kmin kmax lo ow mr = Some p ->
  500 <= kmin <= 2100 /\ 2100 <= kmax <= 3500 /\ payload_ok V_W 0x000A p = true /\
  parser_000a p = (do a <- hex_to_temp kmin; do c <- hex_to_temp kmax; Ok (mk_zconf a c lo ow mr)).
Proof. exact set_zone_config_valid. Qed.

Theorem C03_mode_cmds_registered :
  registered V_W 0x2349 "set_zone_mode" = true /\ registered V_W 0x1F41 "set_dhw_mode" = true /\ registered V_W 0x2E04 "set_system_mode" = true /\
  registered V_W 0x313F "set_system_time" = true /\ registered V_W 0x000A "set_zone_config" = true.
Proof. vm_compute. repeat split. Qed.

(* ---- parameter and sensor commands (M_ParamCmd) ---- *)
(* set_dhw_params: DHW 00/01, setpoint 30..85, overrun 0..10, differential 1..10 on the 0.01 grid: accepted for W|10A0 and decoded back *)
Theorem C03_set_dhw_params_valid : forall dhw_idx ksp ov kd p, 0 <= dhw_idx <= 1 -> set_dhw_params dhw_idx ksp ov kd = Some p ->
  3000 <= ksp <= 8500 /\ 0 <= ov <= 10 /\ 100 <= kd <= 1000 /\ payload_ok V_W 0x10A0 p = true /\
  parser_10a0 p = (do s <- hex_to_temp ksp; do d <- hex_to_temp kd; Ok (mk_dhwp (if is_255 s then TNone else s) ov d)).
Proof. exact set_dhw_params_valid. Qed.
(* set_mix_valve_params: every zone 0..15 and every parameter combination it does not refuse: accepted for W|1030, the five parameters read back in order *)
Theorem C03_set_mix_valve_params_valid : forall idx maxf minf vrt prt bcc p, 0 <= idx < 16 -> 0 <= bcc < 256 ->
  set_mix_valve_params idx maxf minf vrt prt bcc = Some p ->
  0 <= maxf <= 99 /\ 0 <= minf <= 50 /\ 0 <= vrt <= 240 /\ 0 <= prt <= 99 /\ payload_ok V_W 0x1030 p = true /\
  parser_1030 p = Ok [(0xC8, maxf); (0xC9, minf); (0xCA, vrt); (0xCB, prt); (0xCC, bcc)].
Proof. exact set_mix_valve_params_valid. Qed.
(* put_sensor_temp (I|30C9) / put_dhw_temp (I|1260): EVERY word the temperature encoder can produce (None = 7FFF) is accepted and decodes to what that word stands for
   -- or is rejected exactly when the C04 decoder rejects the word (below -273.15: known finding) *)
Theorem C03_put_temp_valid : forall w, (forall x, w = Some x -> 0 <= x < 65536) ->
  payload_ok V_I 0x30C9 (put_temp_payload w) = true /\ payload_ok V_I 0x1260 (put_temp_payload w) = true /\
  parser_temp_tail (put_temp_payload w) = hex_to_temp (word_of_opt w).
Proof. exact put_temp_valid. Qed.

(* set_tpi_params: built with arguments in the decoder's domain (domain 00 / FC, 1-12 cycles an hour, on 1-30 min, off 0-15 min, band width none or
   1.50-3.00) => accepted by the regenerated W|1100 regex and decoded by the modelled parser_1100 to exactly what was asked (minutes in quarters) *)
Theorem C03_set_tpi_params_valid : forall dom cyc on off pbw p,
  dom = 0 \/ dom = 0xFC -> 1 <= cyc <= 12 -> 1 <= on <= 30 -> 0 <= off <= 15 -> (pbw = None \/ exists k, pbw = Some k /\ 150 <= k <= 300) ->
  set_tpi_params dom cyc on off pbw = Some p ->
  payload_ok V_W 0x1100 p = true /\
  exists w, hex_to_temp (word_of_opt pbw) = Ok w /\
    parser_1100 p = Ok (mk_tpi (if dom =? 0xFC then Some (lit "FC") else None) cyc (on * 4) (off * 4) (lit "00") w (lit "01")).
Proof. exact set_tpi_params_valid. Qed.
(* ... but the constructor checks none of its numeric arguments (its asserts are commented out): 13 cycles an hour is built and the decoder
   rejects it -- a refuted class (KNOWN_FINDINGS.json) *)
Theorem C03_set_tpi_params_unchecked_refuted :
  exists p, set_tpi_params 0 13 5 5 None = Some p /\ payload_ok V_W 0x1100 p = true /\ parser_1100 p = Raise AssertionError.
Proof. exact set_tpi_params_unchecked_refuted. Qed.

(* put_weather_temp -> I|0002 (a faked outdoor sensor): accepted by the regenerated regex and decoded by the modelled parser_0002 to the
   temperature of the word (C04's codec), with the trailing 01 *)
Theorem C03_put_weather_temp_valid : forall w, (forall x, w = Some x -> 0 <= x < 65536) ->
  payload_ok V_I 0x0002 (put_weather_payload w) = true /\
  parser_0002 (put_weather_payload w) = (do t <- hex_to_temp (word_of_opt w); Ok (t, lit "01")).
Proof. exact put_weather_temp_valid. Qed.

(* put_co2_level -> I|1298 and put_indoor_humidity -> I|12A0 (the HVAC sensors a gateway can impersonate): what they build is accepted by the
   regenerated regex of their verb|code, and the modelled parser_1298 gives back the level for EVERY whole number of ppm below 7FFF, "no sensor" for
   None -- and, for what four digits can still spell, "no sensor" for 32767 and a sensor FAULT from 32768 up (the constructor checks no range) *)
Theorem C03_put_co2_level_valid : forall n, (forall x, n = Some x -> 0 <= x < 65536) ->
  payload_ok V_I 0x1298 (put_co2_payload n) = true /\
  parser_1298 (put_co2_payload n) =
    Ok (match n with None => Co2None | Some x => if x =? 0x7FFF then Co2None else if 0x8000 <=? x then Co2Fault else Co2Level x end).
Proof. exact put_co2_level_valid. Qed.
Theorem C03_put_co2_level_roundtrip : forall x, 0 <= x < 0x7FFF -> parser_1298 (put_co2_payload (Some x)) = Ok (Co2Level x).
Proof. exact put_co2_level_roundtrip. Qed.
(* whole percents 0..100 (and None) through put_indoor_humidity and parser_12a0, by a sweep *)
Theorem C03_put_indoor_humidity_valid :
  forallb (fun b => payload_ok V_I 0x12A0 (put_humidity_payload (Some b)) &&
                    match parser_12a0_short (put_humidity_payload (Some b)) with Ok (HumPct c) => c =? b | _ => false end) (zrange 101 0) = true /\
  payload_ok V_I 0x12A0 (put_humidity_payload None) = true /\ parser_12a0_short (put_humidity_payload None) = Ok HumNone.
Proof. exact put_indoor_humidity_valid. Qed.

(* ---- the getters with a fixed payload (M_Command.fgetter): get_schedule_version / get_system_language / get_system_time / get_system_mode and the
   DHW getters for a DHW index 00/01: built, accepted by the regenerated RQ regex of their code, registered under RQ|code ---- *)
Theorem C03_fixed_getters_valid : forall g i, 0 <= i <= 1 -> exists p, fgetter_payload g i = Some p /\
  payload_ok V_RQ (fg_code g) p = true /\ registered V_RQ (fg_code g) (fg_name g) = true.
Proof. exact fixed_getters_valid. Qed.
(* every index 0..255: what is built is accepted exactly when the getter takes no index or the index is 00/01; refusal is exactly _check_idx's *)
Theorem C03_fixed_getters_idx : forall g i, 0 <= i < 256 ->
  match fgetter_payload g i with
  | Some p => payload_ok V_RQ (fg_code g) p = true <-> (fg_is_dhw g = false \/ i <= 1)
  | None => fg_is_dhw g = true /\ 15 < i /\ i <> 0xF9 /\ i <> 0xFA /\ i <> 0xFC end.
Proof. exact fixed_getters_idx. Qed.
(* ... so get_dhw_mode(dhw_idx=2) is built and rejected: the same root as C03_set_dhw_mode_idx_refuted (one recorded finding) *)
Theorem C03_dhw_getter_idx_refuted : exists p, fgetter_payload FDhwMode 2 = Some p /\ payload_ok V_RQ (fg_code FDhwMode) p = false.
Proof. exact dhw_getter_idx_refuted. Qed.
