(* P_QosSlot: one command in flight.  The FSM has one slot (_cmd / _fut); the command holding it keeps it until its caller has been answered
   (result, exception or cancellation) -- no callback of the machine, under any schedule, tie policy or transport behaviour, assertion crashes
   included, hands the slot to another command while its future is pending -- and the command being transmitted / awaited (_cmd) is never
   anything but the slot's holder. *)
From Coq Require Import ZArith List Bool Arith Lia.
From RV Require Import GenConsts M_Qos P_Qos.
Import ListNotations.
Open Scope Z_scope.

Definition slotc (c : ctx) := (cur c, curfut c).
(* the slot is held by f0, and the command being worked on is f0 or nothing *)
Definition Slot (f0 : option cid) (w : world) : Prop := curfut (cx w) = f0 /\ (cur (cx w) = None \/ cur (cx w) = f0).
Definition CurSub (w : world) : Prop := cur (cx w) = None \/ cur (cx w) = curfut (cx w).

Lemma Slot_cx f0 w w' : cx w' = cx w -> Slot f0 w -> Slot f0 w'.
Proof. unfold Slot. intros ->. auto. Qed.
Lemma Slot_slotc f0 w w' : slotc (cx w') = slotc (cx w) -> Slot f0 w -> Slot f0 w'.
Proof. unfold Slot, slotc. intros [= -> ->]. auto. Qed.
Lemma Slot_CurSub f0 w : Slot f0 w -> CurSub w.
Proof. unfold Slot, CurSub. intros [<- H]. exact H. Qed.
Lemma CurSub_Slot w : CurSub w -> Slot (curfut (cx w)) w.
Proof. unfold Slot, CurSub. auto. Qed.
Lemma Rsat_weaken (P Q : world -> Prop) r : (forall w, P w -> Q w) -> Rsat P r -> Rsat Q r.
Proof. destruct r; cbn; auto. Qed.

Lemma settle_slotc w h : Rsat (fun w' => slotc (cx w') = slotc (cx w)) (settle w h).
Proof.
  unfold settle.
  set (w1 := match expiry (cx w) with Some t => set_expiry (cancel_exp w t) None | None => w end).
  assert (E1 : slotc (cx w1) = slotc (cx w)).
  { subst w1. destruct (expiry (cx w)) as [t|]; [|reflexivity].
    unfold set_expiry, slotc. cbn. rewrite cx_cancel_exp. reflexivity. }
  clearbody w1.
  set (Q := fun w' : world => slotc (cx w') = slotc (cx w)).
  assert (Q1 : Q w1) by exact E1.
  assert (QA : forall b n, Rsat Q (assert b n w1)) by (intros; apply Rsat_assert, Q1).
  assert (QR : forall f x, Q (resolve w1 f x)) by (intros; unfold Q; rewrite cx_resolve; exact E1).
  destruct (curfut (cx w1)) as [f|].
  2:{ apply Rsat_bind; [apply QA|]. intros w' H. apply Rsat_assert, H. }
  destruct (fut_of w1 f) eqn:Ef; destruct h;
    try (apply QA);
    try (apply Rsat_bind; [apply QA|]; intros w' H; apply Rsat_assert, H);
    try (unfold assert; destruct (negb _); cbn; [|exact Q1]; destruct (sending_state _); cbn; [apply QR|exact Q1]).
Qed.

Lemma switch_slot f0 w ns h : Slot f0 w -> Rsat (Slot f0) (switch w ns h).
Proof.
  intros I. pose proof I as [I1 I2]. unfold switch.
  assert (Fin : forall w2 : world, Slot f0 w2 ->
            Rsat (Slot f0) (bind (assert (is_sending_ok w2) 13 w2) (fun w3 => Ok (call_soon w3 (CbEffect (is_timed_out h)))))).
  { intros w2 I2'. unfold assert. destruct (is_sending_ok w2); cbn; [|exact I2'].
    eapply Slot_cx; [apply cx_call_soon|exact I2']. }
  destruct (is_timed_out h) eqn:Th.
  - cbn [bind]. apply Fin. unfold Slot. cbn. split; assumption.
  - destruct ns; cbn [bind].
    + apply Fin. unfold Slot. cbn. split; [assumption|left; reflexivity].
    + apply Fin. unfold Slot. cbn. split; [assumption|left; reflexivity].
    + unfold assert at 1. destruct (is_some (cur (cx w))) eqn:E; cbn [bind Rsat]; [|exact I].
      apply Fin. unfold Slot. cbn. split; assumption.
    + apply Fin. unfold Slot. cbn. split; assumption.
Qed.

Lemma set_state_slot f0 w ns h : Slot f0 w -> Rsat (Slot f0) (set_state w ns h).
Proof.
  intros I. unfold set_state.
  pose proof (settle_slotc w h) as S.
  destruct (settle w h) as [w1|n w1]; cbn [bind Rsat] in *.
  - apply switch_slot. eapply Slot_slotc; [exact S|exact I].
  - eapply Slot_slotc; [exact S|exact I].
Qed.

Section Env.
Variable cmds : cid -> cmdinfo.
Variable plan : nat -> wplan.

Lemma send_cmd_slot f0 w c r : Slot f0 w -> Rsat (Slot f0) (send_cmd_ w c r).
Proof.
  intros I. unfold send_cmd_. destruct (state (cx w)).
  - apply set_state_slot, I.
  - apply Rsat_bind; [apply Rsat_assert, I|]. intros w1 I1.
    apply Rsat_bind.
    + apply set_state_slot. eapply Slot_slotc; [|exact I1]. reflexivity.
    + intros w2 I2. cbn. eapply Slot_cx; [apply cx_call_soon|exact I2].
  - apply Rsat_bind; [apply Rsat_assert, I|]. intros w1 I1. cbn. eapply Slot_cx; [apply cx_call_soon|exact I1].
  - apply set_state_slot, I.
Qed.

Lemma dequeue_slotc q : forall w, slotc (cx (fst (dequeue w q))) = slotc (cx w) /\ futs (fst (dequeue w q)) = futs w.
Proof.
  induction q as [|[[p s] c] q IH]; intros w; cbn [dequeue]; [split; reflexivity|].
  destruct (fut_done (fut_of w c)); [apply IH|split; reflexivity].
Qed.

(* the buffer is only consulted when the slot's holder has been answered: while its future is pending the slot is kept ... *)
Lemma check_buffer_keeps f w : Slot (Some f) w -> fut_done (fut_of w f) = false -> Rsat (Slot (Some f)) (check_buffer cmds w).
Proof.
  intros I P. unfold check_buffer. unfold assert. destruct (is_sending_ok w); cbn [bind Rsat]; [|exact I].
  destruct I as [I1 I2]. rewrite I1, P. cbn. split; assumption.
Qed.
(* ... and whatever it does, the command worked on afterwards is the new holder or nothing *)
Lemma check_buffer_cursub w : CurSub w -> Rsat CurSub (check_buffer cmds w).
Proof.
  intros I. unfold check_buffer. apply Rsat_bind; [apply Rsat_assert, I|]. intros w1 I1.
  destruct (match curfut (cx w1) with Some f => negb (fut_done (fut_of w1 f)) | None => false end); [exact I1|].
  destruct (dequeue w1 (que (cx w1))) as [w2 oc].
  destruct oc as [k|].
  - eapply Rsat_weaken; [apply Slot_CurSub|]. apply send_cmd_slot with (f0 := Some k). unfold Slot, set_cur. cbn. auto.
  - cbn. unfold CurSub, set_cur. cbn. auto.
Qed.

Lemma new_exp_slot f0 w : Slot f0 w -> Slot f0 (new_exp w).
Proof. intros I. unfold new_exp. eapply Slot_slotc; [|exact I]. reflexivity. Qed.

Lemma effect_state_slot f0 w b : Slot f0 w -> Rsat (Slot f0) (effect_state cmds w b).
Proof.
  intros I. unfold effect_state. apply Rsat_bind; [apply Rsat_assert, I|]. intros w1 I1.
  apply Rsat_bind.
  - destruct b; [|exact I1]. destruct (cur (cx w1)); [apply send_cmd_slot, I1|exact I1].
  - intros w2 I2. destruct (state (cx w2)).
    + exact I2.
    + cbn. eapply Slot_cx; [apply cx_call_soon|exact I2].
    + cbn. apply new_exp_slot, I2.
    + destruct (cur (cx w2)) as [k|]; [|exact I2].
      destruct (negb (wfr (cmds k))); [|cbn; apply new_exp_slot, I2].
      destruct (echo (cx w2)); apply set_state_slot; auto.
Qed.

Lemma exp_start_slot f0 w t : Slot f0 w -> Rsat (Slot f0) (exp_start w t).
Proof.
  intros I. unfold exp_start. destruct (aget EDone t (exps w)); try exact I.
  apply Rsat_bind; [apply Rsat_assert, I|]. intros w1 I1.
  apply Rsat_bind; [apply Rsat_assert, I1|]. intros w2 I2.
  apply Rsat_bind; [apply Rsat_assert, I2|]. intros w3 I3.
  cbn. eapply Slot_slotc; [|exact I3]. reflexivity.
Qed.

Lemma exp_wake_slot f0 w t : Slot f0 w -> Rsat (Slot f0) (exp_wake w t).
Proof.
  intros I. unfold exp_wake. destruct (aget EDone t (exps w)) as [| |old| | |]; try exact I.
  set (w1 := set_mult (set_exp w t ERunning) (Nat.min MULT_CAP (S old))).
  assert (I1 : Slot f0 w1) by (eapply Slot_slotc; [|exact I]; reflexivity).
  apply Rsat_bind; [apply Rsat_assert, I1|]. intros w2 I2.
  apply Rsat_bind.
  - destruct (Nat.ltb (txc (cx w2)) (txl (cx w2))); apply set_state_slot, I2.
  - intros w3 I3. apply Rsat_bind; [apply Rsat_assert, I3|]. intros w4 I4. cbn.
    eapply Slot_cx; [apply cx_set_exp|exact I4].
Qed.

Lemma pkt_rcvd_slot f0 w p : Slot f0 w -> Rsat (Slot f0) (pkt_rcvd cmds w p).
Proof.
  intros I. unfold pkt_rcvd. destruct (state (cx w)).
  - apply Rsat_assert, I.
  - apply Rsat_assert, I.
  - destruct (sent (cx w)) as [k|]; [|exact I].
    destruct (match rx_hdr (cmds k) with Some h => Nat.eqb (p_hdr p) h && p_dst_ok p | None => false end).
    + apply set_state_slot, I.
    + destruct (negb (Nat.eqb (p_hdr p) (tx_hdr (cmds k)))); [exact I|].
      destruct (rx_hdr (cmds k)); apply set_state_slot; (eapply Slot_slotc; [|exact I]; reflexivity).
  - destruct (sent (cx w)) as [k|]; [|exact I]. destruct (echo (cx w)) as [e|]; [|exact I].
    destruct (Nat.eqb (p_hdr p) (tx_hdr (cmds k)) && Nat.eqb (p_src p) (p_src e)); [exact I|].
    destruct (rx_hdr (cmds k)) as [h|]; [|exact I].
    destruct (null_ok (cmds k) p || Nat.eqb (p_hdr p) h); [apply set_state_slot, I|exact I].
Qed.

Lemma caller_start_slot f0 w c : Slot f0 w -> Rsat (Slot f0) (caller_start cmds w c).
Proof.
  intros I. unfold caller_start. destruct (state (cx w)) eqn:S; try exact I;
    (destruct (Nat.leb BUF_SIZE (length (que (cx w)))); [exact I|]; cbn [Rsat];
     eapply Slot_slotc; [|exact I]; cbn; rewrite ?S; reflexivity).
Qed.

Lemma caller_timer_slot f0 w c : Slot f0 w -> Rsat (Slot f0) (caller_timer w c).
Proof.
  intros I. unfold caller_timer. destruct (aget CNone c (callers w)); try exact I.
  destruct (fut_done (fut_of (set_caller w c CTimedOut) c)); exact I.
Qed.

Lemma caller_cancel_slot f0 w c : Slot f0 w -> Rsat (Slot f0) (caller_cancel w c).
Proof.
  intros I. unfold caller_cancel. destruct (aget CNone c (callers w)); try exact I.
  destruct (fut_done (fut_of (set_caller w c CCancelled) c)); exact I.
Qed.

Lemma caller_wake_slot f0 w c : Slot f0 w -> Rsat (Slot f0) (caller_wake w c).
Proof.
  intros I. unfold caller_wake. destruct (aget CNone c (callers w)); try exact I.
  assert (G : Rsat (Slot f0) (match cur (cx w) with
                         | Some k => if Nat.eqb k c then set_state w Idle HExpired else Ok w
                         | None => Ok w end)).
  { destruct (cur (cx w)) as [k|]; [|exact I]. destruct (Nat.eqb k c); [|exact I]. apply set_state_slot, I. }
  destruct (match cur (cx w) with Some k => if Nat.eqb k c then set_state w Idle HExpired else Ok w | None => Ok w end);
    cbn in *; exact G.
Qed.

Lemma conn_slot f0 w : Slot f0 w -> Rsat (Slot f0) (conn_made w) /\ Rsat (Slot f0) (conn_lost w).
Proof. intros I. unfold conn_made, conn_lost. split; destruct (state (cx w)); try exact I; apply set_state_slot, I. Qed.

Lemma do_write_slot f0 w n c : Slot f0 w -> Rsat (Slot f0) (do_write cmds plan w n c).
Proof.
  intros I. unfold do_write. destruct (w_fail (plan n)).
  { unfold fail_write. destruct (cur (cx w)) as [k|]; [|exact I]. destruct (Nat.eqb k c); [|exact I]. apply set_state_slot, I. }
  cbn. destruct (w_echo (plan n)); destruct (w_rply (plan n)); destruct (rx_hdr (cmds c)); exact I.
Qed.

(* every callback but the buffer check keeps the slot, whoever holds it *)
Lemma run_cb_slot f0 w c : c <> CbCheckBuf -> Slot f0 w -> Rsat (Slot f0) (run_cb cmds plan w c).
Proof.
  intros N I. destruct c as [b| |t|t|t|c|n c|n c|c|c|c|e]; cbn [run_cb].
  - apply effect_state_slot, I.
  - congruence.
  - apply exp_start_slot, I.
  - destruct (aget EDone t (exps w)); exact I.
  - apply exp_wake_slot, I.
  - unfold writer_start. destruct (w_lat (plan (nwrites w)) <=? 0); [apply do_write_slot, I|exact I].
  - exact I.
  - apply do_write_slot, I.
  - destruct (aget CNone c (callers w)); try exact I. apply caller_start_slot, I.
  - apply caller_timer_slot, I.
  - apply caller_wake_slot, I.
  - destruct e as [k|p| | |d|k]; [exact I|apply pkt_rcvd_slot, I|apply conn_slot, I|apply conn_slot, I|exact I|apply caller_cancel_slot, I].
Qed.

Lemma cb_dec (c : cb) : {c = CbCheckBuf} + {c <> CbCheckBuf}.
Proof. destruct c; try (right; discriminate). left. reflexivity. Qed.

Lemma run_cb_keeps f w c : Slot (Some f) w -> fut_done (fut_of w f) = false -> Rsat (Slot (Some f)) (run_cb cmds plan w c).
Proof.
  intros I P. destruct (cb_dec c) as [->|N]; [cbn [run_cb]; apply check_buffer_keeps; assumption|apply run_cb_slot; assumption].
Qed.
Lemma run_cb_cursub w c : CurSub w -> Rsat CurSub (run_cb cmds plan w c).
Proof.
  intros I. destruct (cb_dec c) as [->|N]; [cbn [run_cb]; apply check_buffer_cursub, I|].
  eapply Rsat_weaken; [apply Slot_CurSub|]. apply run_cb_slot; [exact N|apply CurSub_Slot, I].
Qed.

Lemma step_cursub lifo w w' : CurSub w -> step cmds plan lifo w = Some w' -> CurSub w'.
Proof.
  intros I. unfold step. destruct (batch w) as [|b].
  - intros H. unfold CurSub. rewrite (boundary_cx _ _ _ H). exact I.
  - destruct (ready w) as [|c r] eqn:Er.
    + intros H. unfold CurSub. rewrite (boundary_cx _ _ _ H). exact I.
    + pose proof (run_cb_cursub (upd_loop w (now w) r b (timers w) (seq w)) c I) as H.
      destruct (run_cb cmds plan _ c) as [w2|n w2]; intros [= <-]; exact H.
Qed.
Lemma run_cursub lifo fuel : forall w, CurSub w -> CurSub (fst (run cmds plan lifo fuel w)).
Proof.
  induction fuel as [|fuel IH]; intros w I; cbn [run]; [exact I|].
  destruct (step cmds plan lifo w) as [w'|] eqn:E; [|exact I].
  apply IH. eapply step_cursub; eassumption.
Qed.

Lemma step_keeps lifo w w' f : Slot (Some f) w -> fut_done (fut_of w f) = false -> step cmds plan lifo w = Some w' -> Slot (Some f) w'.
Proof.
  intros I P. unfold step. destruct (batch w) as [|b].
  - intros H. eapply Slot_cx; [eapply boundary_cx, H|exact I].
  - destruct (ready w) as [|c r] eqn:Er.
    + intros H. eapply Slot_cx; [eapply boundary_cx, H|exact I].
    + pose proof (run_cb_keeps f (upd_loop w (now w) r b (timers w) (seq w)) c I P) as H.
      destruct (run_cb cmds plan _ c) as [w2|n w2]; intros [= <-]; exact H.
Qed.

(* ONE IN FLIGHT.  In every reachable world (any events, tie policy, transport behaviour, number of steps, assertion crashes included): if
   command f holds the slot and its caller has not been answered, then after ANY next step of the machine f still holds the slot, and the
   command being transmitted / awaited is f or nothing.  So a second command starts only after the first one's future is done. *)
Theorem one_in_flight lifo fuel evs w' f :
  let w := fst (run cmds plan lifo fuel (world0 evs)) in
  curfut (cx w) = Some f -> fut_done (fut_of w f) = false -> step cmds plan lifo w = Some w' ->
  curfut (cx w') = Some f /\ (cur (cx w') = None \/ cur (cx w') = Some f).
Proof.
  intros w Hf P St.
  assert (C : CurSub w) by (apply run_cursub; unfold CurSub; cbn; auto).
  apply (step_keeps lifo w w' f); [|exact P|exact St].
  unfold Slot. split; [exact Hf|]. rewrite <- Hf. exact C.
Qed.

(* the command the FSM works on is the slot's holder, always *)
Theorem current_is_holder lifo fuel evs :
  let w := fst (run cmds plan lifo fuel (world0 evs)) in cur (cx w) = None \/ cur (cx w) = curfut (cx w).
Proof. apply run_cursub. unfold CurSub. cbn. auto. Qed.
End Env.

(* the slot does change hands once the holder has been answered: command 0 is answered by its echo, then command 1 takes the slot *)
Definition two_cmds (c : cid) : cmdinfo :=
  {| prio := 0; max_retries := 0; timeout := 20000000; wfr := false; tx_hdr := (10 + c)%nat; rx_hdr := None; rx_null := None |}.
Definition echo_soon (n : nat) : wplan := {| w_lat := 0; w_fail := false; w_echo := Some 10000; w_rply := None |}.
Definition holder_after (fuel : nat) : option cid :=
  curfut (cx (fst (run two_cmds echo_soon false fuel (world0 [(0, ConnMade); (1000, Call 0%nat); (2000, Call 1%nat)])))).
Lemma slot_changes_hands : exists a b, (a < b)%nat /\ holder_after a = Some 0%nat /\ holder_after b = Some 1%nat.
Proof. exists 20%nat, 30%nat. split; [lia|split; vm_compute; reflexivity]. Qed.
(* the premises of one_in_flight are met on the way: command 0 holds the slot with its caller unanswered, the machine has a next step, and a second command is waiting in the buffer *)
Lemma one_in_flight_nonvacuous :
  let w := fst (run two_cmds echo_soon false 22 (world0 [(0, ConnMade); (1000, Call 0%nat); (2000, Call 1%nat)])) in
  curfut (cx w) = Some 0%nat /\ fut_done (fut_of w 0%nat) = false /\ (exists w', step two_cmds echo_soon false w = Some w') /\
  length (que (cx w)) = 1%nat.
Proof. cbv zeta. split; [vm_compute; reflexivity|]. split; [vm_compute; reflexivity|]. split; [|vm_compute; reflexivity]. eexists. vm_compute. reflexivity. Qed.
