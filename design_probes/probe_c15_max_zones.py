import asyncio, logging, io
logging.disable(logging.CRITICAL)
from ramses_rf import Gateway
from ramses_rf.schemas import SCH_GLOBAL_SCHEMAS
from ramses_rf.helpers import shrink
async def mk(pkts, **cfg):
    txt="".join(f"{k} {v}\n" for k,v in pkts.items())
    gwy=Gateway(None, input_file=io.TextIOWrapper(io.BytesIO(txt.encode())), config=cfg)
    await gwy.start(); return gwy
async def main():
    for mask,mz in (("FF0F",16),("FF1F",16),("FF1F",12),("FFFF",16)):
        g=await mk({"2026-01-01T12:00:00.000000":f"045 RP --- 01:145038 18:111111 --:------ 0005 004 0008{mask}",
                    "2026-01-01T12:00:01.000000":"045  I --- 01:145038 --:------ 01:145038 30C9 003 0007D0"}, max_zones=mz)
        sch=g.schema
        try: SCH_GLOBAL_SCHEMAS(shrink(sch)); r="valid"
        except Exception as e: r="INVALID "+str(e)[:60]
        print(mask, mz, len(sch["01:145038"]["zones"]), r)
        # reload
        try:
            g2=Gateway(None, input_file=io.TextIOWrapper(io.BytesIO(b"")), config={"max_zones":mz}, **shrink(sch))
            await g2.start(); print("   reload ok, same:", shrink(g2.schema)==shrink(sch)); await g2.stop()
        except Exception as e: print("   reload FAILS", type(e).__name__, str(e)[:80])
        await g.stop()
asyncio.run(main())
