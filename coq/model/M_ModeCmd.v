(* M_ModeCmd -- the mode / time / configuration commands: constructors of ramses_tx/command.py (set_zone_mode, set_dhw_mode,
   set_system_mode, set_system_time, set_zone_config with _normalise_mode / _normalise_until) as functions into payload strings,
   AND the decoders of ramses_tx/parsers.py for the same codes (parser_2349, parser_1f41, parser_2e04, parser_313f, parser_000a's
   element) as functions from payload strings -- so that "what is built decodes back to what was asked for" can be stated.
   Temperatures enter as the 16-bit word the C04 encoder produced (None = 7FFF); datetimes as valid calendar records.
   A refusal (CommandInvalid, KeyError, ...) is None.  Definitions only; proofs are in proof/P_ModeCmd.v. *)
From Coq Require Import ZArith String Ascii List Bool.
From RV Require Import Py PyStr M_Codecs M_Command.
Import ListNotations.
Open Scope Z_scope.

Definition is_some {A} (o : option A) : bool := match o with Some _ => true | None => false end.
Definition truthy (d : option Z) : bool := match d with Some x => negb (x =? 0) | None => false end.   (* `if duration:` *)

(* ZON_MODE_MAP: 00 follow_schedule, 01 advanced_override, 02 permanent_override, 03 countdown_override, 04 temporary_override *)
Definition M_FOLLOW := 0.  Definition M_ADVANCED := 1.  Definition M_PERMANENT := 2.  Definition M_COUNTDOWN := 3.  Definition M_TEMPORARY := 4.

(* _normalise_mode(mode, target, until, duration): the 2-char code, or a refusal *)
Definition normalise_mode (mode : option Z) (target_none : bool) (until : option dtf) (dur : option Z) : option Z :=
  if negb (is_some mode) && target_none then None
  else if is_some until && truthy dur then None
  else
    let m := match mode with
             | Some m => m
             | None => if is_some until then M_TEMPORARY else if truthy dur then M_COUNTDOWN else M_PERMANENT
             end in
    if negb ((0 <=? m) && (m <=? 4)) then None            (* ZON_MODE_MAP._hex(mode): KeyError *)
    else if negb (m =? M_FOLLOW) && target_none then None
    else Some m.

(* _normalise_until(mode, _, until, duration): accepted? (its change of a local `mode` to ADVANCED never leaves the function) *)
Definition normalise_until (m : Z) (until : option dtf) (dur : option Z) : bool :=
  if m =? M_TEMPORARY then negb (is_some dur)
  else if m =? M_COUNTDOWN then is_some dur && negb (is_some until)
  else negb (is_some until) && negb (is_some dur).

Definition dur_field (dur : option Z) : str := match dur with None => lit "FFFFFF" | Some d => hexN 6 d end.
Definition until_field (until : option dtf) : str := match until with None => [] | Some f => hexN 12 (hex_from_dtm (Some f) false false) end.

(* Command.set_zone_mode(ctl, idx, mode=, setpoint=, until=, duration=); spw = the word hex_from_temp(setpoint) produced *)
Definition set_zone_mode (idx : Z) (mode : option Z) (spw : option Z) (until : option dtf) (dur : option Z) : option str :=
  match normalise_mode mode (negb (is_some spw)) until dur with
  | None => None
  | Some m =>
      if negb (normalise_until m until dur) then None
      else match check_idx idx with
           | None => None
           | Some x => Some (x ++ hexN 4 (match spw with Some w => w | None => 0x7FFF end) ++ hexN 2 m ++ dur_field dur ++ until_field until)
           end
  end.

(* Command.set_dhw_mode(ctl, mode=, active=, until=, duration=, dhw_idx=0) *)
Definition active_field (m : Z) (active : option bool) : str :=
  match (if m =? M_FOLLOW then None else active) with None => lit "FF" | Some true => lit "01" | Some false => lit "00" end.
Definition set_dhw_mode (dhw_idx : Z) (mode : option Z) (active : option bool) (until : option dtf) (dur : option Z) : option str :=
  match check_idx dhw_idx with
  | None => None
  | Some x =>
      match normalise_mode mode (negb (is_some active)) until dur with
      | None => None
      | Some m =>
          if negb (normalise_until m until dur) then None
          else Some (x ++ active_field m active ++ hexN 2 m ++ dur_field dur ++ until_field until)
      end
  end.

(* Command.set_system_mode(ctl, system_mode, until=): SYS_MODE_MAP 00 auto, 01 heat_off, 02 eco_boost, 03 away, 04 day_off,
   05 day_off_eco, 06 auto_with_reset, 07 custom *)
Definition set_system_mode (mode : option Z) (until : option dtf) : option str :=
  let m := match mode with Some m => m | None => 0 end in
  if negb ((0 <=? m) && (m <=? 7)) then None
  else if is_some until && ((m =? 0) || (m =? 6) || (m =? 1)) then None
  else Some (hexN 2 m ++ hexN 12 (hex_from_dtm until false false) ++ (if is_some until then lit "01" else lit "00")).

(* Command.set_system_time(ctl, datetime, is_dst) *)
Definition dtm_secbyte (d : dtf) (is_dst : bool) : Z := if is_dst then Z.lor (ss d) 0x80 else ss d.     (* the seconds byte, DST in its top bit *)
Definition set_system_time (d : dtf) (is_dst : bool) : str :=
  lit "0060" ++ hexN 2 (dtm_secbyte d is_dst) ++ hexN 12 (hex_from_dtm (Some d) false false).

(* Command.set_zone_config(ctl, idx, min_temp=, max_temp=, local_override=, openwindow_function=, multiroom_mode=); the temperatures
   as the hundredths the caller passes (k/100) -- the range checks 5..21 / 21..35 are on the value, the words by the C04 encoder *)
Definition set_zone_config (idx kmin kmax : Z) (lo ow mr : bool) : option str :=
  match check_idx idx with
  | None => None
  | Some x =>
      if negb ((500 <=? kmin) && (kmin <=? 2100)) || negb ((2100 <=? kmax) && (kmax <=? 3500)) then None
      else Some (x ++ hexN 2 ((if lo then 0 else 1) + (if ow then 0 else 2) + (if mr then 0 else 16)) ++ hexN 4 kmin ++ hexN 4 kmax)
  end.

(* ------------------------------------------------------------------ the decoders *)
Definition mode_of (s : str) : option Z :=
  if str_eqb s (lit "00") then Some 0 else if str_eqb s (lit "01") then Some 1 else if str_eqb s (lit "02") then Some 2
  else if str_eqb s (lit "03") then Some 3 else if str_eqb s (lit "04") then Some 4 else None.
Definition sysmode_of (s : str) : option Z :=
  if str_eqb s (lit "00") then Some 0 else if str_eqb s (lit "01") then Some 1 else if str_eqb s (lit "02") then Some 2
  else if str_eqb s (lit "03") then Some 3 else if str_eqb s (lit "04") then Some 4 else if str_eqb s (lit "05") then Some 5
  else if str_eqb s (lit "06") then Some 6 else if str_eqb s (lit "07") then Some 7 else None.

(* the helpers on strings: int(value, 16) first *)
Definition hex_to_temp_s (s : str) : result tempv := match int16 s with Some w => hex_to_temp w | None => Raise ValueError end.
Definition hex_to_dtm_s (s : str) : result (option dtf) := match int16 s with Some v => hex_to_dtm v | None => Raise ValueError end.
Definition all_F (n : nat) : str := repeat "F"%char n.

Record zmode := mk_zmode { zm_mode : Z; zm_setpoint : tempv; zm_duration : option Z; zm_until : option (option dtf) }.

(* parser_2349 on the fields of a W / I / RP payload: len is msg.len (bytes) *)
Definition parser_2349_fields (len : nat) (sp md du un : str) : result zmode :=
  if negb (Nat.eqb len 7 || Nat.eqb len 13) then Raise AssertionError
  else match mode_of md with
       | None => Raise AssertionError
       | Some m =>
           do t <- hex_to_temp_s sp;
           do d <- (if str_eqb du (all_F 6)
                    then (if m =? M_COUNTDOWN then Raise AssertionError else Ok None)
                    else (if negb (m =? M_COUNTDOWN) then Raise AssertionError
                          else match int16 du with Some x => Ok (Some x) | None => Raise ValueError end));
           do u <- (if Nat.leb 13 len
                    then (if str_eqb un (all_F 12)
                          then (if (m =? M_FOLLOW) || (m =? M_PERMANENT) then Ok (Some None) else Raise AssertionError)
                          else (if m =? M_PERMANENT then Raise AssertionError
                                else do x <- hex_to_dtm_s un; Ok (Some x)))
                    else Ok None);
           Ok (mk_zmode m t d u)
       end.
Definition parser_2349 (p : str) : result zmode :=
  parser_2349_fields (Nat.div (List.length p) 2) (slice 2 6 p) (slice 6 8 p) (slice 8 14 p) (slice 14 26 p).

Record dmode := mk_dmode { dm_mode : Z; dm_active : option (option bool); dm_until : option (option dtf) }.
(* parser_1f41 *)
Definition parser_1f41_fields (len : nat) (ac md du un : str) : result dmode :=
  match mode_of md with
  | None => Raise AssertionError
  | Some m =>
      if negb ((m =? M_TEMPORARY) || Nat.eqb len 6) then Raise AssertionError
      else if negb (negb (m =? M_TEMPORARY) || Nat.eqb len 12) then Raise AssertionError
      else if negb (str_eqb du (all_F 6)) then Raise AssertionError
      else
        do a <- (if str_eqb ac (lit "FF") then Ok None
                 else if str_eqb ac (lit "00") then Ok (Some (Some false))
                 else if str_eqb ac (lit "01") then Ok (Some (Some true)) else Raise KeyError);
        do u <- (if m =? M_TEMPORARY then do x <- hex_to_dtm_s un; Ok (Some x) else Ok None);
        Ok (mk_dmode m a u)
  end.
Definition parser_1f41 (p : str) : result dmode :=
  parser_1f41_fields (Nat.div (List.length p) 2) (slice 2 4 p) (slice 4 6 p) (slice 6 12 p) (slice 12 24 p).

Record smode := mk_smode { sm_mode : Z; sm_until : option (option dtf) }.
(* parser_2e04, the evohome form (msg.len == 8) *)
Definition parser_2e04 (p : str) : result smode :=
  if negb (Nat.eqb (Nat.div (List.length p) 2) 8) then Raise AssertionError     (* the 16-byte hometronics form is not modelled *)
  else match sysmode_of (slice 0 2 p) with
       | None => Raise AssertionError
       | Some m =>
           if (m =? 0) || (m =? 1) || (m =? 6) then Ok (mk_smode m None)
           else if str_eqb (slice 14 16 p) (lit "00") then Ok (mk_smode m (Some None))
           else do x <- hex_to_dtm_s (slice 2 14 p); Ok (mk_smode m (Some x))
       end.

(* parser_313f for a sender that is not a controller / DTS / RFG (the gateway): datetime and the DST flag *)
Definition parser_313f (p : str) : result (option dtf * bool) :=
  do x <- hex_to_dtm_s (slice 4 18 p);
  match int16 (slice 4 6 p) with
  | Some b => Ok (x, negb (Z.land b 0x80 =? 0))
  | None => Raise ValueError
  end.

Record zconf := mk_zconf { zc_min : tempv; zc_max : tempv; zc_local_override : bool; zc_openwindow : bool; zc_multiroom : bool }.
(* parser_000a, a single element (msg.len == 6) *)
Definition parser_000a (p : str) : result zconf :=
  if negb (Nat.eqb (Nat.div (List.length p) 2) 6) then Raise AssertionError
  else match int16 (slice 2 4 p) with
       | None => Raise ValueError
       | Some b =>
           do a <- hex_to_temp_s (slice 4 8 p);
           do c <- hex_to_temp_s (slice 8 12 p);
           Ok (mk_zconf a c (Z.land b 1 =? 0) (Z.land b 2 =? 0) (Z.land b 16 =? 0))
       end.
