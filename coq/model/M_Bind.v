(* M_Bind: one waiting step of the binding FSM (ramses_rf/binding_fsm.py:
   BindStateBase._wait_for_fut_result / _handle_wait_timer_expired / _set_context_state, the
   state's own call_later timer, rcvd_msg of the waiting states) -- C20.
   Time is a sequence of INSTANTS; within an instant the injected events run in one loop
   iteration, and the waiter's wake-up (scheduled through call_soon) runs after them, before
   the next instant. [fixed = false] is the code before the repair. *)
From Coq Require Import List Bool Arith.
Import ListNotations.

Inductive fut := FPending | FRes | FExn (* BindingFlowFailed *) | FCancelled.
Inductive outcome := OkMsg | FlowFailed | InvalidState.
Inductive cstate := CWaiting | CNext | CFailed.
Inductive waiter := NotStarted | Suspended | WakeNormal | WakeTimeout | Done (o : outcome).

Inductive ev :=
| EStart                (* the role coroutine reaches the await *)
| EMatch                (* rcvd_msg: the packet this state waits for (possibly a repeat) *)
| EOther                (* rcvd_msg: any other 1FC9 / 10E0 packet *)
| EWaitTimer            (* wait_for's timeout *)
| EStateTimer.          (* the state's own call_later timer (5.1 s), if it has one *)

Record bw := { b_fut : fut; b_ctx : cstate; b_sttimer : bool; b_wtimer : bool; b_w : waiter }.

Definition bw0 (has_state_timer : bool) : bw :=
  {| b_fut := FPending; b_ctx := CWaiting; b_sttimer := has_state_timer; b_wtimer := false; b_w := NotStarted |}.

Definition fut_done (f : fut) : bool := match f with FPending => false | _ => true end.

Definition upd (f : fut) (c : cstate) (st wt : bool) (w : waiter) : bw :=
  {| b_fut := f; b_ctx := c; b_sttimer := st; b_wtimer := wt; b_w := w |}.

(* _handle_wait_timer_expired: new state and whether it raised InvalidStateError *)
Definition expire (fixed : bool) (s : bw) : bw * bool :=
  if fixed && fut_done (b_fut s) then (s, false)
  else match b_fut s with
       | FPending => (upd FExn CFailed false (b_wtimer s) (b_w s), false)   (* set_exception; -> DevHasFailedBinding; its timer cancelled *)
       | _ => (s, true)                                                    (* set_exception on a done/cancelled future *)
       end.

(* one injected event: new state and the number of exceptions left in the event loop *)
Definition step (fixed : bool) (s : bw) (e : ev) : bw * nat :=
  match e with
  | EStart =>
      match b_w s with
      | NotStarted =>
          if fut_done (b_fut s)
          then (upd (b_fut s) (b_ctx s) (b_sttimer s) true WakeNormal, 0)   (* awaiting a done future: resumes next iteration *)
          else (upd (b_fut s) (b_ctx s) (b_sttimer s) true Suspended, 0)
      | _ => (s, 0)
      end
  | EMatch =>
      match b_ctx s with
      | CWaiting =>                      (* messages go to the CURRENT state object only *)
          match b_fut s with
          | FPending => (upd FRes CWaiting (b_sttimer s) (b_wtimer s)
                             (match b_w s with Suspended => WakeNormal | w => w end), 0)
          | _ => (s, if fixed then 0 else 1)   (* a repeat: ignored; before the repair set_result on a done future put InvalidStateError in the loop *)
          end
      | _ => (s, 0)
      end
  | EOther => (s, 0)
  | EWaitTimer =>
      if negb (b_wtimer s) then (s, 0)
      else (upd (if fixed then b_fut s else match b_fut s with FPending => FCancelled | f => f end)
                (b_ctx s) (b_sttimer s) false
                (match b_w s with Suspended | WakeNormal => WakeTimeout | w => w end), 0)
  | EStateTimer =>
      if negb (b_sttimer s) then (s, 0)
      else
        let s0 := upd (b_fut s) (b_ctx s) false (b_wtimer s) (b_w s) in
        let '(s1, raised) := expire fixed s0 in
        (match b_w s1, b_fut s1 with
         | Suspended, FExn => upd (b_fut s1) (b_ctx s1) (b_sttimer s1) (b_wtimer s1) WakeNormal
         | _, _ => s1
         end, if raised then 1 else 0)
  end.

(* the waiter resumes: the rest of _wait_for_fut_result *)
Definition wake (fixed : bool) (s : bw) : bw :=
  match b_w s with
  | WakeNormal =>
      (* the await returned (or raised the future's own exception); wait_for's timer is cancelled *)
      match b_fut s with
      | FRes => upd FRes (match b_ctx s with CWaiting => CNext | c => c end) false false (Done OkMsg)
      | FExn => upd FExn (b_ctx s) (b_sttimer s) false (Done FlowFailed)
      | _ => s
      end
  | WakeTimeout =>
      let '(s1, raised) := expire fixed s in
      if raised then upd (b_fut s1) (b_ctx s1) (b_sttimer s1) false (Done InvalidState)   (* escapes to the caller *)
      else
        if fixed then
          match b_fut s1 with
          | FRes => upd FRes (match b_ctx s1 with CWaiting => CNext | c => c end) false false (Done OkMsg)
          | _ => upd (b_fut s1) (b_ctx s1) (b_sttimer s1) false (Done FlowFailed)
          end
        else upd (b_fut s1) (b_ctx s1) (b_sttimer s1) false (Done FlowFailed)
  | _ => s
  end.

Definition steps (fixed : bool) (s : bw) (evs : list ev) : bw * nat :=
  fold_left (fun acc e => let '(s', n) := step fixed (fst acc) e in (s', snd acc + n)) evs (s, 0).
Definition instant (fixed : bool) (acc : bw * nat) (evs : list ev) : bw * nat :=
  let '(s', n) := steps fixed (fst acc) evs in (wake fixed s', snd acc + n).
Definition run (fixed : bool) (has_state_timer : bool) (instants : list (list ev)) : bw * nat :=
  fold_left (instant fixed) instants (bw0 has_state_timer, 0).

(* ---- which handshake phase a packet belongs to (BindStateBase.is_phase) ---- *)
Inductive pverb := PI | PW | PRQ | PRP.
Inductive pdst := DSelf | DAll | DOther.        (* the destination: the sender itself, the all-devices address 63:262142, another device *)
Inductive pcode := K1FC9 | K10E0 | KOther.
Inductive phase := Tender | Accept | Affirm | Ratify.

Definition is_phase (c : pcode) (v : pverb) (d : pdst) (p : phase) : bool :=
  match p with
  | Ratify => match v, c with PI, K10E0 => true | _, _ => false end
  | _ =>
    match c with
    | K1FC9 =>
      match p with
      | Tender => match v, d with PI, DSelf | PI, DAll => true | _, _ => false end
      | Accept => match v, d with PW, DAll | PW, DOther => true | _, _ => false end
      | _ => match v, d with PI, DOther => true | _, _ => false end
      end
    | _ => false
    end
  end.
