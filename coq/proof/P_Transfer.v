From Coq Require Import List Bool Arith Lia.
From RV Require Import M_Transfer.
Import ListNotations.

Lemma body_not_locktimeout faults : body faults <> LockTimeout.
Proof. induction faults as [|[| |] t IH]; cbn; try discriminate; exact IH. Qed.

(* whatever faults hit the transfer, it never leaves the lock held: afterwards the lock is free,
   unless the transfer could not get it in the first place (then it is untouched) *)
Theorem lock_released_at_exit l z faults :
  (snd (transfer true l z faults) = LockTimeout /\ fst (transfer true l z faults) = l /\ exists z', l = Some z' /\ z' <> z) \/
  (snd (transfer true l z faults) <> LockTimeout /\ fst (transfer true l z faults) = None).
Proof.
  unfold transfer, obtain. destruct l as [z'|].
  - destruct (Nat.eqb z z') eqn:E.
    + right. pose proof (body_not_locktimeout faults) as B. destruct (body faults); cbn; (split; [congruence|reflexivity]).
    + left. cbn. split; [reflexivity|]. split; [reflexivity|]. exists z'. split; [reflexivity|].
      intros ->. rewrite Nat.eqb_refl in E. discriminate.
  - right. pose proof (body_not_locktimeout faults) as B. destruct (body faults); cbn; (split; [congruence|reflexivity]).
Qed.

(* so, starting from a free lock, after ANY history of transfers (any zones, any faults) the lock
   is free again and no transfer ever waits for a lock: later transfers proceed normally *)
Theorem others_proceed hist :
  fst (transfers true None hist) = None /\ ~ In LockTimeout (snd (transfers true None hist)).
Proof.
  induction hist as [|[z fs] hist IH]; cbn [transfers]; [split; [reflexivity|intros []]|].
  pose proof (lock_released_at_exit None z fs) as H.
  destruct (transfer true None z fs) as [l1 o]. cbn [fst snd] in H.
  destruct H as [[_ [_ [z' [E _]]]]|[Ho ->]]; [discriminate E|].
  destruct (transfers true None hist) as [l2 os]. cbn [fst snd] in *. destruct IH as [IH1 IH2].
  split; [exact IH1|]. intros [H|H]; [apply Ho; exact H|exact (IH2 H)].
Qed.

(* a transfer whose every exchange succeeds completes *)
Lemma all_proceed_completes n : body (repeat Proceed n) = Completed.
Proof. induction n; cbn; auto. Qed.

(* before the repair: one failed fetch of zone 0 leaves the lock behind and zone 1 then times out *)
Theorem lock_leak_refuted :
  transfers false None [(0, [Proceed; Raises]); (1, [Proceed; Proceed; Proceed])] = (Some 0, [Failed; LockTimeout]).
Proof. reflexivity. Qed.
Theorem lock_leak_repaired :
  transfers true None [(0, [Proceed; Raises]); (1, [Proceed; Proceed; Proceed])] = (None, [Failed; Completed]).
Proof. reflexivity. Qed.

(* ---------------------------------------------------------------- never a mixed schedule *)
Lemma single_version_spec vs w : single_version vs = Some w -> Forall (fun v => v = w) vs.
Proof.
  destruct vs as [|v t]; [discriminate|]. cbn. destruct (forallb (Nat.eqb v) t) eqn:E; [|discriminate].
  intros [= <-]. constructor; [reflexivity|]. rewrite forallb_forall in E.
  apply Forall_forall. intros x Hx. symmetry. apply Nat.eqb_eq, E, Hx.
Qed.

(* whatever fragments arrive -- any versions, any order, repeats, other totals -- a schedule is only
   ever produced from a full set all of whose fragments belong to the version reported *)
Theorem vupdate_single ps total k v ps' w :
  vupdate ps total k v = (ps', Some w) -> vfull ps' = true /\ Forall (fun x => x = w) (versions ps').
Proof.
  unfold vupdate. set (ps1 := if Nat.eqb total (length ps) then _ else _).
  destruct (vfull ps1) eqn:F; cbn [negb]; [|discriminate].
  destruct (single_version (versions ps1)) as [w'|] eqn:S; [|discriminate].
  intros [= <- <-]. split; [exact F|apply single_version_spec, S].
Qed.

Theorem never_mixed frs : forall ps last w,
  (last = None \/ exists vs, last = single_version vs) ->
  snd (vfeed ps last frs) = Some w -> exists vs, single_version vs = Some w.
Proof.
  induction frs as [|[[total k] v] frs IH]; intros ps last w L H; cbn [vfeed snd] in H.
  - destruct L as [->|[vs ->]]; [discriminate|]. exists vs. exact H.
  - destruct (vupdate ps total k v) as [ps' r] eqn:U. eapply IH; [|exact H].
    destruct r as [w'|]; [|exact L].
    right. unfold vupdate in U. set (ps1 := if Nat.eqb total (length ps) then _ else _) in U.
    destruct (negb (vfull ps1)); [discriminate|].
    destruct (single_version (versions ps1)) eqn:S; [|discriminate].
    injection U as _ <-. eexists. symmetry. exact S.
Qed.

(* ---------------------------------------------------------------- the fetch loop terminates *)
Definition nones (ps : vset) : nat := length (filter (fun o => match o with None => true | Some _ => false end) ps).
Definition clean (v : nat) (ps : vset) : Prop := forall w, In (Some w) ps -> w = v.

Lemma vfull_nones ps : vfull ps = true <-> nones ps = 0.
Proof.
  unfold nones. induction ps as [|[x|] t IH]; cbn; [tauto|exact IH|]. split; [discriminate|intro H; discriminate H].
Qed.

Lemma first_none_none ps : first_none ps = None <-> nones ps = 0.
Proof.
  unfold nones. induction ps as [|[x|] t IH]; cbn; [tauto| |split; intro H; discriminate H].
  destruct (first_none t); [split; [discriminate|]|tauto]. intro H. apply IH in H. discriminate.
Qed.

Lemma set_slot_length n x ps : length (set_slot n x ps) = length ps.
Proof. revert n; induction ps as [|a t IH]; intros [|n]; cbn; auto. Qed.

(* filling the first missing slot: one fewer missing, and nothing else changes *)
Lemma fill_first ps k v : first_none ps = Some k ->
  nones (set_slot k (Some v) ps) = nones ps - 1 /\ 1 <= nones ps /\
  In (Some v) (set_slot k (Some v) ps) /\
  (forall w, In (Some w) (set_slot k (Some v) ps) -> w = v \/ In (Some w) ps).
Proof.
  unfold nones. revert k; induction ps as [|[x|] t IH]; intros k H; cbn in H; [discriminate| |].
  - destruct (first_none t) as [k'|] eqn:E; [|discriminate]. injection H as <-.
    destruct (IH k' eq_refl) as [A [B [C D]]]. cbn. repeat split; auto.
    intros w [Hw|Hw]; [right; left; exact Hw|]. destruct (D w Hw) as [?|?]; [left; assumption|right; right; assumption].
  - injection H as <-. cbn. repeat split; try lia; auto.
    intros w [Hw|Hw]; [left; congruence|right; right; exact Hw].
Qed.

Lemma versions_in ps w : In w (versions ps) <-> In (Some w) ps.
Proof.
  unfold versions. rewrite in_flat_map. split.
  - intros [[x|] [Hx Hw]]; cbn in Hw; [destruct Hw as [<-|[]]; exact Hx|destruct Hw].
  - intro H. exists (Some w). split; [exact H|left; reflexivity].
Qed.

Lemma single_version_all v vs : vs <> [] -> (forall w, In w vs -> w = v) -> single_version vs = Some v.
Proof.
  destruct vs as [|a t]; [congruence|]. intros _ H. cbn.
  assert (a = v) as -> by (apply H; left; reflexivity).
  replace (forallb (Nat.eqb v) t) with true; [reflexivity|].
  symmetry. apply forallb_forall. intros x Hx. apply Nat.eqb_eq. symmetry. apply H. right. exact Hx.
Qed.

Lemma versions_nonempty ps w : In (Some w) ps -> versions ps <> [].
Proof. intros H E. apply versions_in in H. rewrite E in H. destruct H. Qed.

Lemma nones_repeat n : nones (repeat None n) = n.
Proof. unfold nones. induction n; cbn; auto. Qed.

Lemma set_slot_some_spec ps : forall k v, k < length ps -> nth_error ps k = Some None ->
  nones (set_slot k (Some v) ps) = nones ps - 1 /\ In (Some v) (set_slot k (Some v) ps) /\
  (forall w, In (Some w) (set_slot k (Some v) ps) -> w = v \/ In (Some w) ps).
Proof.
  unfold nones. induction ps as [|a t IH]; intros [|k] v L E; cbn in *; try lia.
  - injection E as ->. cbn. repeat split; try lia; auto. intros w [Hw|Hw]; [left; congruence|right; right; exact Hw].
  - destruct (IH k v ltac:(lia) E) as [A [B C]]. destruct a as [x|]; cbn.
    + repeat split; auto. intros w [Hw|Hw]; [right; left; exact Hw|]. destruct (C w Hw); auto.
    + assert (1 <= length (filter (fun o : option nat => match o with None => true | Some _ => false end) t)).
      { clear - E. revert k E. induction t as [|b t IH]; intros [|k] E; cbn in *; try discriminate.
        - injection E as ->. cbn. lia.
        - destruct b; cbn; [eapply IH; exact E|lia]. }
      repeat split; try lia; auto. intros w [Hw|Hw]; [discriminate|]. destruct (C w Hw); auto.
Qed.

Lemma nth_error_repeat {A} (x : A) n k : k < n -> nth_error (repeat x n) k = Some x.
Proof. revert k; induction n; intros [|k] H; cbn; try lia; auto. apply IHn. lia. Qed.

Lemma in_repeat_none n w : ~ In (Some w) (repeat (@None nat) n).
Proof. intro H. apply repeat_spec in H. discriminate. Qed.

(* a new set: only this fragment, of this version *)
Lemma vinit_spec total k v : k < total ->
  length (vinit total k v) = total /\ nones (vinit total k v) = total - 1 /\
  clean v (vinit total k v) /\ In (Some v) (vinit total k v).
Proof.
  intro H. unfold vinit.
  destruct (set_slot_some_spec (repeat None total) k v) as [A [B C]];
    [rewrite repeat_length; exact H|apply nth_error_repeat; exact H|].
  rewrite set_slot_length, repeat_length, A, nones_repeat. repeat split; auto.
  intros w Hw. destruct (C w Hw) as [E|E]; [exact E|]. exfalso. exact (in_repeat_none _ _ E).
Qed.

Lemma first_none_lt ps k : first_none ps = Some k -> k < length ps.
Proof.
  revert k; induction ps as [|[x|] t IH]; intros k H; cbn in *; [discriminate| |injection H as <-; lia].
  destruct (first_none t) eqn:E; [|discriminate]. injection H as <-. specialize (IH _ eq_refl). lia.
Qed.

(* phase 2: every stored fragment is of the controller's version: one exchange per missing slot *)
Lemma clean_completes total v : forall m ps n fuel,
  length ps = total -> clean v ps -> nones ps = m -> 1 <= m -> m <= fuel ->
  fetch_loop fuel ps total v n = Got v (n + m).
Proof.
  induction m as [|m IH]; intros ps n fuel L C N M F; [lia|].
  destruct fuel as [|fuel]; [lia|]. cbn [fetch_loop].
  destruct (first_none ps) as [k|] eqn:E; [|apply first_none_none in E; lia].
  destruct (fill_first ps k v E) as [A [_ [B D]]].
  unfold vupdate. rewrite L, Nat.eqb_refl.
  set (ps1 := set_slot k (Some v) ps) in *.
  assert (C1 : clean v ps1) by (intros w Hw; destruct (D w Hw) as [->|H]; [reflexivity|apply C, H]).
  destruct (vfull ps1) eqn:Fu; cbn [negb].
  - rewrite (single_version_all v); [|eapply versions_nonempty; exact B|intros w Hw; apply C1, versions_in, Hw].
    apply vfull_nones in Fu. f_equal. lia.
  - assert (nones ps1 <> 0) by (intro Z; apply vfull_nones in Z; congruence).
    rewrite (IH ps1 (S n) fuel); [f_equal; lia|unfold ps1; rewrite set_slot_length; exact L|exact C1|lia|lia|lia].
Qed.

(* phase 1: whatever stale fragments are stored: fill the missing slots; a mixed set is thrown
   away but for the fragment just received, and phase 2 finishes the job *)
Lemma dirty_completes total v : forall m ps n fuel,
  length ps = total -> nones ps = m -> 1 <= m -> m + total <= fuel ->
  exists n', fetch_loop fuel ps total v n = Got v n' /\ n' <= n + m + total.
Proof.
  induction m as [|m IH]; intros ps n fuel L N M F; [lia|].
  destruct fuel as [|fuel]; [lia|]. cbn [fetch_loop].
  destruct (first_none ps) as [k|] eqn:E; [|apply first_none_none in E; lia].
  destruct (fill_first ps k v E) as [A [_ [B D]]]. pose proof (first_none_lt ps k E) as K.
  unfold vupdate. rewrite L, Nat.eqb_refl.
  set (ps1 := set_slot k (Some v) ps) in *.
  destruct (vfull ps1) eqn:Fu; cbn [negb].
  - destruct (single_version (versions ps1)) as [w|] eqn:SV.
    + apply single_version_spec in SV. rewrite Forall_forall in SV.
      rewrite (SV v) by (apply versions_in; exact B). exists (S n). split; [reflexivity|lia].
    + destruct (vinit_spec total k v ltac:(lia)) as [I1 [I2 [I3 I4]]].
      destruct (Nat.eq_dec total 1) as [T1|T1].
      * exfalso. (* a one-fragment set cannot be mixed *)
        assert (L1 : length ps1 = 1) by (unfold ps1; rewrite set_slot_length; lia).
        destruct ps1 as [|a [|b t]]; cbn in L1; try lia.
        destruct B as [->|[]]. cbn in SV. discriminate.
      * rewrite (clean_completes total v (total - 1) (vinit total k v) (S n) fuel); try assumption; try lia.
        exists (S n + (total - 1)). split; [reflexivity|lia].
  - assert (nones ps1 <> 0) by (intro Z; apply vfull_nones in Z; congruence).
    destruct (IH ps1 (S n) fuel) as [n' [G Hn]]; [unfold ps1; rewrite set_slot_length; exact L|lia|lia|lia|].
    exists n'. split; [exact G|lia].
Qed.

Lemma set_slot0_none ps : ps <> [] -> first_none (set_slot 0 None ps) = Some 0 /\ 1 <= nones (set_slot 0 None ps).
Proof. destruct ps as [|a t]; [congruence|]. intros _. unfold nones. cbn. split; [reflexivity|lia]. Qed.

Lemma nones_le_length ps : nones ps <= length ps.
Proof. unfold nones. induction ps as [|[x|] t IH]; cbn; lia. Qed.

(* an undisturbed fetch -- the controller holds one version throughout -- always ends with that
   version, after at most 2 * total exchanges, whatever stale or foreign fragments the zone held
   before: a failed, abandoned or overtaken transfer leaves nothing behind that could stop it *)
Theorem fetch_completes ps total v : ps <> [] -> 1 <= total ->
  exists n, fetch ps total v = Got v n /\ n <= 2 * total.
Proof.
  intros P T. unfold fetch. destruct (set_slot0_none ps P) as [F0 N0].
  set (ps0 := set_slot 0 None ps) in *.
  destruct (Nat.eq_dec (length ps0) total) as [L|L].
  - pose proof (nones_le_length ps0) as Le.
    destruct (dirty_completes total v (nones ps0) ps0 0 (2 * total) L eq_refl N0 ltac:(lia)) as [n' [G Hn]].
    exists n'. split; [exact G|lia].
  - destruct total as [|total]; [lia|]. replace (2 * S total) with (S (S (2 * total))) by lia. remember (S (2 * total)) as f eqn:Ef.
    cbn [fetch_loop]. rewrite F0. unfold vupdate.
    replace (Nat.eqb (S total) (length ps0)) with false by (symmetry; apply Nat.eqb_neq; lia).
    destruct (vinit_spec (S total) 0 v ltac:(lia)) as [I1 [I2 [I3 I4]]].
    destruct (vfull (vinit (S total) 0 v)) eqn:Fu; cbn [negb].
    + rewrite (single_version_all v); [|eapply versions_nonempty; exact I4|intros w Hw; apply I3, versions_in, Hw].
      exists 1. split; [reflexivity|lia].
    + assert (nones (vinit (S total) 0 v) <> 0) by (intro Z; apply vfull_nones in Z; congruence).
      rewrite (clean_completes (S total) v (S total - 1) (vinit (S total) 0 v) 1 f); try assumption; try lia.
      exists (1 + (S total - 1)). split; [reflexivity|lia].
Qed.

Lemma fetch_examples :
  fetch [Some 1; Some 1; Some 1] 3 2 = Got 2 3 /\ fetch [Some 1; Some 1; Some 1] 1 2 = Got 2 1 /\
  fetch [None] 4 7 = Got 7 4 /\ fetch [Some 1; Some 1; None] 3 3 = Got 3 4.
Proof. vm_compute. repeat split. Qed.

(* ---------------------------------------------------------------- what is overheard *)
(* acknowledgements of writes (and fragments arriving while the zone's own transfer holds the lock) change nothing ... *)
Lemma hear_non_fragments : forall es st, (forall e, In e es -> is_frag e = false) -> hear_all st es = st.
Proof.
  induction es as [|e es IH]; intros st H; [reflexivity|]. unfold hear_all in *. cbn [fold_left].
  assert (E : hear st e = st).
  { specialize (H e (or_introl eq_refl)). destruct st as [ps last]. destruct e as [[|] [t k v|t k]]; cbn in *; try reflexivity. discriminate. }
  rewrite E. apply IH. intros e' He'. apply H. right. exact He'.
Qed.
(* ... and hearing anything at all is feeding the reassembly exactly the fragments among it, in order: nothing else ever enters the set *)
Lemma hear_is_vfeed : forall es ps last, hear_all (ps, last) es = vfeed ps last (flat_map frag_of es).
Proof.
  induction es as [|e es IH]; intros ps last; [reflexivity|]. unfold hear_all in *. cbn [fold_left flat_map].
  destruct e as [[|] [t k v|t k]]; cbn [hear frag_of app]; try apply IH.
  cbn [vfeed]. destruct (vupdate ps t k v) as [ps' r]. apply IH.
Qed.
