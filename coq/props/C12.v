(* C12 -- Active discovery reconstructs the controller's configuration, whatever it is.  Statements only. *)
From Coq Require Import List Bool Arith.
From RV Require Import M_Discover P_Discover.
Import ListNotations.

(* whatever a conforming controller answers to any request, what the gateway then knows is true of the
   controller's configuration: nothing is ever learnt that the controller did not say *)
Theorem C12_learn_sound : forall g k q, sound g k -> sound g (learn k q (reply g q)).
Proof. exact learn_sound. Qed.

(* nothing that was learnt is lost or replaced, whatever reply arrives (zones, classes, sensors, actuators,
   hot-water parts and the appliance control only accumulate) *)
Theorem C12_nothing_lost : forall k q r, le k (learn k q r).
Proof. exact learn_le. Qed.

(* any number of polling rounds with ANY pattern of lost requests/replies keeps the knowledge true and growing *)
Theorem C12_rounds_sound : forall g losses k, sound g k -> sound g (rounds g losses k) /\ le k (rounds g losses k).
Proof. exact rounds_sound. Qed.

(* from ANY true state of knowledge, two loss-free rounds reconstruct every configuration: every zone with its
   class, sensor and all its actuators, the hot-water sensor and valves, the appliance control *)
Theorem C12_two_rounds_complete : forall g k, wf g -> sound g k ->
  sound g (round g no_loss (round g no_loss k)) /\ complete g (round g no_loss (round g no_loss k)).
Proof. exact two_rounds_complete. Qed.

(* lost requests or replies only delay: starting with no schema, after any loss patterns whatever over any number
   of rounds, two loss-free rounds later the gateway knows exactly the controller's configuration *)
Theorem C12_loss_only_delays : forall g losses, wf g ->
  let k := rounds g (losses ++ [no_loss; no_loss]) k0 in sound g k /\ complete g k.
Proof. exact loss_only_delays. Qed.
