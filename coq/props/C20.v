(* C20 -- Binding handshakes: every wait ends cleanly.  Statements only. *)
From Coq Require Import List Bool Arith.
From RV Require Import M_Bind P_Bind.
Import ListNotations.

(* for EVERY history (any instants, any events in any order, repeats, with or without a state timer):
   a wait that ended, ended with the awaited message and the context advanced, or with
   BindingFlowFailed and the context in DevHasFailedBinding (not binding: a new attempt can start) *)
Theorem C20_wait_ends_cleanly : forall hst instants o,
  b_w (fst (run true hst instants)) = Done o ->
  (o = OkMsg /\ b_ctx (fst (run true hst instants)) = CNext) \/
  (o = FlowFailed /\ b_ctx (fst (run true hst instants)) = CFailed).
Proof. exact wait_ends_cleanly. Qed.

Theorem C20_invariant_everywhere : forall hst instants, inv (fst (run true hst instants)) = true.
Proof. exact run_inv. Qed.

(* the wait is over in the very instant its timer fires *)
Theorem C20_wait_timer_ends : forall s e1 e2,
  inv s = true -> b_wtimer s = true ->
  exists o, b_w (wake true (fst (step true (fst (step true (fst (step true s e1)) EWaitTimer)) e2))) = Done o.
Proof. exact wait_timer_ends. Qed.

(* a repeated copy of the awaited packet does not change the state (it only logs an exception) *)
Theorem C20_duplicate_match_is_noop : forall s, b_fut s <> FPending -> fst (step true s EMatch) = s.
Proof. exact duplicate_match_is_noop. Qed.

(* regression witness: the code before the repair *)
Theorem C20_old_timeout_refuted :
  let r := run false true [[EStart]; [EWaitTimer]; [EStateTimer]] in
  b_w (fst r) = Done InvalidState /\ b_ctx (fst r) = CWaiting /\ snd r = 1.
Proof. exact old_timeout_refuted. Qed.
Theorem C20_now_timeout_clean :
  let r := run true true [[EStart]; [EWaitTimer]; [EStateTimer]] in
  b_w (fst r) = Done FlowFailed /\ b_ctx (fst r) = CFailed /\ snd r = 0.
Proof. exact now_timeout_clean. Qed.

(* no event sequence whatever -- repeats of the awaited packet in the same instant, packets after a timer,
   both timers together -- leaves an exception in the event loop *)
Theorem C20_no_loop_exceptions : forall hst instants, snd (run true hst instants) = 0.
Proof. exact no_loop_exceptions. Qed.
(* regression witness: before c876120 a second copy of the awaited packet in the same instant raised InvalidStateError into the loop *)
Theorem C20_old_repeat_refuted : snd (run false true [[EStart]; [EMatch; EMatch]]) = 1.
Proof. exact old_repeat_refuted. Qed.

(* a packet is recognised as at most one phase of the handshake: unrelated binding traffic (a third party's
   offer, self-addressed or broadcast) is never taken for the accept or the confirm one is waiting for *)
Theorem C20_phases_exclusive : forall c v d p q, is_phase c v d p = true -> is_phase c v d q = true -> p = q.
Proof. exact phases_exclusive. Qed.
Theorem C20_offer_is_not_confirm : forall c v d, is_phase c v d Tender = true -> is_phase c v d Affirm = false.
Proof. exact offer_is_not_confirm. Qed.
