"""Discovery harness (C12): controller configurations, a conforming scripted controller, the whole gateway on a virtual loop."""

from __future__ import annotations

import asyncio
import datetime as _dt

from .vloop import VLoop

CTL = "01:145038"
HGI = "18:111111"
CLS = {"radiator_valve": "08", "zone_valve": "0A", "mixing_valve": "0B", "electric_heat": "11"}   # the classes the property names
CLS_NO = {"radiator_valve": 1, "zone_valve": 2, "mixing_valve": 3, "electric_heat": 4}
ROLE_NO = {"00": 0, "08": 1, "0A": 2, "0B": 3, "11": 4, "09": 5}
ACT_TYPE = {"radiator_valve": ["04", "00"], "zone_valve": ["13"], "mixing_valve": ["13"], "electric_heat": ["13"]}
SENSOR_TYPES = ["01", "03", "04", "12", "22", "34"]
EPOCH = _dt.datetime(2026, 1, 1, 12, 0, 0)


def gen_cfg(rng, nzones=None, max_act=8, ctl_sensor_once=True):
    """A controller configuration within the property's quantifier; device numbers are unique (they double as model ids)."""
    n = [0]

    def dev(t):
        n[0] += 1
        return f"{t}:{100000 + n[0]:06d}"

    zones = {}
    ctl_used = False
    for i in sorted(rng.sample(range(12), rng.randint(0, 12) if nzones is None else nzones)):
        klass = rng.choice(list(CLS))
        z = {"class": klass, "actuators": [dev(rng.choice(ACT_TYPE[klass])) for _ in range(rng.randint(0, max_act))]}
        r = rng.random()
        if r < 0.12 and not (ctl_used and ctl_sensor_once):
            z["sensor"] = CTL
            ctl_used = True
        elif r < 0.25 and klass == "radiator_valve" and z["actuators"]:
            z["sensor"] = z["actuators"][0]          # a TRV that is both the sensor and an actuator of its zone
        elif r < 0.9:
            z["sensor"] = dev(rng.choice(SENSOR_TYPES[1:]))
        if z["actuators"] and len(z["actuators"]) < 8 and rng.random() < 0.35:
            # an actuator has been unbound: its slot stays in the controller's reply, empty (7F FFFFFF), ahead of / between the bound ones
            z["gaps"] = sorted(rng.sample(range(len(z["actuators"]) + 1), rng.randint(1, min(2, 8 - len(z["actuators"])))))
            if rng.random() < 0.6:
                z["gaps"][0] = 0
        zones[f"{i:02X}"] = z
    cfg = {"zones": zones}
    if rng.random() < 0.6:
        dhw = {}
        for part, p in (("sensor", 0.8), ("dhw_valve", 0.6), ("htg_valve", 0.4)):
            if rng.random() < p:
                dhw[part] = dev("07" if part == "sensor" else "13")
        if dhw:
            cfg["dhw"] = dhw
    a = rng.random()
    if a < 0.4:
        cfg["appliance"] = dev("13")
    elif a < 0.75:
        cfg["appliance"] = dev("10")
    return cfg


def dev_no(dev_id):
    """Model id of a device: its number (unique by construction); the controller is 1."""
    return 1 if dev_id == CTL else int(dev_id[3:]) - 100000 + 10


def mask(zones, pred):
    m = 0
    for z, v in zones.items():
        if pred(v):
            m |= 1 << int(z, 16)
    return f"{m & 0xFF:02X}{(m >> 8) & 0xFF:02X}"


def reply(cfg, code, payload):
    """The RP payload a conforming controller gives to RQ code/payload, or None when it would not answer."""
    from ramses_tx.address import dev_id_to_hex_id  # noqa: PLC0415

    zones = cfg["zones"]

    def devs(idx, role, ids, gaps=()):
        if not ids:
            return f"{idx}{role}7FFFFFFF"
        slots = [f"{idx}{role}00{dev_id_to_hex_id(d)}" for d in ids]
        for g in sorted(set(gaps)):          # empty slots among the bound ones
            slots.insert(min(g, len(slots)), f"{idx}{role}7FFFFFFF")
        return "".join(slots[:8])

    if code == "0005":
        zt = payload[2:4]
        if zt in CLS.values():
            m = mask(zones, lambda z: CLS[z["class"]] == zt)
        elif zt == "04":
            m = mask(zones, lambda z: z.get("sensor"))
        elif zt == "00":
            m = mask(zones, lambda z: True)
        else:
            m = "0000"
        return f"00{zt}{m}"
    if code == "000C":
        idx, role = payload[:2], payload[2:4]
        dhw = cfg.get("dhw", {})
        if role == "0F" and idx == "00":
            ids = [cfg["appliance"]] if cfg.get("appliance") else []
        elif role == "0D" and idx == "00":
            ids = [dhw["sensor"]] if dhw.get("sensor") else []
        elif role == "0E" and idx == "00":
            ids = [dhw["dhw_valve"]] if dhw.get("dhw_valve") else []
        elif role == "0E" and idx == "01":
            ids = [dhw["htg_valve"]] if dhw.get("htg_valve") else []
        elif idx in zones and role in ("00", "04", "08", "0A", "0B", "11", "09"):
            z = zones[idx]
            if role == "04":
                ids = [z["sensor"]] if z.get("sensor") else []
            elif role == "00" or role == CLS[z["class"]]:
                return devs(idx, role, z["actuators"], z.get("gaps", ()))
            else:
                ids = []
        elif role in ("00", "04", "08", "0A", "0B", "11", "09") and int(idx, 16) < 12:
            ids = []
        else:
            return None
        return devs(idx, role, ids)
    return None


def expected(cfg):
    """The schema (shrunk, the parts the property lists) a gateway should arrive at for this configuration."""
    out = {}
    if cfg.get("appliance"):
        out["system"] = {"appliance_control": cfg["appliance"]}
    dhw = cfg.get("dhw", {})
    hw = {k2: dhw[k] for k, k2 in (("sensor", "sensor"), ("dhw_valve", "hotwater_valve"), ("htg_valve", "heating_valve")) if dhw.get(k)}
    if hw:
        out["stored_hotwater"] = hw
    zs = {}
    for i, z in cfg["zones"].items():
        e = {"class": z["class"]}
        if z.get("sensor"):
            e["sensor"] = z["sensor"]
        if z["actuators"]:
            e["actuators"] = sorted(z["actuators"])
        zs[i] = e
    if zs:
        out["zones"] = zs
    return out


def observed(gwy):
    """The same parts of the gateway's (shrunk) schema."""
    from ramses_rf.helpers import shrink  # noqa: PLC0415

    sch = shrink(gwy.schema).get(CTL, {})
    out = {}
    if (sch.get("system") or {}).get("appliance_control"):
        out["system"] = {"appliance_control": sch["system"]["appliance_control"]}
    if sch.get("stored_hotwater"):
        out["stored_hotwater"] = sch["stored_hotwater"]
    zs = {}
    for i, z in (sch.get("zones") or {}).items():
        e = {k: z[k] for k in ("class", "sensor") if z.get(k)}
        if z.get("actuators"):
            e["actuators"] = sorted(z["actuators"])
        zs[i] = e
    if zs:
        out["zones"] = zs
    return out


# ---- the whole gateway with discovery enabled, on a virtual loop ---------------------------------
class VDT(_dt.datetime):
    _loop = None
    _tick = 0

    @classmethod
    def now(cls, tz=None):
        cls._tick += 1
        return EPOCH + _dt.timedelta(seconds=cls._loop.time(), microseconds=cls._tick)


def run_discovery(cfg, lose, hours, probe_hours=(), first_sync=None):
    """Start a Gateway (discovery enabled, no schema) against the scripted controller; returns observations.

    first_sync=None: the controller's id is handed to the gateway (an otherwise empty schema entry).  first_sync=t: NOTHING is: the gateway learns
    of the controller from its periodic sync announcement (I|1F09), first heard t seconds after the port opened -- the transport reports its
    connection 50 ms after opening (as the serial transport does once the gateway has answered), so t < 0.05 falls INSIDE Gateway.start().

    lose(n, t, code, payload) -> "rq" (request lost: no echo of a reply), "rp" (reply lost) or None."""
    import ramses_rf.entity_base as eb  # noqa: PLC0415
    import ramses_rf.system.heat as heat  # noqa: PLC0415
    import ramses_tx.gateway as txgw  # noqa: PLC0415
    import ramses_tx.protocol_fsm as fsm  # noqa: PLC0415
    from ramses_rf import Gateway  # noqa: PLC0415
    from ramses_tx.transport import _FullTransport  # noqa: PLC0415

    loop = VLoop()
    asyncio.set_event_loop(loop)
    VDT._loop, VDT._tick = loop, 0

    class _Abs:
        def __init__(self, name, protocol, loop=None):
            self._protocol = protocol
            self._loop = loop or asyncio.get_event_loop()

    class MemTransport(_FullTransport, _Abs):
        def __init__(self, name, protocol, **kw):
            super().__init__(name, protocol, **kw)
            self.writes = []
            self._extra["active_gwy"] = HGI
            if first_sync is None:
                self._loop.call_soon(lambda: self._make_connection(HGI))
            else:
                self._loop.call_later(0.05, lambda: self._make_connection(HGI))
                self._loop.call_later(first_sync, self.sync)

        def sync(self):
            self.rx(f"045  I --- {CTL} --:------ {CTL} 1F09 003 FF073F")
            self._loop.call_later(185.5, self.sync)

        def _dt_now(self):
            return VDT.now()

        async def write_frame(self, frame, disable_tx_limits=False):
            n = len(self.writes)
            f = frame.split()
            verb, dst, code, pl = f[0], f[3], f[5], f[7]
            self.writes.append((self._loop.time(), verb, dst, code, pl))
            lost = lose(n, self._loop.time(), code, pl) if lose else None
            if lost == "rq":       # the frame never reaches the air: no echo, no reply
                return
            echo = frame.replace("18:000730", HGI)
            self._loop.call_later(0.01, self.rx, "000 " + echo)
            if verb != "RQ" or dst != CTL:
                return
            if lost:
                return
            rp = reply(cfg, code, pl)
            if rp is not None:
                self._loop.call_later(0.03, self.rx, f"045 RP --- {CTL} {HGI} --:------ {code} {len(rp) // 2:03d} {rp}")

        def rx(self, line):
            self._frame_read(VDT.now().isoformat(timespec="microseconds"), line)

    saved = (eb.dt, heat.dt, fsm.dt, txgw.transport_factory)
    holder, errs, obs = {}, [], {}

    async def factory(protocol, **kw):
        t = MemTransport("mem", protocol, disable_sending=False, loop=kw.get("loop"))
        holder["t"] = t
        await protocol.wait_for_connection_made(timeout=3)
        return t

    async def main():
        loop.set_exception_handler(lambda lp, c: errs.append((round(loop.time(), 2), repr(c.get("exception"))[:120])))
        gwy = Gateway("/dev/mem", config={"disable_discovery": False, "enforce_known_list": False}, **({CTL: {}} if first_sync is None else {}))
        await gwy.start()
        t = 0.0
        snaps = []
        for h in sorted(set(probe_hours) | {hours}):
            await asyncio.sleep(h * 3600 - t)
            t = h * 3600
            snaps.append((h, observed(gwy)))
        obs["snaps"] = snaps
        dead = []           # an entity whose discovery poller has ended (it is an endless loop) never asks again
        ents = list(gwy.devices)
        for tcs in gwy.systems:
            ents += [tcs] + list(tcs.zones) + ([tcs.dhw] if tcs.dhw else [])
        for e in ents:
            t = getattr(e, "_discovery_poller", None)
            if t is not None and t.done() and not t.cancelled() and t.exception() is not None:
                dead.append((str(getattr(e, "id", e)), type(t.exception()).__name__, str(t.exception())[:100]))
        obs["dead_pollers"] = dead
        await gwy.stop()

    eb.dt = heat.dt = fsm.dt = VDT
    txgw.transport_factory = factory
    try:
        loop.run_until_complete(main())
    finally:
        eb.dt, heat.dt, fsm.dt, txgw.transport_factory = saved
        asyncio.set_event_loop(None)
        loop.close()
    obs["writes"] = holder["t"].writes if "t" in holder else []
    obs["errs"] = errs
    return obs
