(* P_LockWaiters: whatever the interleaving, and whenever transfers end, the lock is held exactly by the one transfer that is holding, and every
   fragment is exchanged under its own zone's lock. *)
From Coq Require Import List Bool Arith Lia.
From RV Require Import M_LockWaiters.
Import ListNotations.

Definition Inv (s : sys) : Prop :=
  (forall z, lock s = Some z -> ts s z = THolding) /\
  (forall z, ts s z = THolding -> lock s = Some z) /\
  Forall (fun p => snd p = Some (fst p)) (exch s).

Lemma upd_same f z v : upd f z v z = v.
Proof. unfold upd. rewrite Nat.eqb_refl. reflexivity. Qed.
Lemma upd_other f z v k : k <> z -> upd f z v k = f k.
Proof. unfold upd. intros H. apply Nat.eqb_neq in H. rewrite H. reflexivity. Qed.

Lemma Inv_init : Inv init.
Proof. unfold Inv, init. cbn. split; [discriminate|split; [discriminate|constructor]]. Qed.

Theorem step_inv s e : Inv s -> Inv (step false s e).
Proof.
  intros I0. pose proof I0 as (A & B & C). destruct e as [z|z|z|z]; cbn [step].
  - destruct (ts s z) eqn:T; try exact I0.
    + unfold Inv. cbn. split; [|split; [|exact C]].
      * intros k Hk. destruct (Nat.eq_dec k z) as [->|N]; [rewrite (A z Hk) in T; discriminate|rewrite upd_other by exact N; apply A, Hk].
      * intros k Hk. destruct (Nat.eq_dec k z) as [->|N]; [rewrite upd_same in Hk; discriminate|rewrite upd_other in Hk by exact N; apply B, Hk].
    + unfold Inv. cbn. split; [|split; [|exact C]].
      * intros k Hk. destruct (Nat.eq_dec k z) as [->|N]; [rewrite (A z Hk) in T; discriminate|rewrite upd_other by exact N; apply A, Hk].
      * intros k Hk. destruct (Nat.eq_dec k z) as [->|N]; [rewrite upd_same in Hk; discriminate|rewrite upd_other in Hk by exact N; apply B, Hk].
  - destruct (ts s z) eqn:T; try exact I0.
    destruct (lock s) as [h|] eqn:L; [exact I0|].
    unfold Inv. cbn. split; [|split; [|exact C]].
    + intros k [= <-]. apply upd_same.
    + intros k Hk. destruct (Nat.eq_dec k z) as [->|N]; [reflexivity|]. rewrite upd_other in Hk by exact N. specialize (B k Hk). discriminate.
  - destruct (ts s z) eqn:T; try exact I0.
    unfold Inv. cbn. split; [exact A|split; [exact B|]]. apply Forall_app. split; [exact C|]. constructor; [|constructor]. cbn. apply B, T.
  - destruct (ts s z) eqn:T; try exact I0.
    + (* a waiter ends: the lock stays with whoever holds it *)
      unfold Inv. cbn. split; [|split; [|exact C]].
      * intros k Hk. destruct (Nat.eq_dec k z) as [->|N]; [rewrite (A z Hk) in T; discriminate|rewrite upd_other by exact N; apply A, Hk].
      * intros k Hk. destruct (Nat.eq_dec k z) as [->|N]; [rewrite upd_same in Hk; discriminate|rewrite upd_other in Hk by exact N; apply B, Hk].
    + (* the holder ends: the lock is free and nobody holds *)
      unfold Inv. cbn. split; [discriminate|split; [|exact C]].
      intros k Hk. destruct (Nat.eq_dec k z) as [->|N]; [rewrite upd_same in Hk; discriminate|].
      rewrite upd_other in Hk by exact N. pose proof (B k Hk) as E1. pose proof (B z T) as E2. congruence.
Qed.

Theorem run_inv es : forall s, Inv s -> Inv (run false s es).
Proof. induction es as [|e es IH]; intros s I; [exact I|]. cbn. apply IH, step_inv, I. Qed.

(* EVERY interleaving of starts, polls, exchanges and ends (completions, failures, callers giving up -- waiting or holding): every fragment was
   exchanged while the lock was held by its own zone, and at most one transfer holds at a time *)
Theorem exchanges_under_own_lock es z h :
  In (z, h) (exch (run false init es)) -> h = Some z.
Proof.
  intros H. destruct (run_inv es init Inv_init) as (_ & _ & C). rewrite Forall_forall in C. exact (C (z, h) H).
Qed.

Theorem one_holder es z z' :
  ts (run false init es) z = THolding -> ts (run false init es) z' = THolding -> z = z'.
Proof.
  intros H H'. destruct (run_inv es init Inv_init) as (_ & B & _). pose proof (B z H) as E. pose proof (B z' H') as E'. congruence.
Qed.

(* a waiter that ends changes nothing for the others: the lock and every other transfer are as they were *)
Theorem waiter_ending_releases_nothing s z :
  ts s z = TWaiting -> lock (step false s (EEnd z)) = lock s /\ forall k, k <> z -> ts (step false s (EEnd z)) k = ts s k.
Proof. intros T. cbn. rewrite T. cbn. split; [reflexivity|]. intros k N. apply upd_other, N. Qed.

(* the slip (the lock obtained inside the try): zone 0 transfers, zone 1 queues behind it and gives up, zone 2 -- waiting too -- gets the lock at
   once, and zone 0's next fragment is exchanged under zone 2's lock *)
Definition slip_events : list ev := [EStart 0; EPoll 0; EExchange 0; EStart 1; EStart 2; EPoll 1; EPoll 2; EEnd 1; EPoll 2; EExchange 0; EExchange 2].
Theorem lock_inside_try_refuted :
  exch (run true init slip_events) = [(0, Some 0); (0, Some 2); (2, Some 2)] /\
  exch (run false init slip_events) = [(0, Some 0); (0, Some 0)].
Proof. split; vm_compute; reflexivity. Qed.

(* non-vacuity: a run in which three zones' transfers all hold the lock in turn *)
Example three_in_turn :
  exch (run false init [EStart 0; EStart 1; EStart 2; EPoll 1; EPoll 0; EExchange 1; EEnd 2; EEnd 1; EPoll 0; EExchange 0; EEnd 0])
  = [(1, Some 1); (0, Some 0)].
Proof. vm_compute. reflexivity. Qed.
