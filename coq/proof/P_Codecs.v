(* P_Codecs: proofs about M_Codecs (C04).  Finite-domain statements are decided by a
   kernel-checked exhaustive computation (vm_compute of a forallb over the whole domain,
   lifted with forallb_forall; the bound is part of each statement).  Date/id statements
   are general (lia over div/mod). *)
From Coq Require Import ZArith Ascii String List Bool Lia ZifyBool PrimFloat.
From RV Require Import Py PyStr PyFloat M_Codecs.
Import ListNotations.
Open Scope Z_scope.
Ltac Zify.zify_post_hook ::= Z.to_euclidean_division_equations.

Definition words16 : list Z := zrange (Z.to_nat 65536) 0.
Definition bytes8 : list Z := zrange (Z.to_nat 256) 0.

Lemma in_words16 w : 0 <= w < 65536 -> In w words16.
Proof. intros H. apply in_zrange. rewrite Z2Nat.id; lia. Qed.
Lemma in_bytes8 w : 0 <= w < 256 -> In w bytes8.
Proof. intros H. apply in_zrange. rewrite Z2Nat.id; lia. Qed.

(* ------------------------------------------------------------------ temperatures *)
Definition signed16 (w : Z) : Z := if w <? 2 ^ 15 then w else w - 2 ^ 16.

Definition temp_ok (w : Z) : bool :=
  match hex_to_temp w with
  | Ok (TNum v) =>
      match hex_from_temp_num v with Ok w' => w' =? w | Raise _ => false end
      && f_same v (fdiv (f_of_Z (signed16 w)) (f_of_Z 100))
  | Ok TNone => (w =? 0x31FF) || (w =? 0x7FFF)
  | Ok TFalse => w =? 0x7EFF
  | Raise _ => signed16 w <? -27315
  end.

Lemma temp_all_words : forallb temp_ok words16 = true.
Proof. vm_compute. reflexivity. Qed.

Lemma temp_decode_encode w v :
  0 <= w < 65536 -> hex_to_temp w = Ok (TNum v) -> hex_from_temp_num v = Ok w.
Proof.
  intros Hw Hd. pose proof (proj1 (forallb_forall _ _) temp_all_words w (in_words16 w Hw)) as H.
  unfold temp_ok in H. rewrite Hd in H. apply andb_true_iff in H as [H _].
  destruct (hex_from_temp_num v) as [w'|]; [|discriminate]. f_equal. lia.
Qed.

(* every grid temperature k/100 that is neither below -273.15 nor one of the three
   sentinel words encodes to its own word and decodes back to the same binary64 *)
Lemma temp_encode_decode k :
  -27315 <= k < 32768 -> k <> 0x31FF -> k <> 0x7EFF -> k <> 0x7FFF ->
  let v := fdiv (f_of_Z k) (f_of_Z 100) in
  let w := k mod 65536 in
  hex_from_temp_num v = Ok w /\ exists v', hex_to_temp w = Ok (TNum v') /\ f_same v' v = true.
Proof.
  intros Hk H1 H2 H3 v w.
  assert (Hw : 0 <= w < 65536) by (subst w; lia).
  assert (Hs : signed16 w = k) by (subst w; unfold signed16; destruct (k mod 65536 <? 2 ^ 15) eqn:Ew; lia).
  pose proof (proj1 (forallb_forall _ _) temp_all_words w (in_words16 w Hw)) as H.
  unfold temp_ok in H.
  destruct (hex_to_temp w) as [[| |v']|] eqn:E.
  - exfalso. unfold signed16 in Hs. destruct (w <? 2 ^ 15) eqn:Ew; lia.
  - exfalso. unfold signed16 in Hs. destruct (w <? 2 ^ 15) eqn:Ew; lia.
  - apply andb_true_iff in H as [Ha Hb]. rewrite Hs in Hb.
    assert (Ev : hex_from_temp_num v' = Ok w)
      by (destruct (hex_from_temp_num v') as [w'|]; [f_equal; lia|discriminate]).
    split; [|exists v'; split; [reflexivity|exact Hb]].
    (* v' and v are the same float: both are the same division *)
    unfold hex_to_temp in E.
    destruct (w =? 0x31FF); [discriminate|]. destruct (w =? 0x7EFF); [discriminate|].
    destruct (w =? 0x7FFF); [discriminate|].
    fold (signed16 w) in E. rewrite Hs in E. fold v in E.
    destruct (fltb v _); [discriminate|]. injection E as <-. exact Ev.
  - exfalso. rewrite Hs in H. lia.
Qed.

Lemma temp_sentinels :
  hex_to_temp 0x7FFF = Ok TNone /\ hex_to_temp 0x31FF = Ok TNone /\ hex_to_temp 0x7EFF = Ok TFalse /\
  hex_from_temp TNone = Ok 0x7FFF /\ hex_from_temp TFalse = Ok 0x7EFF.
Proof. repeat split; reflexivity. Qed.

(* no silent wrap -- for EVERY binary64 v (not a finite sweep): if the encoder returns a
   word, that word's signed value is exactly round(v*100); otherwise it raises *)
Lemma temp_no_silent_wrap v w :
  hex_from_temp_num v = Ok w ->
  0 <= w < 65536 /\ round_to_Z (fmul v (f_of_Z 100)) = Some (signed16 w).
Proof.
  unfold hex_from_temp_num, signed16. destruct (round_to_Z _) as [t|]; [|discriminate].
  destruct ((- 2 ^ 15 <=? t) && (t <? 2 ^ 15)) eqn:E; [|discriminate].
  intros Hw. assert (Hw' : w = if 0 <=? t then t else t + 2 ^ 16) by congruence. clear Hw. subst w.
  destruct (0 <=? t) eqn:E0.
  - split; [lia|]. destruct (t <? 2 ^ 15) eqn:E1; [reflexivity|lia].
  - split; [lia|]. destruct (t + 2 ^ 16 <? 2 ^ 15) eqn:E1; [lia|f_equal; lia].
Qed.

(* what was wrong before the repair (int(v*100), no range check): witness 0x001D *)
Lemma temp_trunc_refuted :
  exists w v, 0 <= w < 65536 /\ hex_to_temp w = Ok (TNum v) /\ hex_from_temp_trunc v <> Ok w.
Proof. exists 0x001D. eexists. split; [lia|]. split; [vm_compute; reflexivity|]. vm_compute. discriminate. Qed.

(* ------------------------------------------------------------------ percentages *)
Definition pct_ok (hr : bool) (b : Z) : bool :=
  match hex_to_percent b hr with
  | Ok (Some v) => match hex_from_percent (Some v) hr with Ok b' => b' =? b | Raise _ => false end
  | Ok None => (b =? 0xEF) || (0xF0 <=? b)
  | Raise _ => pct_den hr <? b
  end.

Lemma pct_all_bytes : forallb (pct_ok true) bytes8 = true /\ forallb (pct_ok false) bytes8 = true.
Proof. split; vm_compute; reflexivity. Qed.

Lemma percent_decode_encode hr b v :
  0 <= b < 256 -> hex_to_percent b hr = Ok (Some v) -> hex_from_percent (Some v) hr = Ok b.
Proof.
  intros Hb Hd.
  assert (H : pct_ok hr b = true).
  { destruct hr; [apply (proj1 (forallb_forall _ _) (proj1 pct_all_bytes))
                 |apply (proj1 (forallb_forall _ _) (proj2 pct_all_bytes))]; apply in_bytes8; exact Hb. }
  unfold pct_ok in H. rewrite Hd in H.
  destruct (hex_from_percent (Some v) hr) as [b'|]; [f_equal; lia|discriminate].
Qed.

Lemma percent_sentinel hr : hex_to_percent (0xEF) hr = Ok None /\ hex_from_percent None hr = Ok 0xEF.
Proof. split; reflexivity. Qed.

(* for EVERY float: an accepted value is encoded as its rounded multiple, in 0..200 *)
Lemma percent_no_silent_wrap hr v b :
  hex_from_percent (Some v) hr = Ok b ->
  round_to_Z (fmul v (f_of_Z (pct_den hr))) = Some b /\ fleb 0%float v = true /\ fleb v 1%float = true.
Proof.
  unfold hex_from_percent. destruct (fleb 0 v && fleb v 1) eqn:E; [|discriminate].
  apply andb_true_iff in E as [E1 E2].
  destruct (round_to_Z _) as [r|]; [|discriminate]. intros [= <-]. repeat split; assumption.
Qed.

(* ------------------------------------------------------------------ doubles *)
Definition dbl_ok (factor w : Z) : bool :=
  match hex_to_double w factor with
  | Some v => match hex_from_double (Some v) factor with Ok w' => w' =? w | Raise _ => false end
  | None => w =? 0x7FFF
  end.

Lemma dbl_all_words :
  forallb (dbl_ok 1) words16 = true /\ forallb (dbl_ok 10) words16 = true /\ forallb (dbl_ok 100) words16 = true.
Proof. split; [|split]; vm_compute; reflexivity. Qed.

Lemma double_decode_encode factor w v :
  factor = 1 \/ factor = 10 \/ factor = 100 ->
  0 <= w < 65536 -> hex_to_double w factor = Some v -> hex_from_double (Some v) factor = Ok w.
Proof.
  intros Hf Hw Hd.
  assert (H : dbl_ok factor w = true).
  { destruct dbl_all_words as [H1 [H2 H3]].
    destruct Hf as [-> | [-> | ->]];
      [apply (proj1 (forallb_forall _ _) H1)|apply (proj1 (forallb_forall _ _) H2)
      |apply (proj1 (forallb_forall _ _) H3)]; apply in_words16; exact Hw. }
  unfold dbl_ok in H. rewrite Hd in H.
  destruct (hex_from_double (Some v) factor) as [w'|]; [f_equal; lia|discriminate].
Qed.

(* ------------------------------------------------------------------ booleans *)
Lemma bool_roundtrip v : hex_to_bool (hex_from_bool v) = Ok v.
Proof. destruct v as [[|]|]; reflexivity. Qed.
Lemma bool_decode_encode b v : hex_to_bool b = Ok v -> hex_from_bool v = b.
Proof.
  unfold hex_to_bool. destruct (b =? 0xFF) eqn:E1; [intros [= <-]; cbn; lia|].
  destruct (b =? 0) eqn:E2; [intros [= <-]; cbn; lia|].
  destruct (b =? 0xC8) eqn:E3; [intros [= <-]; cbn; lia|discriminate].
Qed.

(* ------------------------------------------------------------------ flag8 *)
Definition flag_ok (lsb : bool) (b : Z) : bool :=
  match hex_from_flag8 (hex_to_flag8 b lsb) lsb with Ok b' => b' =? b | Raise _ => false end
  && forallb (fun x => (x =? 0) || (x =? 1)) (hex_to_flag8 b lsb).

Lemma flag_all_bytes : forallb (flag_ok true) bytes8 = true /\ forallb (flag_ok false) bytes8 = true.
Proof. split; vm_compute; reflexivity. Qed.

Lemma flag8_decode_encode lsb b : 0 <= b < 256 -> hex_from_flag8 (hex_to_flag8 b lsb) lsb = Ok b.
Proof.
  intros Hb.
  assert (H : flag_ok lsb b = true).
  { destruct lsb; [apply (proj1 (forallb_forall _ _) (proj1 flag_all_bytes))
                  |apply (proj1 (forallb_forall _ _) (proj2 flag_all_bytes))]; apply in_bytes8; exact Hb. }
  unfold flag_ok in H. apply andb_true_iff in H as [H _].
  destruct (hex_from_flag8 _ lsb) as [b'|]; [f_equal; lia|discriminate].
Qed.

(* all 256 lists of 8 bits *)
Fixpoint bitlists (n : nat) : list (list Z) :=
  match n with O => [[]] | S n' => flat_map (fun l => [0 :: l; 1 :: l]) (bitlists n') end.

Definition list_Z_eqb (a b : list Z) : bool := if list_eq_dec Z.eq_dec a b then true else false.

Definition flags_ok (lsb : bool) (l : list Z) : bool :=
  match hex_from_flag8 l lsb with
  | Ok b => list_Z_eqb (hex_to_flag8 b lsb) l && (0 <=? b) && (b <? 256)
  | Raise _ => false
  end.

Lemma flag_all_lists : forallb (flags_ok true) (bitlists 8) = true /\ forallb (flags_ok false) (bitlists 8) = true.
Proof. split; vm_compute; reflexivity. Qed.

Lemma in_bitlists n : forall l, length l = n -> Forall (fun x => x = 0 \/ x = 1) l -> In l (bitlists n).
Proof.
  induction n as [|n IH]; intros l Hl Hf.
  - destruct l; [left; reflexivity|discriminate].
  - destruct l as [|x l]; [discriminate|]. injection Hl as Hl. inversion Hf as [|? ? Hx Hf']; subst.
    cbn [bitlists]. apply in_flat_map. exists l. split; [apply IH; auto|].
    destruct Hx as [-> | ->]; [left|right; left]; reflexivity.
Qed.

Lemma flag8_encode_decode lsb l :
  length l = 8%nat -> Forall (fun x => x = 0 \/ x = 1) l ->
  exists b, hex_from_flag8 l lsb = Ok b /\ 0 <= b < 256 /\ hex_to_flag8 b lsb = l.
Proof.
  intros Hl Hf. pose proof (in_bitlists 8 l Hl Hf) as Hin.
  assert (H : flags_ok lsb l = true).
  { destruct lsb; [apply (proj1 (forallb_forall _ _) (proj1 flag_all_lists))
                  |apply (proj1 (forallb_forall _ _) (proj2 flag_all_lists))]; exact Hin. }
  unfold flags_ok in H. destruct (hex_from_flag8 l lsb) as [b|]; [|discriminate].
  apply andb_true_iff in H as [H H3]. apply andb_true_iff in H as [H1 H2].
  exists b. split; [reflexivity|]. split; [lia|].
  unfold list_Z_eqb in H1. destruct (list_eq_dec Z.eq_dec (hex_to_flag8 b lsb) l); [assumption|discriminate].
Qed.

(* ------------------------------------------------------------------ calendar facts *)
Lemma valid_dt_bounds f : valid_dt f = true ->
  1 <= yr f <= 9999 /\ 1 <= mo f <= 12 /\ 1 <= dd f <= 31 /\ 0 <= hh f < 24 /\ 0 <= mi f < 60 /\ 0 <= ss f < 60.
Proof.
  unfold valid_dt. intros H.
  assert (Hd : dd f <= days_in_month (yr f) (mo f)) by lia.
  assert (days_in_month (yr f) (mo f) <= 31).
  { unfold days_in_month. destruct (mo f =? 2); [destruct (is_leap (yr f)); lia|].
    destruct ((mo f =? 4) || (mo f =? 6) || (mo f =? 9) || (mo f =? 11)); lia. }
  lia.
Qed.

(* ------------------------------------------------------------------ packed timestamps *)
Lemma dts_roundtrip f :
  valid_dt f = true -> 1 <= yr f <= 99 -> hex_to_dts (hex_from_dts (Some f)) = Ok (Some f).
Proof.
  intros Hv Hy. pose proof (valid_dt_bounds f Hv) as B.
  unfold hex_to_dts, hex_from_dts.
  destruct f as [y m d h n s]. cbn [yr mo dd hh mi ss] in *.
  set (v := (y mod 100) * 2 ^ 24 + m * 2 ^ 36 + d * 2 ^ 31 + h * 2 ^ 19 + n * 2 ^ 13 + s * 2 ^ 7).
  assert (E0 : (v =? 0x7F) = false) by (subst v; lia).
  assert (E1 : (v / 2 ^ 24) mod 2 ^ 7 = y) by (subst v; lia).
  assert (E2 : (v / 2 ^ 36) mod 2 ^ 4 = m) by (subst v; lia).
  assert (E3 : (v / 2 ^ 31) mod 2 ^ 5 = d) by (subst v; lia).
  assert (E4 : (v / 2 ^ 19) mod 2 ^ 5 = h) by (subst v; lia).
  assert (E5 : (v / 2 ^ 13) mod 2 ^ 6 = n) by (subst v; lia).
  assert (E6 : (v / 2 ^ 7) mod 2 ^ 6 = s) by (subst v; lia).
  rewrite E0, E1, E2, E3, E4, E5, E6, Hv. reflexivity.
Qed.

Lemma dts_sentinel : hex_to_dts (hex_from_dts None) = Ok None.
Proof. reflexivity. Qed.

(* every 48-bit word that uses only the assigned bit fields and decodes re-encodes to itself *)
Definition dts_grid (v : Z) : Prop := v mod 2 ^ 7 = 0 /\ 0 <= v < 2 ^ 40.
Lemma dts_decode_encode v f :
  dts_grid v -> hex_to_dts v = Ok (Some f) -> yr f <= 99 -> hex_from_dts (Some f) = v.
Proof.
  intros [G1 G2]. unfold hex_to_dts. destruct (v =? 0x7F); [discriminate|].
  destruct (valid_dt _) eqn:Hv; [|discriminate]. intros [= <-]. cbn [yr mo dd hh mi ss].
  intros Hy. unfold hex_from_dts. cbn [yr mo dd hh mi ss]. lia.
Qed.

(* ------------------------------------------------------------------ date-times *)
Lemma land_small a m k : 0 <= a < 2 ^ k -> m = 2 ^ k - 1 -> 0 <= k -> Z.land a m = a.
Proof. intros Ha -> Hk. replace (2 ^ k - 1) with (Z.ones k) by (rewrite Z.ones_equiv; lia).
       rewrite Z.land_ones by lia. apply Z.mod_small; lia. Qed.

Lemma lor_dst s : 0 <= s < 60 -> Z.lor s 0x80 = s + 128 /\ Z.land (s + 128) 0x7F = s.
Proof.
  intros H.
  assert (Hs : In s (zrange 60 0)) by (apply in_zrange; lia).
  assert (A : forallb (fun s => (Z.lor s 0x80 =? s + 128) && (Z.land (s + 128) 0x7F =? s)) (zrange 60 0) = true)
    by (vm_compute; reflexivity).
  pose proof (proj1 (forallb_forall _ _) A s Hs) as B. cbv beta in B. lia.
Qed.

Lemma dtm_roundtrip f dst :
  valid_dt f = true ->
  hex_to_dtm (hex_from_dtm (Some f) dst true) = Ok (Some f).
Proof.
  intros Hv. pose proof (valid_dt_bounds f Hv) as B.
  unfold hex_to_dtm, hex_from_dtm.
  destruct f as [y m d h n s]. cbn [yr mo dd hh mi ss] in *.
  set (s' := if dst then Z.lor s 0x80 else s).
  assert (Hs' : 0 <= s' < 256 /\ Z.land s' 0x7F = s).
  { subst s'. destruct dst.
    - destruct (lor_dst s ltac:(lia)) as [-> ->]. lia.
    - split; [lia|]. apply (land_small s 0x7F 7); lia. }
  destruct Hs' as [Hs1 Hs2].
  set (v := s' * 2 ^ 48 + (n * 2 ^ 40 + h * 2 ^ 32 + d * 2 ^ 24 + m * 2 ^ 16 + y)).
  assert (E0 : (v mod 2 ^ 48 =? 2 ^ 48 - 1) = false) by (subst v; lia).
  assert (E1 : v mod 2 ^ 16 = y) by (subst v; lia).
  assert (E2 : (v / 2 ^ 16) mod 2 ^ 8 = m) by (subst v; lia).
  assert (E3 : (v / 2 ^ 24) mod 2 ^ 8 = d) by (subst v; lia).
  assert (E4 : (v / 2 ^ 32) mod 2 ^ 8 = h) by (subst v; lia).
  assert (E5 : (v / 2 ^ 40) mod 2 ^ 8 = n) by (subst v; lia).
  assert (E6 : (v / 2 ^ 48) mod 2 ^ 8 = s') by (subst v; lia).
  rewrite E0, E1, E2, E3, E4, E5, E6, Hs2.
  rewrite (land_small h 0x1F 5) by lia. rewrite Hv. reflexivity.
Qed.

(* without seconds the 12-char form decodes to the same date-time at second 0 *)
Lemma dtm_roundtrip_no_seconds f dst :
  valid_dt f = true ->
  hex_to_dtm (hex_from_dtm (Some f) dst false) =
  Ok (Some {| yr := yr f; mo := mo f; dd := dd f; hh := hh f; mi := mi f; ss := 0 |}).
Proof.
  intros Hv. pose proof (valid_dt_bounds f Hv) as B.
  unfold hex_to_dtm, hex_from_dtm.
  destruct f as [y m d h n s]. cbn [yr mo dd hh mi ss] in *.
  set (v := n * 2 ^ 40 + h * 2 ^ 32 + d * 2 ^ 24 + m * 2 ^ 16 + y).
  assert (E0 : (v mod 2 ^ 48 =? 2 ^ 48 - 1) = false) by (subst v; lia).
  assert (E1 : v mod 2 ^ 16 = y) by (subst v; lia).
  assert (E2 : (v / 2 ^ 16) mod 2 ^ 8 = m) by (subst v; lia).
  assert (E3 : (v / 2 ^ 24) mod 2 ^ 8 = d) by (subst v; lia).
  assert (E4 : (v / 2 ^ 32) mod 2 ^ 8 = h) by (subst v; lia).
  assert (E5 : (v / 2 ^ 40) mod 2 ^ 8 = n) by (subst v; lia).
  assert (E6 : (v / 2 ^ 48) mod 2 ^ 8 = 0) by (subst v; lia).
  rewrite E0, E1, E2, E3, E4, E5, E6.
  rewrite (land_small h 0x1F 5) by lia. change (Z.land 0 0x7F) with 0.
  assert (Hv' : valid_dt {| yr := y; mo := m; dd := d; hh := h; mi := n; ss := 0 |} = true).
  { unfold valid_dt in *. cbn [yr mo dd hh mi ss] in *. lia. }
  rewrite Hv'. reflexivity.
Qed.

Lemma dtm_sentinel : hex_to_dtm (hex_from_dtm None false true) = Ok None /\
                     hex_to_dtm (hex_from_dtm None false false) = Ok None.
Proof. split; reflexivity. Qed.

(* ------------------------------------------------------------------ device ids *)
Lemma land_FC0000 h : 0 <= h < 2 ^ 24 -> Z.land h 0xFC0000 = (h / 2 ^ 18) * 2 ^ 18.
Proof.
  intros H. change 0xFC0000 with (Z.shiftl (Z.ones 6) 18).
  apply Z.bits_inj'. intros n Hn.
  rewrite Z.land_spec, Z.shiftl_spec by lia.
  destruct (Z.ltb_spec n 18) as [L|L].
  - rewrite (Z.testbit_neg_r _ (n - 18)) by lia. rewrite andb_false_r.
    rewrite Z.mul_pow2_bits_low by lia. reflexivity.
  - rewrite Z.mul_pow2_bits by lia. rewrite Z.div_pow2_bits by lia.
    replace (n - 18 + 18) with n by lia.
    destruct (Z.ltb_spec n 24) as [L2|L2].
    + rewrite Z.ones_spec_low by lia. apply andb_true_r.
    + rewrite Z.ones_spec_high by lia. rewrite andb_false_r.
      symmetry. apply Z.bits_above_log2; [lia|].
      destruct (Z.eq_dec h 0) as [->|Hz]; [simpl; lia|].
      apply Z.log2_lt_pow2; [lia|]. apply Z.lt_le_trans with (2 ^ 24); [lia|].
      apply Z.pow_le_mono_r; lia.
Qed.

Lemma id_split h : 0 <= h < 2 ^ 24 ->
  hex_id_to_dev_id h = (h / 2 ^ 18, h mod 2 ^ 18).
Proof.
  intros H. unfold hex_id_to_dev_id. rewrite land_FC0000 by exact H.
  change 0x03FFFF with (Z.ones 18). rewrite Z.land_ones by lia.
  f_equal. rewrite Z.div_mul; lia.
Qed.

Lemma id_hex_dev_hex h : 0 <= h < 2 ^ 24 -> dev_id_to_hex_id (hex_id_to_dev_id h) = h.
Proof. intros H. rewrite id_split by exact H. unfold dev_id_to_hex_id. cbn [fst snd]. lia. Qed.

Lemma id_dev_hex_dev t n : 0 <= t <= 63 -> 0 <= n < 2 ^ 18 ->
  hex_id_to_dev_id (dev_id_to_hex_id (t, n)) = (t, n) /\ 0 <= dev_id_to_hex_id (t, n) < 2 ^ 24.
Proof.
  intros Ht Hn. unfold dev_id_to_hex_id. cbn [fst snd].
  assert (R : 0 <= t * 2 ^ 18 + n < 2 ^ 24) by lia. split; [|exact R].
  rewrite id_split by exact R. f_equal; lia.
Qed.

Lemma id_fields_in_range h : 0 <= h < 2 ^ 24 ->
  0 <= fst (hex_id_to_dev_id h) <= 63 /\ 0 <= snd (hex_id_to_dev_id h) < 2 ^ 18.
Proof. intros H. rewrite id_split by exact H. cbn [fst snd]. lia. Qed.

(* text layer: "tt:nnnnnn" parses back to (t, n) *)
Lemma dev_id_parse_text t n : 0 <= t < 100 -> 0 <= n < 10 ^ 6 ->
  dev_id_parse (dev_id_text (t, n)) = Some (t, n) /\ length (dev_id_text (t, n)) = 9%nat.
Proof.
  intros Ht Hn. unfold dev_id_parse, dev_id_text. cbn [fst snd].
  split.
  - rewrite slice_mid0 by apply decN_length.
    rewrite int10_decN by lia.
    rewrite app_assoc.
    rewrite (slice_mid_end (decN 2 t ++ lit ":") (decN 6 n) 3 9)
      by (rewrite ?app_length, ?decN_length; reflexivity).
    rewrite int10_decN by lia. reflexivity.
  - rewrite !app_length, !decN_length. reflexivity.
Qed.

(* the whole 24-bit space, through the text: hex -> id text -> hex is the identity *)
Lemma id_text_hex_roundtrip hx :
  length hx = 6%nat -> forallb is_hex_upper hx = true ->
  exists id, hex_id_to_dev_id_s hx = Ok id /\ dev_id_to_hex_id_s id = Ok hx.
Proof.
  intros L Hh. unfold hex_id_to_dev_id_s.
  destruct (str_eqb hx blank6) eqn:Eb.
  { apply str_eqb_eq in Eb. subst hx. discriminate Hh. }
  destruct (int16 hx) as [h|] eqn:Eh.
  2:{ exfalso. unfold int16, parse_base in Eh. destruct hx as [|c hx]; [discriminate L|].
      revert Eh Hh. generalize (c :: hx). intros s.
      assert (G : forall a, forallb is_hex_upper s = true ->
                  fold_left (parse_step 16 hexval) s (Some a) <> None).
      { induction s as [|x s IH]; intros a Hs; cbn [fold_left]; [discriminate|].
        cbn [forallb] in Hs. apply andb_true_iff in Hs as [Hx Hs].
        unfold parse_step at 2. destruct (hexval x) as [d|] eqn:Ex; [apply IH; exact Hs|].
        exfalso. unfold is_hex_upper, hexval in *.
        destruct ((48 <=? Z.of_nat (nat_of_ascii x)) && (Z.of_nat (nat_of_ascii x) <=? 57)); [discriminate|].
        destruct ((65 <=? Z.of_nat (nat_of_ascii x)) && (Z.of_nat (nat_of_ascii x) <=? 70)); [discriminate|].
        discriminate. }
      intros E Hs. exact (G 0 Hs E). }
  destruct (hexN_int16 hx h Hh Eh) as [P1 P2]. rewrite L in P1, P2.
  change (16 ^ Z.of_nat 6) with (2 ^ 24) in P2.
  eexists. split; [reflexivity|].
  pose proof (id_fields_in_range h P2) as [F1 F2].
  destruct (hex_id_to_dev_id h) as [t n] eqn:Et. cbn [fst snd] in F1, F2.
  destruct (dev_id_parse_text t n ltac:(lia) ltac:(lia)) as [Q1 Q2].
  unfold dev_id_to_hex_id_s. rewrite Q2, Q1. cbn [Nat.eqb negb].
  rewrite <- Et, id_hex_dev_hex by exact P2. rewrite P1. reflexivity.
Qed.

(* ------------------------------------------------------------------ schedule setpoints *)
Definition sp_ok (w : Z) : bool :=
  match sched_pack_setpoint (sched_unpack_setpoint w) with Some w' => w' =? w | None => false end.
Lemma sp_all_words : forallb sp_ok words16 = true.
Proof. vm_compute. reflexivity. Qed.
Lemma sched_setpoint_roundtrip w : 0 <= w < 65536 -> sched_pack_setpoint (sched_unpack_setpoint w) = Some w.
Proof.
  intros Hw. pose proof (proj1 (forallb_forall _ _) sp_all_words w (in_words16 w Hw)) as H.
  unfold sp_ok in H. destruct (sched_pack_setpoint _) as [w'|]; [f_equal; lia|discriminate].
Qed.
