(* P_QosQueue: the send buffer is ordered by (priority, arrival stamp) in every reachable world, stamps are unique, and the command
   that starts next is the first one in that order whose caller has not given up: priority, then first come first served.
   For EVERY event list, tie policy, transport plan and number of steps -- assertion crashes included. *)
From Coq Require Import ZArith List Bool Arith Lia Sorted.
From RV Require Import GenConsts M_Qos P_Qos.
Import ListNotations.
Open Scope Z_scope.

Definition qent := (Z * Z * cid)%type.
Definition qlt (a b : qent) : Prop :=
  let '(p, s, _) := a in let '(p', s', _) := b in p < p' \/ (p = p' /\ s < s').
Definition qstamp (e : qent) : Z := snd (fst e).

(* ordered, and every stamp in the buffer is older than the next one to be handed out *)
Definition qok (q : list qent) (next : Z) : Prop := StronglySorted qlt q /\ Forall (fun e => qstamp e < next) q.
Definition Qinv (w : world) : Prop := qok (que (cx w)) (stamp w).

Lemma insert_q_In e q x : In x (insert_q e q) <-> x = e \/ In x q.
Proof.
  induction q as [|e' q IH]; cbn [insert_q]; [cbn; intuition congruence|].
  destruct e as [[p s] c]. destruct e' as [[p' s'] c'].
  destruct ((p <? p') || ((p =? p') && (s <? s'))); cbn [In]; [intuition congruence|]. rewrite IH. intuition congruence.
Qed.

Lemma insert_q_ok p s c q : qok q s -> qok (insert_q (p, s, c) q) (s + 1).
Proof.
  intros (S & B). split.
  - induction q as [|[[p' s'] c'] q IH]; cbn [insert_q]; [repeat constructor|].
    inversion S as [|? ? S' F']; subst. inversion B as [|? ? B1 B']; subst. unfold qstamp in B1. cbn in B1.
    destruct ((p <? p') || ((p =? p') && (s <? s'))) eqn:E.
    + assert (Hp : p < p').
      { apply orb_prop in E as [E|E]; [apply Z.ltb_lt, E|]. apply andb_prop in E as (_ & E). apply Z.ltb_lt in E. lia. }
      constructor; [exact S|]. constructor; [cbn; lia|].
      rewrite Forall_forall in F' |- *. intros [[px sx] cx] Hx. specialize (F' _ Hx). cbn in *. lia.
    + assert (Hp : p' <= p).
      { apply orb_false_elim in E as (E & _). apply Z.ltb_ge, E. }
      constructor; [apply IH; assumption|].
      rewrite Forall_forall in F' |- *. intros x Hx. apply insert_q_In in Hx as [->|Hx]; [cbn; lia|apply F', Hx].
  - rewrite Forall_forall in B |- *. intros x Hx. apply insert_q_In in Hx as [->|Hx]; [unfold qstamp; cbn; lia|].
    specialize (B _ Hx). lia.
Qed.

Lemma qok_tail e q n : qok (e :: q) n -> qok q n.
Proof. intros (S & B). inversion S; inversion B; subst. split; assumption. Qed.

(* ---- what leaves the buffer and the stamp alone ---- *)
Definition sq (w w' : world) : Prop := que (cx w') = que (cx w) /\ stamp w' = stamp w.
Lemma sq_refl w : sq w w.  Proof. split; reflexivity. Qed.
Lemma sq_trans a b c : sq a b -> sq b c -> sq a c.
Proof. intros [A1 A2] [B1 B2]. split; congruence. Qed.
Lemma Rsat_sq_trans a b r : sq a b -> Rsat (sq b) r -> Rsat (sq a) r.
Proof. destruct r; cbn; apply sq_trans. Qed.
Lemma Rsat_sq_bind w r f : Rsat (sq w) r -> (forall w1, Rsat (sq w1) (f w1)) -> Rsat (sq w) (bind r f).
Proof. destruct r as [w1|n w1]; cbn; intros H F; [eapply Rsat_sq_trans; [exact H|apply F]|exact H]. Qed.
Lemma Rsat_sq_assert b n w : Rsat (sq w) (assert b n w).
Proof. unfold assert. destruct b; cbn; apply sq_refl. Qed.
Lemma Rsat_sq_assert_bind b n w f : (forall w1, Rsat (sq w1) (f w1)) -> Rsat (sq w) (bind (assert b n w) f).
Proof. intros F. apply Rsat_sq_bind; [apply Rsat_sq_assert|exact F]. Qed.
Lemma Qinv_sq w w' : sq w w' -> Qinv w -> Qinv w'.
Proof. unfold Qinv. intros [-> ->]. auto. Qed.

Lemma stamp_resolve w c f : stamp (resolve w c f) = stamp w.
Proof. unfold resolve. destruct (aget CNone c (callers (set_fut w c f))); reflexivity. Qed.
Lemma stamp_cancel_exp w t : stamp (cancel_exp w t) = stamp w.
Proof. unfold cancel_exp. destruct (aget EDone t (exps w)); reflexivity. Qed.
Lemma sq_resolve w c f : sq w (resolve w c f).
Proof. split; [rewrite cx_resolve; reflexivity|apply stamp_resolve]. Qed.

Lemma settle_sq w h : Rsat (sq w) (settle w h).
Proof.
  unfold settle.
  set (w1 := match expiry (cx w) with Some t => set_expiry (cancel_exp w t) None | None => w end).
  assert (E1 : sq w w1).
  { subst w1. destruct (expiry (cx w)) as [t|]; [|apply sq_refl]. split; [unfold set_expiry; cbn; rewrite cx_cancel_exp; reflexivity|apply stamp_cancel_exp]. }
  clearbody w1. eapply Rsat_sq_trans; [exact E1|].
  destruct (curfut (cx w1)) as [f|].
  2:{ apply Rsat_sq_assert_bind. intros. apply Rsat_sq_assert. }
  destruct (fut_of w1 f); destruct h;
    try (apply Rsat_sq_assert);
    try (apply Rsat_sq_assert_bind; intros; apply Rsat_sq_assert);
    try (unfold assert; destruct (negb _); cbn; [|apply sq_refl]; destruct (sending_state _); cbn; [apply sq_resolve|apply sq_refl]).
Qed.

Lemma switch_sq w ns h : Rsat (sq w) (switch w ns h).
Proof.
  unfold switch.
  assert (Fin : forall w2 : world, sq w w2 ->
            Rsat (sq w) (bind (assert (is_sending_ok w2) 13 w2) (fun w3 => Ok (call_soon w3 (CbEffect (is_timed_out h)))))).
  { intros w2 E. unfold assert. destruct (is_sending_ok w2); cbn; exact E. }
  destruct (is_timed_out h).
  - cbn [bind]. apply Fin. split; reflexivity.
  - destruct ns; cbn [bind]; try (apply Fin; split; reflexivity).
    unfold assert at 1. destruct (is_some (cur (cx w))); cbn [bind Rsat]; [apply Fin; split; reflexivity|apply sq_refl].
Qed.

Lemma set_state_sq w ns h : Rsat (sq w) (set_state w ns h).
Proof. unfold set_state. apply Rsat_sq_bind; [apply settle_sq|intros; apply switch_sq]. Qed.

Lemma send_cmd_sq w c r : Rsat (sq w) (send_cmd_ w c r).
Proof.
  unfold send_cmd_. destruct (state (cx w)); try apply set_state_sq.
  - apply Rsat_sq_assert_bind. intros w1. apply Rsat_sq_bind.
    + eapply Rsat_sq_trans; [|apply set_state_sq]. split; reflexivity.
    + intros w2. cbn. split; reflexivity.
  - apply Rsat_sq_assert_bind. intros w1. cbn. split; reflexivity.
Qed.

Section Env.
Variable cmds : cid -> cmdinfo.
Variable plan : nat -> wplan.

Lemma effect_state_sq w b : Rsat (sq w) (effect_state cmds w b).
Proof.
  unfold effect_state. apply Rsat_sq_assert_bind. intros w1. apply Rsat_sq_bind.
  - destruct b; [|apply sq_refl]. destruct (cur (cx w1)); [apply send_cmd_sq|apply sq_refl].
  - intros w2. destruct (state (cx w2)).
    + apply sq_refl.
    + cbn. split; reflexivity.
    + cbn. split; reflexivity.
    + destruct (cur (cx w2)) as [k|]; [|apply sq_refl].
      destruct (negb (wfr (cmds k))); [|cbn; split; reflexivity].
      destruct (echo (cx w2)); apply set_state_sq.
Qed.

Lemma exp_start_sq w t : Rsat (sq w) (exp_start w t).
Proof.
  unfold exp_start. destruct (aget EDone t (exps w)); try apply sq_refl.
  apply Rsat_sq_assert_bind. intros w1. apply Rsat_sq_assert_bind. intros w2. apply Rsat_sq_assert_bind. intros w3.
  cbn. split; reflexivity.
Qed.

Lemma exp_wake_sq w t : Rsat (sq w) (exp_wake w t).
Proof.
  unfold exp_wake. destruct (aget EDone t (exps w)) as [| |old| | |]; try apply sq_refl.
  set (w1 := set_mult (set_exp w t ERunning) (Nat.min MULT_CAP (S old))).
  apply (Rsat_sq_trans w w1); [split; reflexivity|]. clearbody w1.
  apply Rsat_sq_assert_bind. intros w2. apply Rsat_sq_bind.
  - destruct (Nat.ltb (txc (cx w2)) (txl (cx w2))); apply set_state_sq.
  - intros w3. apply Rsat_sq_assert_bind. intros w4. cbn. split; reflexivity.
Qed.

Lemma pkt_rcvd_sq w p : Rsat (sq w) (pkt_rcvd cmds w p).
Proof.
  unfold pkt_rcvd. destruct (state (cx w)).
  - apply Rsat_sq_assert.
  - apply Rsat_sq_assert.
  - destruct (sent (cx w)) as [k|]; [|apply sq_refl].
    destruct (match rx_hdr (cmds k) with Some h => Nat.eqb (p_hdr p) h && p_dst_ok p | None => false end); [apply set_state_sq|].
    destruct (negb (Nat.eqb (p_hdr p) (tx_hdr (cmds k)))); [apply sq_refl|].
    destruct (rx_hdr (cmds k)); (eapply Rsat_sq_trans; [|apply set_state_sq]); split; reflexivity.
  - destruct (sent (cx w)) as [k|]; [|apply sq_refl]. destruct (echo (cx w)) as [e|]; [|apply sq_refl].
    destruct (Nat.eqb (p_hdr p) (tx_hdr (cmds k)) && Nat.eqb (p_src p) (p_src e)); [apply sq_refl|].
    destruct (rx_hdr (cmds k)) as [h|]; [|apply sq_refl].
    destruct (null_ok (cmds k) p || Nat.eqb (p_hdr p) h); [apply set_state_sq|apply sq_refl].
Qed.

Lemma caller_timer_sq w c : Rsat (sq w) (caller_timer w c).
Proof.
  unfold caller_timer. destruct (aget CNone c (callers w)); try apply sq_refl.
  destruct (fut_done (fut_of (set_caller w c CTimedOut) c)); cbn; split; reflexivity.
Qed.

Lemma caller_cancel_sq w c : Rsat (sq w) (caller_cancel w c).
Proof.
  unfold caller_cancel. destruct (aget CNone c (callers w)); try apply sq_refl; try (cbn; split; reflexivity).
  destruct (fut_done (fut_of (set_caller w c CCancelled) c)); cbn; split; reflexivity.
Qed.

Lemma caller_wake_sq w c : Rsat (sq w) (caller_wake w c).
Proof.
  unfold caller_wake. destruct (aget CNone c (callers w)); try apply sq_refl; try (cbn; split; reflexivity).
  - assert (G : Rsat (sq w) (match cur (cx w) with
                         | Some k => if Nat.eqb k c then set_state w Idle HExpired else Ok w
                         | None => Ok w end)).
    { destruct (cur (cx w)) as [k|]; [|apply sq_refl]. destruct (Nat.eqb k c); [apply set_state_sq|apply sq_refl]. }
    destruct (match cur (cx w) with Some k => if Nat.eqb k c then set_state w Idle HExpired else Ok w | None => Ok w end) as [w1|n w1];
      cbn in *; (eapply sq_trans; [exact G|]); split; reflexivity.
Qed.

Lemma conn_sq w : Rsat (sq w) (conn_made w) /\ Rsat (sq w) (conn_lost w).
Proof. unfold conn_made, conn_lost. split; destruct (state (cx w)); try apply sq_refl; apply set_state_sq. Qed.

Lemma do_write_sq w n c : Rsat (sq w) (do_write cmds plan w n c).
Proof.
  unfold do_write. destruct (w_fail (plan n)).
  { unfold fail_write. destruct (cur (cx w)) as [k|]; [|apply sq_refl]. destruct (Nat.eqb k c); [|apply sq_refl]. apply set_state_sq. }
  cbn. destruct (w_echo (plan n)); destruct (w_rply (plan n)); destruct (rx_hdr (cmds c)); cbn; split; reflexivity.
Qed.

(* ---- the two places that touch the buffer ---- *)
(* dequeue: entries whose caller has gone are skipped, the first live one is taken: what is left is a suffix *)
Lemma dequeue_spec q : forall w,
  stamp (fst (dequeue w q)) = stamp w /\
  match snd (dequeue w q) with
  | Some k => exists pre p s rest, q = pre ++ (p, s, k) :: rest /\ que (cx (fst (dequeue w q))) = rest /\
                                   Forall (fun e => fut_done (fut_of w (snd e)) = true) pre /\ fut_done (fut_of w k) = false
  | None => que (cx (fst (dequeue w q))) = [] /\ Forall (fun e => fut_done (fut_of w (snd e)) = true) q
  end.
Proof.
  induction q as [|[[p s] c] q IH]; intros w; cbn [dequeue].
  - cbn. repeat split. constructor.
  - destruct (fut_done (fut_of w c)) eqn:F.
    + specialize (IH w). destruct IH as (St & IH). split; [exact St|].
      destruct (snd (dequeue w q)) as [k|].
      * destruct IH as (pre & p' & s' & rest & -> & Q & Fp & Fk). exists ((p, s, c) :: pre), p', s', rest.
        split; [reflexivity|]. split; [exact Q|]. split; [constructor; [exact F|exact Fp]|exact Fk].
      * destruct IH as (Q & Fq). split; [exact Q|]. constructor; [exact F|exact Fq].
    + cbn. split; [reflexivity|]. exists [], p, s, q. split; [reflexivity|]. split; [reflexivity|]. split; [constructor|exact F].
Qed.

Lemma qok_suffix pre q n : qok (pre ++ q) n -> qok q n.
Proof. induction pre as [|e pre IH]; cbn [app]; [auto|]. intros H. apply IH. eapply qok_tail, H. Qed.

Lemma check_buffer_Q w : Qinv w -> Rsat Qinv (check_buffer cmds w).
Proof.
  intros Q. unfold check_buffer. apply Rsat_bind; [apply Rsat_assert, Q|]. intros w1 Q1.
  destruct (match curfut (cx w1) with Some f => negb (fut_done (fut_of w1 f)) | None => false end); [exact Q1|].
  pose proof (dequeue_spec (que (cx w1)) w1) as (St & D).
  destruct (dequeue w1 (que (cx w1))) as [w2 oc]. cbn [fst snd] in *.
  destruct oc as [k|].
  - destruct D as (pre & p & s & rest & Eq & Qr & _ & _).
    assert (Q2 : Qinv (set_cur w2 (Some k) (Some k) 0 (S (Nat.min (max_retries (cmds k)) MAX_RETRY)))).
    { unfold Qinv. cbn. rewrite Qr, St. unfold Qinv in Q1. rewrite Eq in Q1. eapply qok_tail, qok_suffix, Q1. }
    pose proof (send_cmd_sq (set_cur w2 (Some k) (Some k) 0 (S (Nat.min (max_retries (cmds k)) MAX_RETRY))) k false) as S.
    destruct (send_cmd_ _ k false) as [w3|n w3]; cbn in *; eapply Qinv_sq; eauto.
  - destruct D as (Qr & _). cbn. unfold Qinv. cbn. rewrite Qr, St. split; constructor.
Qed.

Lemma caller_start_Q w c : Qinv w -> Rsat Qinv (caller_start cmds w c).
Proof.
  intros Q. unfold caller_start.
  assert (Ins : forall w', que (cx w') = insert_q (prio (cmds c), stamp w, c) (que (cx w)) -> stamp w' = stamp w + 1 -> Qinv w').
  { intros w' E1 E2. unfold Qinv. rewrite E1, E2. apply insert_q_ok, Q. }
  destruct (state (cx w)) eqn:S; cbn [Rsat]; try (eapply Qinv_sq; [|exact Q]; split; reflexivity);
    (destruct (Nat.leb BUF_SIZE (length (que (cx w)))); cbn [Rsat]; [eapply Qinv_sq; [|exact Q]; split; reflexivity|];
     apply Ins; cbn; rewrite ?S; reflexivity).
Qed.

Lemma run_cb_Q w c : Qinv w -> Rsat Qinv (run_cb cmds plan w c).
Proof.
  intros Q.
  assert (Fr : forall r, Rsat (sq w) r -> Rsat Qinv r).
  { intros [w1|n w1] H; cbn in *; eapply Qinv_sq; eauto. }
  destruct c as [b| |t|t|t|c|n c|n c|c|c|c|e]; cbn [run_cb].
  - apply Fr, effect_state_sq.
  - apply check_buffer_Q, Q.
  - apply Fr, exp_start_sq.
  - apply Fr. destruct (aget EDone t (exps w)); cbn; split; reflexivity.
  - apply Fr, exp_wake_sq.
  - apply Fr. unfold writer_start. destruct (w_lat (plan (nwrites w)) <=? 0).
    + apply (Rsat_sq_trans w (bump_writes w)); [split; reflexivity|apply do_write_sq].
    + cbn. split; reflexivity.
  - apply Fr. cbn. split; reflexivity.
  - apply Fr, do_write_sq.
  - destruct (aget CNone c (callers w)); try (apply Fr, sq_refl). apply caller_start_Q, Q.
  - apply Fr, caller_timer_sq.
  - apply Fr, caller_wake_sq.
  - apply Fr. destruct e as [k|p| | |d|k]; [cbn; split; reflexivity|apply pkt_rcvd_sq|apply conn_sq|apply conn_sq|cbn; split; reflexivity|apply caller_cancel_sq].
Qed.

Lemma boundary_sq lifo w w' : boundary lifo w = Some w' -> sq w w'.
Proof.
  unfold boundary.
  destruct (match ready w with
            | [] => match min_when (timers w) None with Some t => Some (Z.max t (now w)) | None => None end
            | _ :: _ => Some (now w) end) as [n|]; [|discriminate].
  intros H. injection H as <-. split; reflexivity.
Qed.

Lemma step_Q lifo w w' : Qinv w -> step cmds plan lifo w = Some w' -> Qinv w'.
Proof.
  intros Q. unfold step. destruct (batch w) as [|b].
  - intros H. eapply Qinv_sq; [eapply boundary_sq, H|exact Q].
  - destruct (ready w) as [|c r] eqn:Er.
    + intros H. eapply Qinv_sq; [eapply boundary_sq, H|exact Q].
    + pose proof (run_cb_Q (upd_loop w (now w) r b (timers w) (seq w)) c Q) as H.
      destruct (run_cb cmds plan _ c) as [w2|n w2]; intros [= <-]; exact H.
Qed.

Lemma run_Q lifo fuel : forall w, Qinv w -> Qinv (fst (run cmds plan lifo fuel w)).
Proof.
  induction fuel as [|fuel IH]; intros w Q; cbn [run]; [exact Q|].
  destruct (step cmds plan lifo w) as [w'|] eqn:E; [|exact Q].
  apply IH. eapply step_Q; eassumption.
Qed.

(* in every reachable world the buffer is in (priority, arrival) order with unique stamps *)
Theorem queue_ordered lifo fuel evs : Qinv (fst (run cmds plan lifo fuel (world0 evs))).
Proof. apply run_Q. split; constructor. Qed.

(* ... so the command that starts next is, among the buffered ones whose caller has not gone, the one of best priority, and among equals the
   one that arrived first: everything it overtakes has a worse priority or the same priority and a later arrival *)
Theorem next_is_least_pending w k : Qinv w -> snd (dequeue w (que (cx w))) = Some k ->
  exists pre p s rest, que (cx w) = pre ++ (p, s, k) :: rest /\
    Forall (fun e => fut_done (fut_of w (snd e)) = true) pre /\ fut_done (fut_of w k) = false /\
    Forall (qlt (p, s, k)) rest.
Proof.
  intros Q E. pose proof (dequeue_spec (que (cx w)) w) as (_ & D). rewrite E in D.
  destruct D as (pre & p & s & rest & Eq & _ & Fp & Fk). exists pre, p, s, rest. repeat split; auto.
  unfold Qinv in Q. rewrite Eq in Q. apply qok_suffix in Q. destruct Q as (S & _). inversion S; assumption.
Qed.
End Env.

(* a computed run: c0 is in flight when c1 (low priority) and then c2 (default priority) arrive; c2 starts before c1 *)
Definition cmd_p (c : cid) : cmdinfo :=
  {| prio := (match c with 1%nat => 2 | _ => 0 end); max_retries := 0; timeout := 20000000; wfr := false; tx_hdr := S c; rx_hdr := None; rx_null := None |}.
Definition echo_later (n : nat) : wplan := {| w_lat := 0; w_fail := false; w_echo := Some 100000; w_rply := None |}.
Definition write_order (tr : list obs) : list cid := flat_map (fun o => match o with Write _ c => [c] | _ => [] end) tr.
Lemma priority_then_arrival :
  write_order (fst (fst (simulate cmd_p echo_later false 5000
     [(0, ConnMade); (15625, Call 0%nat); (31250, Call 1%nat); (46875, Call 2%nat)]))) = [0%nat; 2%nat; 1%nat].
Proof. vm_compute. reflexivity. Qed.
