(* PROTOTYPE (design phase): executable model of ramses_tx.protocol_fsm.ProtocolContext
   on a mini-asyncio.  Time unit: 1/1024 s. *)
From Coq Require Import ZArith List Bool Arith Lia.
Import ListNotations.
Open Scope Z_scope.

(* ---------- static data ---------- *)
Definition cid := nat.
Record cmdinfo := { prio : Z; max_retries : nat; timeout : Z; wfr : bool;
                    tx_hdr : nat; rx_hdr : option nat }.
Record pkt := { p_hdr : nat; p_src : nat; p_dst_ok : bool }.
Inductive exn := ERetries | ETransport | EFsm.
Inductive fstat := FPending | FRes (p : pkt) | FExn (e : exn) | FCancelled.
Inductive st := Inactive | Idle | WantEcho | WantRply.

Definition ECHO_TO : Z := 512. Definition RPLY_TO : Z := 512.
Definition MAX_RETRY : nat := 3. Definition SEND_LIMIT : Z := 20 * 1024.
Definition BUF_SIZE : nat := 32.

Inductive ext := Call (c : cid) | Rx (p : pkt) | ConnMade | ConnLost.

Inductive cb :=
| CbEffect (timed_out : bool)
| CbCheckBuf
| CbExpStart (t : nat) | CbExpTimer (t : nat) | CbExpWake (t : nat)
| CbWriter (c : cid)
| CbCallerStart (c : cid) | CbCallerTimer (c : cid) | CbCallerWake (c : cid)
| CbExt (e : ext).

Inductive outcome := OkPkt (p : pkt) | ErrSendFailed | ErrOther.
Inductive obs := Write (t : Z) (c : cid) | Done (t : Z) (c : cid) (o : outcome) | LoopExn (t : Z) (n : nat).

Inductive estat := ENotStarted | ESleeping (old : nat) | EWoken (old : nat) | ERunning | EDone | ECancelled.
Inductive cstat := CNone | CWaiting | CTimedOut (* task.cancel() called by wait_for *) | CDone.

Record ctx := { state : st; cur : option cid; curfut : option cid;
                txc : nat; txl : nat; mult : nat;
                que : list (Z * Z * cid);
                expiry : option nat; sent : option cid; echo : option pkt }.

Record world := {
  now : Z; ready : list cb; batch : nat; timers : list (Z * nat * cb); seq : nat;
  cx : ctx; futs : list (cid * fstat); callers : list (cid * cstat);
  exps : list (nat * estat); next_tid : nat; stamp : Z;
  trace : list obs }.

(* ---------- assoc helpers ---------- *)
Fixpoint aget {A} (d : A) (k : nat) (l : list (nat * A)) : A :=
  match l with [] => d | (k', v) :: l' => if Nat.eqb k k' then v else aget d k l' end.
Fixpoint aset {A} (k : nat) (v : A) (l : list (nat * A)) : list (nat * A) :=
  match l with [] => [(k, v)] | (k', v') :: l' => if Nat.eqb k k' then (k, v) :: l' else (k', v') :: aset k v l' end.

Definition set_cx (w : world) (c : ctx) : world :=
  {| now := now w; ready := ready w; batch := batch w; timers := timers w; seq := seq w;
     cx := c; futs := futs w; callers := callers w; exps := exps w; next_tid := next_tid w;
     stamp := stamp w; trace := trace w |}.
Definition call_soon (w : world) (c : cb) : world :=
  {| now := now w; ready := ready w ++ [c]; batch := batch w; timers := timers w; seq := seq w;
     cx := cx w; futs := futs w; callers := callers w; exps := exps w; next_tid := next_tid w;
     stamp := stamp w; trace := trace w |}.
Definition call_at (w : world) (t : Z) (c : cb) : world :=
  {| now := now w; ready := ready w; batch := batch w; timers := timers w ++ [(t, seq w, c)]; seq := S (seq w);
     cx := cx w; futs := futs w; callers := callers w; exps := exps w; next_tid := next_tid w;
     stamp := stamp w; trace := trace w |}.
Definition cb_eqb (a b : cb) : bool :=
  match a, b with
  | CbExpTimer x, CbExpTimer y => Nat.eqb x y
  | CbCallerTimer x, CbCallerTimer y => Nat.eqb x y
  | _, _ => false end.
Definition cancel_timer (w : world) (c : cb) : world :=
  {| now := now w; ready := ready w; batch := batch w;
     timers := filter (fun e => negb (cb_eqb (snd e) c)) (timers w); seq := seq w;
     cx := cx w; futs := futs w; callers := callers w; exps := exps w; next_tid := next_tid w;
     stamp := stamp w; trace := trace w |}.
Definition set_fut (w : world) (c : cid) (f : fstat) : world :=
  {| now := now w; ready := ready w; batch := batch w; timers := timers w; seq := seq w;
     cx := cx w; futs := aset c f (futs w); callers := callers w; exps := exps w; next_tid := next_tid w;
     stamp := stamp w; trace := trace w |}.
Definition set_caller (w : world) (c : cid) (s : cstat) : world :=
  {| now := now w; ready := ready w; batch := batch w; timers := timers w; seq := seq w;
     cx := cx w; futs := futs w; callers := aset c s (callers w); exps := exps w; next_tid := next_tid w;
     stamp := stamp w; trace := trace w |}.
Definition set_exp (w : world) (t : nat) (s : estat) : world :=
  {| now := now w; ready := ready w; batch := batch w; timers := timers w; seq := seq w;
     cx := cx w; futs := futs w; callers := callers w; exps := aset t s (exps w); next_tid := next_tid w;
     stamp := stamp w; trace := trace w |}.
Definition emit (w : world) (o : obs) : world :=
  {| now := now w; ready := ready w; batch := batch w; timers := timers w; seq := seq w;
     cx := cx w; futs := futs w; callers := callers w; exps := exps w; next_tid := next_tid w;
     stamp := stamp w; trace := trace w ++ [o] |}.
Definition fut_of (w : world) (c : cid) : fstat := aget FPending c (futs w).
Definition fut_done (f : fstat) : bool := match f with FPending => false | _ => true end.

(* resolving a future wakes the task awaiting it (the caller), via call_soon *)
Definition resolve (w : world) (c : cid) (f : fstat) : world :=
  let w := set_fut w c f in
  match aget CNone c (callers w) with
  | CWaiting => call_soon w (CbCallerWake c)
  | _ => w end.

(* result of a step that may trip an assertion: Crash n keeps the partial effects *)
Inductive R := Ok (w : world) | Crash (n : nat) (w : world).
Definition bind (r : R) (f : world -> R) : R := match r with Ok w => f w | Crash n w => Crash n w end.
Notation "'do' w <- r ; k" := (bind r (fun w => k)) (at level 200, w ident, r at level 100, k at level 200).
Definition assert (b : bool) (n : nat) (w : world) : R := if b then Ok w else Crash n w.

Definition sending_state (s : st) : bool := match s with WantEcho | WantRply => true | _ => false end.

(* ProtocolContext.is_sending, with its asserts *)
Definition is_sending_ok (w : world) : bool :=
  let c := cx w in
  if sending_state (state c)
  then match cur c, curfut c with Some _, Some _ => true | _, _ => false end
  else match cur c with
       | Some _ => false
       | None => match curfut c with None => true | Some f => fut_done (fut_of w f) end
       end.

(* Task.cancel() on the expiry task *)
Definition cancel_exp (w : world) (t : nat) : world :=
  match aget EDone t (exps w) with
  | ENotStarted => set_exp w t ECancelled
  | ESleeping _ => set_exp (cancel_timer w (CbExpTimer t)) t ECancelled
  | EWoken _ => set_exp w t ECancelled          (* _must_cancel: wake-up gets CancelledError *)
  | ERunning => w                               (* cancels itself at the end: no further await *)
  | EDone | ECancelled => w
  end.

Inductive how := HPlain | HExpired | HTimedOut | HExn (e : exn) | HRes (p : pkt).

(* ProtocolContext.set_state *)
Definition set_state (w : world) (ns : st) (h : how) : R :=
  let w := match expiry (cx w) with
           | Some t => let w := cancel_exp w t in
                       set_cx w {| state := state (cx w); cur := cur (cx w); curfut := curfut (cx w);
                                   txc := txc (cx w); txl := txl (cx w); mult := mult (cx w); que := que (cx w);
                                   expiry := None; sent := sent (cx w); echo := echo (cx w) |}
           | None => w end in
  let c := cx w in
  do w <- (match curfut c with
           | None =>
               do w <- assert (match cur c with None => true | _ => false end) 1 w;
               assert (negb (sending_state (state c))) 2 w
           | Some f =>
               match fut_of w f, h with
               | FCancelled, _ =>
                   do w <- assert (match cur c with Some _ => true | _ => false end) 3 w;
                   assert (sending_state (state c)) 4 w
               | fs, HExn e =>
                   do w <- assert (negb (fut_done fs)) 5 w;
                   do w <- assert (sending_state (state c)) 6 w;
                   Ok (resolve w f (FExn e))
               | fs, HRes p =>
                   do w <- assert (negb (fut_done fs)) 7 w;
                   do w <- assert (sending_state (state c)) 8 w;
                   Ok (resolve w f (FRes p))
               | fs, HExpired =>
                   do w <- assert (negb (fut_done fs)) 9 w;
                   do w <- assert (sending_state (state c)) 10 w;
                   Ok (resolve w f (FExn ERetries))
               | fs, _ => assert (negb (fut_done fs)) 11 w
               end
           end);
  let c := cx w in
  (* new state object: _sent_cmd/_echo_pkt copied by WantEcho/WantRply constructors *)
  let nsent := match ns with WantEcho | WantRply => sent c | _ => None end in
  let necho := match ns with WantRply => echo c | _ => None end in
  let '(ncur, ntxc) :=
      match h with
      | HTimedOut => (cur c, S (txc c))
      | _ => match ns with
             | WantEcho => (cur c, 1%nat)
             | WantRply => (cur c, txc c)
             | _ => (None, 0%nat) end
      end in
  do w <- (match h, ns with
           | HTimedOut, _ => Ok w
           | _, WantEcho => assert (match cur c with Some _ => true | _ => false end) 12 w
           | _, _ => Ok w end);
  let w := set_cx w {| state := ns; cur := ncur; curfut := curfut c; txc := ntxc; txl := txl c; mult := mult c;
                       que := que c; expiry := expiry c; sent := nsent; echo := necho |} in
  do w <- assert (is_sending_ok w) 13 w;
  Ok (call_soon w (CbEffect (match h with HTimedOut => true | _ => false end))).

Section WithCmds.
Variable cmds : cid -> cmdinfo.

Definition set_sent (w : world) (s : option cid) : world :=
  let c := cx w in set_cx w {| state := state c; cur := cur c; curfut := curfut c; txc := txc c; txl := txl c;
                               mult := mult c; que := que c; expiry := expiry c; sent := s; echo := echo c |}.
Definition set_echo (w : world) (p : option pkt) : world :=
  let c := cx w in set_cx w {| state := state c; cur := cur c; curfut := curfut c; txc := txc c; txl := txl c;
                               mult := mult c; que := que c; expiry := expiry c; sent := sent c; echo := p |}.

(* ProtocolContext._send_cmd *)
Definition send_cmd_ (w : world) (c : cid) (is_retry : bool) : R :=
  match state (cx w) with
  | Idle =>
      do w <- assert (match sent (cx w) with None => negb is_retry | _ => false end) 20 w;
      do w <- set_state (set_sent w (Some c)) WantEcho HPlain;
      Ok (call_soon w (CbWriter c))
  | WantEcho =>
      do w <- assert (match sent (cx w) with Some _ => is_retry | _ => false end) 21 w;
      Ok (call_soon w (CbWriter c))
  | _ => set_state w Idle (HExn EFsm)       (* ProtocolFsmError -> set_state(IsInIdle, exception) *)
  end.

(* dequeue: lowest (priority, stamp) first; skip entries whose future is done *)
Fixpoint insert_q (e : Z * Z * cid) (q : list (Z * Z * cid)) : list (Z * Z * cid) :=
  match q with
  | [] => [e]
  | e' :: q' => let '(p, s, _) := e in let '(p', s', _) := e' in
      if (p <? p') || ((p =? p') && (s <? s')) then e :: q else e' :: insert_q e q'
  end.

Definition set_que (w : world) (q : list (Z * Z * cid)) : world :=
  let c := cx w in set_cx w {| state := state c; cur := cur c; curfut := curfut c; txc := txc c; txl := txl c;
                               mult := mult c; que := q; expiry := expiry c; sent := sent c; echo := echo c |}.

Fixpoint dequeue (w : world) (q : list (Z * Z * cid)) : world * option cid :=
  match q with
  | [] => (set_que w [], None)
  | (_, _, c) :: q' => if fut_done (fut_of w c) then dequeue w q' else (set_que w q', Some c)
  end.

(* ProtocolContext._check_buffer_for_cmd *)
Definition check_buffer (w : world) : R :=
  do w <- assert (is_sending_ok w) 30 w;
  let c := cx w in
  match curfut c with
  | Some f => if negb (fut_done (fut_of w f)) then Ok w else
      let '(w, oc) := dequeue w (que c) in
      let c := cx w in
      match oc with
      | None => Ok (set_cx w {| state := state c; cur := None; curfut := None; txc := txc c; txl := txl c; mult := mult c;
                                que := que c; expiry := expiry c; sent := sent c; echo := echo c |})
      | Some k =>
          let w := set_cx w {| state := state c; cur := Some k; curfut := Some k; txc := 0;
                               txl := S (Nat.min (max_retries (cmds k)) MAX_RETRY); mult := mult c;
                               que := que c; expiry := expiry c; sent := sent c; echo := echo c |} in
          send_cmd_ w k false
      end
  | None =>
      let '(w, oc) := dequeue w (que c) in
      let c := cx w in
      match oc with
      | None => Ok (set_cx w {| state := state c; cur := None; curfut := None; txc := txc c; txl := txl c; mult := mult c;
                                que := que c; expiry := expiry c; sent := sent c; echo := echo c |})
      | Some k =>
          let w := set_cx w {| state := state c; cur := Some k; curfut := Some k; txc := 0;
                               txl := S (Nat.min (max_retries (cmds k)) MAX_RETRY); mult := mult c;
                               que := que c; expiry := expiry c; sent := sent c; echo := echo c |} in
          send_cmd_ w k false
      end
  end.

Definition new_exp (w : world) : world * nat :=
  let t := next_tid w in
  ({| now := now w; ready := ready w ++ [CbExpStart t]; batch := batch w; timers := timers w; seq := seq w;
      cx := (let c := cx w in {| state := state c; cur := cur c; curfut := curfut c; txc := txc c; txl := txl c;
                                 mult := mult c; que := que c; expiry := Some t; sent := sent c; echo := echo c |});
      futs := futs w; callers := callers w; exps := aset t ENotStarted (exps w); next_tid := S t;
      stamp := stamp w; trace := trace w |}, t).

(* effect_state(timed_out) *)
Definition effect_state (w : world) (timed_out : bool) : R :=
  do w <- assert (is_sending_ok w) 40 w;
  do w <- (if timed_out then
             match cur (cx w) with
             | None => Crash 41 w
             | Some k => send_cmd_ w k true
             end
           else Ok w);
  match state (cx w) with
  | Idle => Ok (call_soon w CbCheckBuf)
  | WantRply =>
      match cur (cx w) with
      | Some k => if negb (wfr (cmds k))
                  then match echo (cx w) with Some p => set_state w Idle (HRes p) | None => set_state w Idle HPlain end
                  else Ok (fst (new_exp w))
      | None => Crash 42 w      (* self._qos is None: AttributeError *)
      end
  | WantEcho => Ok (fst (new_exp w))
  | Inactive => Ok w
  end.

Definition set_mult (w : world) (m : nat) : world :=
  let c := cx w in set_cx w {| state := state c; cur := cur c; curfut := curfut c; txc := txc c; txl := txl c;
                               mult := m; que := que c; expiry := expiry c; sent := sent c; echo := echo c |}.

(* expire_state_on_timeout: part before the sleep *)
Definition exp_start (w : world) (t : nat) : R :=
  match aget EDone t (exps w) with
  | ENotStarted =>
      do w <- assert (match cur (cx w) with Some _ => true | _ => false end) 50 w;
      do w <- assert (is_sending_ok w) 51 w;
      do w <- assert (Nat.ltb 0 (txc (cx w))) 52 w;
      let base := match state (cx w) with WantEcho => ECHO_TO | _ => RPLY_TO end in
      let m := mult (cx w) in
      let delay := base * 2 ^ (Z.of_nat m) in
      let w := set_mult w (Nat.pred m) in
      (* remember old multiplier in the timer payload via exps? prototype: store m in a side list *)
      let w := set_exp w t (ESleeping m) in
      Ok (call_at w (now w + delay) (CbExpTimer t))
  | _ => Ok w   (* cancelled before first step *)
  end.

(* prototype simplification: old_val = mult + 1 when mult was decremented from >0, else 0;
   the full model will carry old_val in the task record *)
Definition exp_wake (w : world) (t : nat) : R :=
  match aget EDone t (exps w) with
  | EWoken old_val =>
      let w := set_exp w t ERunning in
      let w := set_mult w (Nat.min 3 (S old_val)) in
      do w <- assert (is_sending_ok w) 53 w;
      do w <- (if Nat.ltb (txc (cx w)) (txl (cx w))
               then set_state w WantEcho HTimedOut
               else set_state w Idle HExpired);
      do w <- assert (is_sending_ok w) 54 w;
      Ok (set_exp w t EDone)
  | _ => Ok w
  end.

(* WantEcho.pkt_rcvd / WantRply.pkt_rcvd / others *)
Definition pkt_rcvd (w : world) (p : pkt) : R :=
  match state (cx w) with
  | Inactive | Idle => assert (match sent (cx w) with None => true | _ => false end) 60 w
  | WantEcho =>
      match sent (cx w) with
      | None => Crash 61 w
      | Some k =>
          let ci := cmds k in
          if match rx_hdr ci with Some h => Nat.eqb (p_hdr p) h && p_dst_ok p | None => false end
          then set_state w Idle (HRes p)
          else if negb (Nat.eqb (p_hdr p) (tx_hdr ci)) then Ok w
          else let w := set_echo w (Some p) in
               match rx_hdr ci with
               | Some _ => set_state w WantRply HPlain
               | None => set_state w Idle (HRes p)
               end
      end
  | WantRply =>
      match sent (cx w), echo (cx w) with
      | Some k, Some e =>
          let ci := cmds k in
          if Nat.eqb (p_hdr p) (tx_hdr ci) && Nat.eqb (p_src p) (p_src e) then Ok w
          else match rx_hdr ci with
               | Some h => if Nat.eqb (p_hdr p) h then set_state w Idle (HRes p) else Ok w
               | None => Crash 63 w
               end
      | _, _ => Crash 62 w
      end
  end.

(* the caller coroutine: ProtocolContext.send_cmd up to the await *)
Definition caller_start (w : world) (c : cid) : R :=
  match state (cx w) with
  | Inactive => Ok (emit (set_caller w c CDone) (Done (now w) c ErrSendFailed))
  | _ =>
      if Nat.leb BUF_SIZE (length (que (cx w)))
      then Ok (emit (set_caller (set_fut w c FCancelled) c CDone) (Done (now w) c ErrSendFailed))
      else
        let w := set_fut w c FPending in
        let w := set_que w (insert_q (prio (cmds c), stamp w, c) (que (cx w))) in
        let w := {| now := now w; ready := ready w; batch := batch w; timers := timers w; seq := seq w;
                    cx := cx w; futs := futs w; callers := callers w; exps := exps w; next_tid := next_tid w;
                    stamp := stamp w + 1; trace := trace w |} in
        let w := match state (cx w) with Idle => call_soon w CbCheckBuf | _ => w end in
        let w := set_caller w c CWaiting in
        Ok (call_at w (now w + Z.min (timeout (cmds c)) SEND_LIMIT) (CbCallerTimer c))
  end.

(* wait_for's timer: task.cancel() *)
Definition caller_timer (w : world) (c : cid) : R :=
  match aget CNone c (callers w) with
  | CWaiting =>
      let w := set_caller w c CTimedOut in
      if fut_done (fut_of w c) then Ok w      (* wake-up already scheduled; _must_cancel *)
      else Ok (call_soon (set_fut w c FCancelled) (CbCallerWake c))
  | _ => Ok w
  end.

Definition caller_wake (w : world) (c : cid) : R :=
  match aget CNone c (callers w) with
  | CWaiting =>   (* future done normally *)
      let w := cancel_timer w (CbCallerTimer c) in
      let o := match fut_of w c with FRes p => OkPkt p | FExn _ => ErrSendFailed | _ => ErrOther end in
      Ok (emit (set_caller w c CDone) (Done (now w) c o))
  | CTimedOut =>
      do w <- (match cur (cx w) with
               | Some k => if Nat.eqb k c then set_state w Idle HExpired else Ok w
               | None => Ok w end);
      Ok (emit (set_caller w c CDone) (Done (now w) c ErrSendFailed))
  | _ => Ok w
  end.

Definition conn_made (w : world) : R :=
  match state (cx w) with Inactive => set_state w Idle HPlain | _ => Ok w end.
Definition conn_lost (w : world) : R :=
  match state (cx w) with
  | Inactive => Ok w
  | Idle => set_state w Inactive HPlain
  | _ => set_state w Inactive (HExn ETransport)
  end.

Definition run_cb (w : world) (c : cb) : R :=
  match c with
  | CbEffect b => effect_state w b
  | CbCheckBuf => check_buffer w
  | CbExpStart t => exp_start w t
  | CbExpTimer t => match aget EDone t (exps w) with
                    | ESleeping o => Ok (call_soon (set_exp w t (EWoken o)) (CbExpWake t))
                    | _ => Ok w end
  | CbExpWake t => exp_wake w t
  | CbWriter c => Ok (emit w (Write (now w) c))
  | CbCallerStart c => caller_start w c
  | CbCallerTimer c => caller_timer w c
  | CbCallerWake c => caller_wake w c
  | CbExt (Call c) => Ok (call_soon w (CbCallerStart c))
  | CbExt (Rx p) => pkt_rcvd w p
  | CbExt ConnMade => conn_made w
  | CbExt ConnLost => conn_lost w
  end.

(* ---------- the loop: BaseEventLoop._run_once ---------- *)
Definition set_loop (w : world) (n : Z) (r : list cb) (b : nat) (ts : list (Z * nat * cb)) : world :=
  {| now := n; ready := r; batch := b; timers := ts; seq := seq w;
     cx := cx w; futs := futs w; callers := callers w; exps := exps w; next_tid := next_tid w;
     stamp := stamp w; trace := trace w |}.

Fixpoint min_when (ts : list (Z * nat * cb)) (acc : option Z) : option Z :=
  match ts with
  | [] => acc
  | (t, _, _) :: ts' => min_when ts' (match acc with None => Some t | Some a => Some (Z.min a t) end)
  end.

(* insertion by (when, seq); lifo=true reverses ties *)
Fixpoint ins_due (lifo : bool) (e : Z * nat * cb) (l : list (Z * nat * cb)) : list (Z * nat * cb) :=
  match l with
  | [] => [e]
  | e' :: l' => let '(t, s, _) := e in let '(t', s', _) := e' in
      if (t <? t') || ((t =? t') && (if lifo then Nat.ltb s' s else Nat.ltb s s'))
      then e :: l else e' :: ins_due lifo e l'
  end.

Definition boundary (lifo : bool) (w : world) : option world :=
  let n := match ready w with
           | [] => match min_when (timers w) None with Some t => Some (Z.max t (now w)) | None => None end
           | _ => Some (now w) end in
  match n with
  | None => None   (* quiescent *)
  | Some n =>
      let due := filter (fun e => let '(t, _, _) := e in t <=? n) (timers w) in
      let rest := filter (fun e => let '(t, _, _) := e in negb (t <=? n)) (timers w) in
      let due := fold_right (ins_due lifo) [] due in
      let r := ready w ++ map (fun e => snd e) due in
      Some (set_loop w n r (length r) rest)
  end.

Fixpoint run (lifo : bool) (fuel : nat) (w : world) : world * bool (* finished *) :=
  match fuel with
  | O => (w, false)
  | S fuel' =>
      match batch w, ready w with
      | S b, c :: r =>
          let w1 := set_loop w (now w) r b (timers w) in
          match run_cb w1 c with
          | Ok w2 => run lifo fuel' w2
          | Crash n w2 => run lifo fuel' (emit w2 (LoopExn (now w2) n))
          end
      | _, _ =>
          match boundary lifo w with
          | None => (w, true)
          | Some w' => run lifo fuel' w'
          end
      end
  end.

Definition ctx0 : ctx := {| state := Inactive; cur := None; curfut := None; txc := 0; txl := 0; mult := 0;
                            que := []; expiry := None; sent := None; echo := None |}.
Fixpoint preload (evs : list (Z * ext)) (k : nat) : list (Z * nat * cb) :=
  match evs with [] => [] | (t, e) :: evs' => (t, k, CbExt e) :: preload evs' (S k) end.
Definition world0 (evs : list (Z * ext)) : world :=
  {| now := 0; ready := []; batch := 0; timers := preload evs 0; seq := length evs;
     cx := ctx0; futs := []; callers := []; exps := []; next_tid := 0; stamp := 0; trace := [] |}.
Definition simulate (lifo : bool) (evs : list (Z * ext)) : list obs * st * bool :=
  let '(w, fin) := run lifo 10000 (world0 evs) in (trace w, state (cx w), fin).
End WithCmds.

(* ---- scenario: one RQ, echo lost, max_retries 3, caller timeout = echo timeout ---- *)
Definition cmds1 (c : cid) : cmdinfo :=
  {| prio := 0; max_retries := 3%nat; timeout := 512; wfr := false; tx_hdr := 1%nat; rx_hdr := Some 2%nat |}.
Eval vm_compute in simulate cmds1 false [(0, ConnMade); (10, Call 0%nat)].
Eval vm_compute in simulate cmds1 true  [(0, ConnMade); (10, Call 0%nat)].
(* longer caller timeout: full retry ladder *)
Definition cmds2 (c : cid) : cmdinfo :=
  {| prio := 0; max_retries := 3%nat; timeout := 20480; wfr := false; tx_hdr := 1%nat; rx_hdr := Some 2%nat |}.
Eval vm_compute in simulate cmds2 false [(0, ConnMade); (10, Call 0%nat)].
(* echo arrives after 20 units, reply not awaited *)
Definition echo1 : pkt := {| p_hdr := 1%nat; p_src := 7%nat; p_dst_ok := false |}.
Eval vm_compute in simulate cmds2 false [(0, ConnMade); (10, Call 0%nat); (30, Rx echo1)].

