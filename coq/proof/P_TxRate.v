(* P_TxRate: with transmit times that strictly increase (writes are a gap apart), the transmit rate is defined at every later moment. *)
From Coq Require Import ZArith List Bool Lia Sorting.Sorted.
From RV Require Import M_TxRate.
Import ListNotations.
Open Scope Z_scope.

Lemma in_window_sorted now ts : StronglySorted Z.lt ts -> StronglySorted Z.lt (in_window now ts).
Proof.
  induction 1 as [|t ts S IH F]; cbn; [constructor|].
  destruct (now - WINDOW_us <? t); [|exact IH]. constructor; [exact IH|].
  rewrite Forall_forall in *. intros x Hx. apply F. unfold in_window in Hx. apply filter_In in Hx. tauto.
Qed.

Lemma last_gt a b l : StronglySorted Z.lt (a :: b :: l) -> a < last (b :: l) a.
Proof.
  intros S. inversion S as [|? ? S1 F]; subst. rewrite Forall_forall in F. apply F.
  clear. revert b. induction l as [|c l IH]; intros b; [left; reflexivity|].
  change (last (b :: c :: l) a) with (last (c :: l) a). right. apply IH.
Qed.

(* EVERY history of transmits a positive time apart, read at ANY moment: the rate is a number *)
Theorem report_total now ts : StronglySorted Z.lt ts -> raises (report now ts) = false.
Proof.
  intros S. unfold report. pose proof (in_window_sorted now ts S) as W.
  destruct (in_window now ts) as [|a [|b l]]; try reflexivity.
  pose proof (last_gt a b l W) as G.
  change (last (a :: b :: l) a) with (last (b :: l) a).
  destruct (last (b :: l) a - a =? 0) eqn:E; [apply Z.eqb_eq in E; lia|reflexivity].
Qed.

(* the slip raises: two transmits, then 301 s of silence (IndexError); the third transmit after that (ZeroDivisionError); the code as it is answers 0 and 1 *)
Theorem early_exit_before_window_refuted :
  report_slip 302000000 [0; 1000000] = RaisesIndex /\ report_slip 302000000 [0; 1000000; 302000000] = RaisesZeroDivision /\
  report 302000000 [0; 1000000] = Count 0 /\ report 302000000 [0; 1000000; 302000000] = Count 1.
Proof. repeat split; vm_compute; reflexivity. Qed.
