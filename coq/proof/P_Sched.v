From Coq Require Import ZArith List Bool Arith Lia.
From RV Require Import M_Sched.
Import ListNotations.
Open Scope Z_scope.

(* ---------------------------------------------------------------- records *)
Lemma unpack_pack r : rec_ok r = true -> unpack (pack r) = Some r.
Proof.
  unfold rec_ok. intros H. repeat (apply andb_true_iff in H as [H ?]).
  destruct r as [i d t v]. cbn [pack unpack s_idx s_dow s_tod s_val] in *. f_equal. f_equal.
  - pose proof (Z.div_mod t 256 ltac:(lia)). lia.
  - pose proof (Z.div_mod v 256 ltac:(lia)). lia.
Qed.

Lemma pack_length r : length (pack r) = 20%nat.
Proof. reflexivity. Qed.

Lemma firstn_pack r rest : firstn 20 (pack r ++ rest) = pack r.
Proof. reflexivity. Qed.
Lemma skipn_pack r rest : skipn 20 (pack r ++ rest) = rest.
Proof. reflexivity. Qed.

Lemma records_flat rs : forall fuel, (length rs <= fuel)%nat ->
  forallb rec_ok rs = true -> records fuel (flat_map pack rs) = Some rs.
Proof.
  induction rs as [|r rs IH]; intros fuel Hf Hok.
  - destruct fuel; reflexivity.
  - cbn [forallb] in Hok. apply andb_true_iff in Hok as [Hr Hrs].
    destruct fuel as [|fuel]; [cbn in Hf; lia|].
    cbn [flat_map]. cbn [records].
    destruct (pack r ++ flat_map pack rs) eqn:E; [discriminate E|]. rewrite <- E.
    rewrite firstn_pack, skipn_pack.
    rewrite (unpack_pack r Hr), IH; [reflexivity|cbn in Hf; lia|exact Hrs].
Qed.

Lemma flat_map_pack_length rs : length (flat_map pack rs) = (20 * length rs)%nat.
Proof. induction rs as [|r rs IH]; [reflexivity|]. cbn [flat_map]. rewrite app_length, IH, pack_length. cbn [length]. lia. Qed.

(* ---------------------------------------------------------------- day grouping *)
Definition recs_of (i d : Z) (l : list sp) : list srec :=
  map (fun p => {| s_idx := i; s_dow := d; s_tod := fst p; s_val := snd p |}) l.

(* records of the current day are appended to the current group *)
Lemma grp_same_day i d l : forall cur rest,
  grp d cur (recs_of i d l ++ rest) = grp d (cur ++ l) rest.
Proof.
  induction l as [|[t v] l IH]; intros cur rest; cbn [recs_of map app].
  - rewrite app_nil_r. reflexivity.
  - cbn [grp s_dow s_tod s_val fst snd]. rewrite Z.ltb_irrefl. fold (recs_of i d l).
    rewrite IH, <- app_assoc. reflexivity.
Qed.

(* days strictly increasing and above [old], each with at least one switchpoint *)
Fixpoint days_ok (old : Z) (days : list (Z * list sp)) : Prop :=
  match days with
  | [] => True
  | (d, l) :: t => old < d /\ l <> [] /\ days_ok d t
  end.

Lemma grp_days i days : forall old cur, days_ok old days ->
  grp old cur (flat_map (fun d => recs_of i (fst d) (snd d)) days) = (old, cur) :: days.
Proof.
  induction days as [|[d l] days IH]; intros old cur H; cbn [flat_map fst snd].
  - reflexivity.
  - destruct H as [Hd [Hl Hrest]]. destruct l as [|[t v] l]; [contradiction|].
    cbn [recs_of map app grp s_dow s_tod s_val fst snd].
    apply Z.ltb_lt in Hd. rewrite Hd. fold (recs_of i d l). f_equal.
    rewrite grp_same_day. cbn [app]. apply IH, Hrest.
Qed.

(* a weekly schedule as the property means it: first day 0, days increasing, each non-empty,
   all fields within their wire width *)
Definition valid_sched (s : sched) : Prop :=
  0 <= z_idx s < 256 /\
  (exists l0 rest, z_days s = (0, l0) :: rest /\ l0 <> [] /\ days_ok 0 rest) /\
  forallb rec_ok (flatten s) = true.

Lemma flatten_as_recs s : flatten s = flat_map (fun d => recs_of (z_idx s) (fst d) (snd d)) (z_days s).
Proof. reflexivity. Qed.

Lemma last_idx_flatten s : flatten s <> [] -> last_idx (flatten s) = z_idx s.
Proof.
  intros H. unfold last_idx.
  assert (A : forall r, In r (flatten s) -> s_idx r = z_idx s).
  { intros r Hr. unfold flatten in Hr. apply in_flat_map in Hr as [d [_ Hr]].
    apply in_map_iff in Hr as [p [<- _]]. reflexivity. }
  destruct (rev (flatten s)) as [|r t] eqn:E.
  - exfalso. apply H. rewrite <- (rev_involutive (flatten s)), E. reflexivity.
  - apply A. apply in_rev. rewrite E. left. reflexivity.
Qed.

Theorem decode_raw_of s : valid_sched s -> decode_raw (raw_of s) = Some s.
Proof.
  intros [Hi [[l0 [rest [Hd [Hl0 Hrest]]]] Hok]].
  unfold decode_raw, raw_of.
  rewrite records_flat; [|rewrite flat_map_pack_length; lia|exact Hok].
  assert (Hne : flatten s <> []).
  { rewrite flatten_as_recs, Hd. cbn [flat_map fst snd]. destruct l0; [contradiction|discriminate]. }
  rewrite (last_idx_flatten s Hne).
  rewrite flatten_as_recs, Hd. cbn [flat_map fst snd].
  rewrite (grp_same_day (z_idx s) 0 l0 [] _). cbn [app].
  rewrite grp_days by exact Hrest.
  destruct s as [i ds]. cbn in *. subst ds. reflexivity.
Qed.

(* ---------------------------------------------------------------- hex and chunks *)
Lemma unhex_hex bytes : Forall (fun b => 0 <= b < 256) bytes -> unhex (hex_of bytes) = Some bytes.
Proof.
  induction bytes as [|b bs IH]; intros H; [reflexivity|].
  inversion H as [|? ? Hb Hbs]; subst. cbn [hex_of flat_map app unhex]. fold (hex_of bs).
  rewrite (IH Hbs). f_equal. f_equal. pose proof (Z.div_mod b 16 ltac:(lia)). lia.
Qed.

Lemma chunks_concat n : (0 < n)%nat -> forall fuel l, (length l <= fuel)%nat -> concat (chunks fuel n l) = l.
Proof.
  intros Hn. induction fuel as [|fuel IH]; intros l Hl.
  - destruct l; [reflexivity|cbn in Hl; lia].
  - destruct l as [|x l]; [reflexivity|]. cbn [chunks concat].
    rewrite IH; [apply firstn_skipn|]. rewrite skipn_length. cbn [length] in *. lia.
Qed.

Lemma chunks_bounded n fuel : forall l, Forall (fun c => (length c <= n)%nat) (chunks fuel n l).
Proof.
  induction fuel as [|fuel IH]; intros l; [destruct l; constructor|].
  destruct l as [|x l]; [constructor|]. cbn [chunks]. constructor; [apply firstn_le_length|apply IH].
Qed.

(* every fragment is at most 82 hex characters = 41 bytes: with the 7-byte 0404 header it fits
   the 48-byte payload of a single frame *)
Theorem fragment_fits blob : Forall (fun c => (length c <= 82)%nat) (fragments_of blob).
Proof. apply chunks_bounded. Qed.

Section Zlib.
Variable compress : list Z -> list Z.
Variable decompress : list Z -> option (list Z).
Hypothesis zlib_roundtrip : forall b, decompress (compress b) = Some b.
Hypothesis compress_bytes : forall b, Forall (fun x => 0 <= x < 256) (compress b).

(* encode -> fragments -> decode is the identity on valid weekly schedules *)
Theorem sched_roundtrip s : valid_sched s -> decode decompress (encode compress s) = Some s.
Proof.
  intros V. unfold decode, encode, fragments_of.
  rewrite chunks_concat by lia. rewrite unhex_hex by apply compress_bytes.
  rewrite zlib_roundtrip. apply decode_raw_of, V.
Qed.

(* ---------------------------------------------------------------- reassembly *)
(* the fragments a controller sends for schedule s *)
Definition true_frag (s : sched) (k : nat) : frag :=
  {| f_num := S k; f_total := length (encode compress s); f_data := nth k (encode compress s) [] |}.

(* a payload set that is a partial copy of the true fragment set *)
Definition partial_of (s : sched) (ps : pset) : Prop :=
  length ps = length (encode compress s) /\
  forall k f, nth_error ps k = Some (Some f) -> f = true_frag s k.

Lemma set_nth_length n x ps : length (set_nth n x ps) = length ps.
Proof. revert n; induction ps as [|a ps IH]; intros [|n]; cbn; auto. Qed.

Lemma nth_error_set_nth n x ps : (n < length ps)%nat ->
  forall k, nth_error (set_nth n x ps) k = if Nat.eqb k n then Some x else nth_error ps k.
Proof.
  revert n. induction ps as [|a ps IH]; intros n Hn k; [cbn in Hn; lia|].
  destruct n as [|n]; destruct k as [|k]; cbn; try reflexivity. apply IH. cbn in Hn. lia.
Qed.

Lemma full_all ps : full ps = true -> forall k, (k < length ps)%nat -> exists f, nth_error ps k = Some (Some f).
Proof.
  induction ps as [|[f|] ps IH]; intros H k Hk; cbn in *; try lia; try discriminate.
  destruct k as [|k]; [exists f; reflexivity|]. apply IH; [exact H|lia].
Qed.

Lemma data_of_full s ps : partial_of s ps -> full ps = true -> data_of ps = encode compress s.
Proof.
  intros [Hlen Hp] Hf.
  assert (G : forall n ps' off, length ps' = n -> full ps' = true ->
            (forall k f, nth_error ps' k = Some (Some f) -> f_data f = nth (off + k) (encode compress s) []) ->
            (off + n = length (encode compress s))%nat ->
            data_of ps' = skipn off (encode compress s)).
  { induction n as [|n IH]; intros ps' off Hl Hfu Hd Ho.
    - destruct ps'; [|discriminate]. cbn. rewrite skipn_all2 by lia. reflexivity.
    - destruct ps' as [|[f|] ps']; try discriminate. cbn [data_of flat_map app]. fold (data_of ps').
      cbn in Hl, Hfu. injection Hl as Hl.
      rewrite (IH ps' (S off) Hl Hfu); [| |lia].
      + specialize (Hd 0%nat f eq_refl). rewrite Nat.add_0_r in Hd. rewrite Hd.
        assert (Hoff : (off < length (encode compress s))%nat) by lia.
        clear -Hoff. revert off Hoff. generalize (encode compress s).
        induction l as [|x l IHl]; intros off Hoff; [cbn in Hoff; lia|].
        destruct off as [|off]; [reflexivity|]. cbn [nth skipn]. apply IHl. cbn in Hoff. lia.
      + intros k f' Hk. specialize (Hd (S k) f' Hk). rewrite Nat.add_succ_r in Hd. exact Hd. }
  rewrite (G (length ps) ps 0%nat eq_refl Hf); [reflexivity| |lia].
  intros k f Hk. rewrite (Hp k f Hk). reflexivity.
Qed.

(* one received fragment of the true set keeps the set a partial copy, and a completed set
   decodes to exactly s *)
Lemma update_true s ps k : valid_sched s -> (k < length (encode compress s))%nat -> partial_of s ps ->
  let '(ps', r) := update_set decompress ps (true_frag s k) in
  partial_of s ps' /\ (r = None \/ r = Some s).
Proof.
  intros V Hk [Hlen Hp]. unfold update_set. cbn [f_total f_num true_frag].
  rewrite Hlen, Nat.eqb_refl. cbn [negb]. replace (S k - 1)%nat with k by lia.
  set (ps' := set_nth k (Some (true_frag s k)) ps).
  assert (P' : partial_of s ps').
  { split; [subst ps'; rewrite set_nth_length; exact Hlen|].
    intros j f Hj. subst ps'. rewrite nth_error_set_nth in Hj by lia.
    destruct (Nat.eqb j k) eqn:E; [apply Nat.eqb_eq in E; subst; injection Hj as <-; reflexivity|apply Hp, Hj]. }
  destruct (full ps') eqn:F; cbn [negb]; [|split; [exact P'|left; reflexivity]].
  rewrite (data_of_full s ps' P' F). fold (encode compress s).
  assert (D : decode decompress (encode compress s) = Some s) by (apply sched_roundtrip, V).
  rewrite D. split; [exact P'|right; reflexivity].
Qed.

(* fragments of the true set received in ANY order, with ANY repeats: the result is s or nothing *)
Theorem reassembly_any_order s : valid_sched s -> forall ks ps last,
  Forall (fun k => (k < length (encode compress s))%nat) ks -> partial_of s ps -> (last = None \/ last = Some s) ->
  let r := snd (feed_frags decompress ps last (map (true_frag s) ks)) in r = None \/ r = Some s.
Proof.
  intros V ks. induction ks as [|k ks IH]; intros ps last Hks P L; cbn [map feed_frags snd]; [exact L|].
  inversion Hks as [|? ? Hk Hks']; subst.
  pose proof (update_true s ps k V Hk P) as U.
  destruct (update_set decompress ps (true_frag s k)) as [ps' r]. destruct U as [P' R].
  apply IH; [exact Hks'|exact P'|]. destruct R as [-> | ->]; [exact L|right; reflexivity].
Qed.
End Zlib.
