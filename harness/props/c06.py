"""C06 -- request and reply correlate: echo/reply headers match, distinct contexts differ.

Coq: the header function (pkt_header, _ctx, _pkt_idx, _has_array, _has_ctl) over regenerated code tables;
theorems: the echo is recognised whatever id the gateway substitutes, the proper reply is recognised, and
whatever is recognised as echo/reply has the request's code, verb, device and context.  Tie: the model's
header / rx_header vs Packet._hdr / pkt_header(rx_header=True) on a sweep of frames of every code, verb,
address shape and device type.  Oracle: the matching rule of the protocol FSM on commands of the public
constructors and raw requests, their echoes, proper replies and near-misses."""

from __future__ import annotations

import datetime as _dt
import logging
import re

from .. import common
from ..common import Ctx
from ..regen import gen

THEOREMS = ["C06_echo_recognised", "C06_reply_recognised", "C06_only_the_reply_matches", "C06_only_the_echo_matches",
            "C06_dts_reply_refuted", "C06_rq_1fc9_refuted"]

PRELUDE = """From Coq Require Import ZArith String List Bool.
From RV Require Import PyStr M_Header.
Import ListNotations.
Open Scope Z_scope.
Set Printing Width 1000000. Set Printing Depth 1000000.
Definition sh (r : hres) : list Z := match r with
  | HOk h => [1; h_code h; verb_idx (h_verb h); fst (h_dev h); snd (h_dev h)] ++ match h_ctx h with Some s => 1 :: map (fun c => Z.of_nat (Ascii.nat_of_ascii c)) s | None => [0] end
  | HNone => [2] | HRaise => [3] end.
Definition both (f : frame) : list (list Z) := [sh (header f); sh (rx_header f)].
"""
VERBS = {" I": "VI", "RQ": "VRQ", "RP": "VRP", " W": "VW"}
DEVS = ["01:145038", "13:123456", "10:123456", "07:123456", "22:123456", "12:123456", "30:123456", "02:123456", "04:123456", "32:123456",
        "23:123456", "18:000730", "18:111111", "03:123456", "34:123456", "63:262142"]
HGI, GW = "18:000730", "18:111111"
D = _dt.datetime(2026, 1, 1)
NULL_0418 = "000000B0000000000000000000007FFFFF7000000000"


def aq(a):
    return "(-1, -1)" if a == "--:------" else f"({int(a[:2])}, {int(a[3:])})"


def enc(h):
    if h is None:
        return [2]
    parts = h.split("|")
    r = [1, int(parts[0], 16), [" I", "RQ", "RP", " W"].index(parts[1]), int(parts[2][:2]), int(parts[2][3:])]
    return r + ([1] + [ord(c) for c in parts[3]] if len(parts) > 3 else [0])


def correspondence(ctx: Ctx, built: bool, per: int):
    from ramses_tx.frame import pkt_header  # noqa: PLC0415
    from ramses_tx.packet import Packet  # noqa: PLC0415
    from ramses_tx.ramses import CODES_SCHEMA  # noqa: PLC0415

    rnd = ctx.rng
    cases = []
    for code, d in sorted(CODES_SCHEMA.items()):
        for verb in VERBS:
            if verb not in d:
                continue
            for _ in range(per):
                pl = gen(d[verb], rnd, mode=rnd.choice(["rand", "rand", "lo", "hi", "rand-lo", "rand-hi"]))
                if len(pl) % 2 or not 2 <= len(pl) <= 96:
                    continue
                src, dst = rnd.choice(DEVS), rnd.choice(DEVS)
                shape = rnd.choice(["sd", "sd", "ss", "nn"] if code != "1FC9" else ["sd", "ss"]) if verb == " I" else "sd"
                if shape == "sd":
                    if src == dst:
                        continue
                    a, ms, md = f"{src} {dst} --:------", src, dst
                elif shape == "ss":
                    a, ms, md = f"{src} --:------ {src}", src, src
                else:
                    a, ms, md = f"--:------ --:------ {src}", src, "--:------"
                frame = f"{verb} --- {a} {code} {len(pl) // 2:03d} {pl}"
                try:
                    p = Packet.from_port(D, "000 " + frame)
                except Exception:  # noqa: BLE001, S112
                    continue
                res = []
                for fn in (lambda: p._hdr, lambda: pkt_header(p, rx_header=True)):
                    try:
                        res.append(enc(fn()))
                    except Exception as err:  # noqa: BLE001
                        res.append([3] if type(err).__name__ in ("PacketPayloadInvalid", "NotImplementedError") else [9])
                cases.append((frame, f'both (mkFrame {VERBS[verb]} {aq(ms)} {aq(md)} {int(code, 16)} (lit "{pl}"%string))', res))
                ctx.case(("header", frame), True, f"header:{verb.strip()}:{shape}")
    if not built:
        ctx.obligation("correspondence:header-and-rx_header", False, "correspondence", "model not built")
        return
    files = {f"s{i}": PRELUDE + "".join(f"Eval vm_compute in ({c[1]}).\n" for c in cases[i::8]) for i in range(8)}
    res = common.coq_eval("C06", files, timeout=900)
    bad = []
    for i in range(8):
        rc, out = res[f"s{i}"]
        got = [eval(o.replace(";", ","), {"__builtins__": {}}) for o in re.findall(r"=\s*(\[.*?\])\s*:\s*list \(list Z\)", out, flags=re.S)]  # noqa: S307
        mine = cases[i::8]
        if rc or len(got) != len(mine):
            bad.append(f"rc={rc}: {len(got)} results for {len(mine)} cases {out[-300:]}")
            break
        for (frame, _, want), g in zip(mine, got):
            if [list(x) for x in g] != want:
                bad.append(f"{frame}: model {[list(x) for x in g]} implementation {want}")
    ctx.obligation("correspondence:header-and-rx_header", not bad, "correspondence",
                   f"{len(bad)} of {len(cases)} differ; first: {bad[0][:600]}" if bad else f"{len(cases)} frames: header and rx_header agree")


def ctx_positions(code):
    return {"0005": [(0, 4)], "000C": [(0, 4)], "0404": [(0, 4), (10, 12)], "0418": [(4, 6)], "3220": [(4, 6)]}.get(code, [(0, 2)])


def rule_echo(cmd, pkt):
    """The model's echo rule: the packet's header with the placeholder replaced by the gateway's id == the command's tx_header (likewise replaced)."""
    return pkt._hdr.replace(HGI, GW) == cmd.tx_header.replace(HGI, GW)


def rule_reply(cmd, pkt):
    """The model's reply rule, incl. the 0418 null-entry exception."""
    rx = cmd.rx_header
    if not rx:
        return False
    rx = rx.replace(HGI, GW)   # Command.rx_header of a 1FC9 offer/accept names the sender itself
    if rx[:8] == "0418|RP|" and rx[:-2] == pkt._hdr[:-2] and pkt.payload == NULL_0418:
        return True
    return pkt._hdr == rx


class _Proto:
    hgi_id = GW


class _Ctx:
    """Just enough of a ProtocolContext for the REAL state classes to decide about one packet."""

    def __init__(self):
        self._protocol = _Proto()
        self._state = None
        self.moves = []

    def set_state(self, cls, result=None, **kw):
        self.moves.append((cls.__name__, result))

    def __repr__(self):
        return "<ctx>"


MISMATCH: list = []     # (which, frame, packet, rule, real): the model's rule against the real state classes


def _want_echo(cmd):
    from ramses_tx.protocol_fsm import IsInIdle, WantEcho  # noqa: PLC0415

    from ramses_tx.command import Command  # noqa: PLC0415

    c = _Ctx()
    c._state = IsInIdle(c)
    # a FRESH command object (the same frame), which nobody has looked at: what the FSM reads must not depend on an earlier reader having
    # filled the command's lazily computed headers
    c._state.cmd_sent(Command(str(cmd)), is_retry=False)
    assert c.moves == [("WantEcho", None)], c.moves
    c._state = WantEcho(c)
    c.moves.clear()
    return c


def fsm_echo(cmd, pkt):
    """The REAL WantEcho.pkt_rcvd: 'echo', 'reply' (a reply arriving before the echo) or None."""
    c = _want_echo(cmd)
    c._state.pkt_rcvd(pkt)
    if not c.moves:
        return None
    return "echo" if c._state._echo_pkt is pkt else "reply"


def fsm_reply(cmd, echo, pkt):
    """The REAL WantRply.pkt_rcvd after the real WantEcho took [echo]: is [pkt] taken for the reply?"""
    from ramses_tx.protocol_fsm import WantRply  # noqa: PLC0415

    c = _want_echo(cmd)
    c._state.pkt_rcvd(echo)
    if c.moves != [("WantRply", None)]:
        return None                      # the echo was not taken / no reply is waited for
    c._state = WantRply(c)
    c.moves.clear()
    c._state.pkt_rcvd(pkt)
    return bool(c.moves) and c.moves[-1][1] is pkt


def is_echo(cmd, pkt):
    real, rule = fsm_echo(cmd, pkt), rule_echo(cmd, pkt)
    if real != "reply" and (real == "echo") != rule:
        MISMATCH.append(("echo", str(cmd), str(pkt), rule, real))
    return real == "echo"


def is_reply(cmd, pkt, echo=None):
    rule = rule_reply(cmd, pkt)
    if echo is None:
        return rule
    real = fsm_reply(cmd, echo, pkt)
    if real is None:
        real = False
    if pkt._hdr == cmd.tx_header and real is False and rule:   # the real FSM refuses a second echo first
        return real
    if real != rule:
        MISMATCH.append(("reply", str(cmd), str(pkt), rule, real))
    return real


def constructors():
    from ramses_tx.command import Command as C  # noqa: PLC0415

    ctl, d = "01:145038", _dt.datetime(2026, 2, 28, 12)
    out = []
    for z in ("00", "03", "0B"):
        out += [C.get_zone_name(ctl, z), C.get_zone_config(ctl, z), C.get_zone_mode(ctl, z), C.get_zone_temp(ctl, z), C.get_zone_window_state(ctl, z),
                C.get_mix_valve_params(ctl, z), C.get_zone_setpoint(ctl, z), C.set_zone_setpoint(ctl, z, 21.5), C.set_zone_config(ctl, z),
                C.set_zone_name(ctl, z, "abc"), C.set_mix_valve_params(ctl, z), C.set_zone_mode(ctl, z, mode="permanent_override", setpoint=20.0),
                C.get_schedule_fragment(ctl, z, 1, 0), C.get_schedule_fragment(ctl, z, 2, 3), C.set_schedule_fragment(ctl, z, 1, 3, "AA" * 41)]
    out += [C.get_dhw_params(ctl), C.get_dhw_temp(ctl), C.get_dhw_mode(ctl), C.set_dhw_params(ctl), C.set_dhw_mode(ctl, mode="follow_schedule"),
            C.get_tpi_params(ctl), C.get_tpi_params("13:111111"), C.set_tpi_params(ctl, "FC"), C.get_relay_demand("13:111111"), C.get_schedule_version(ctl),
            C.get_system_mode(ctl), C.set_system_mode(ctl, "auto"), C.get_system_time(ctl), C.set_system_time(ctl, d), C.get_system_language(ctl),
            C.get_schedule_fragment(ctl, "HW", 1, 0)]
    out += [C.get_system_log_entry(ctl, i) for i in (0, 1, 5, 63)]
    out += [C.get_opentherm_data("10:123456", i) for i in (0, 5, 17, 25, 127, 255)]
    out += [C.from_attrs("RQ", ctl, "0005", f"00{t}") for t in ("08", "0A", "04", "0F")]
    out += [C.from_attrs("RQ", ctl, "000C", p) for p in ("0308", "0304", "000D", "010E", "000F", "0B00")]
    return out


def two_gateways(ctx: Ctx) -> None:
    """All gateway ids: the SAME public-constructor call made twice, the first command sent through a gateway with one id, the second through a
    gateway with another (a second stack in the process, a replaced dongle).  Each gateway must recognise its own echo / reply and ignore the
    other's -- whatever the first send did to the first command object must not show in the second."""
    from ramses_tx.command import Command as C  # noqa: PLC0415
    from ramses_tx.packet import Packet  # noqa: PLC0415
    from ramses_tx.protocol_fsm import IsInIdle, WantEcho  # noqa: PLC0415

    A, B = "18:006402", "18:123456"
    calls = [("from_attrs I 22F1", lambda: C.from_attrs(" I", "32:155617", "22F1", "000304")),
             ("from_attrs I 1FC9 offer", lambda: C.put_bind(" I", HGI, ["30C9"], None)),
             ("from_attrs W 1FC9 accept", lambda: C.put_bind(" W", HGI, ["30C9"], "34:021943")),
             ("put_sensor_temp", lambda: C._from_attrs(" I", "30C9", "0007D0", addr0=HGI, addr2=HGI)),
             ("get_zone_temp", lambda: C.get_zone_temp("01:145038", "03")),
             ("set_zone_setpoint", lambda: C.set_zone_setpoint("01:145038", "03", 19.5))]

    def want_echo(cmd, gw_id):
        c = _Ctx()
        c._protocol = type("P", (), {"hgi_id": gw_id})()
        c._state = IsInIdle(c)
        c._state.cmd_sent(cmd, is_retry=False)
        c._state = WantEcho(c)
        c.moves.clear()
        return c

    for name, build in calls:
        try:
            first, second = build(), build()
        except Exception:  # noqa: BLE001, S112
            continue
        frame = str(first)
        ctx.case(("two-gateways", name), True, "two-gateways")
        want_echo(first, A)                      # the first command goes out through gateway A
        for which, mine, other in (("second", B, A),):
            c = want_echo(second, mine)
            own = Packet.from_port(D, "000 " + frame.replace(HGI, mine))
            foreign = Packet.from_port(D, "000 " + frame.replace(HGI, other))
            c._state.pkt_rcvd(own)
            took_own = bool(c.moves)
            c2 = want_echo(build(), mine)
            c2._state.pkt_rcvd(foreign)
            took_foreign = bool(c2.moves) and HGI in build().tx_header      # (a request's header names its destination only: another gateway's identical request is the known finding)
            case = {"constructor": name, "frame": frame, "first_sent_through": A, "then_sent_through": mine}
            if not took_own:
                ctx.violation("echo-not-recognised:same-call-through-another-gateway", f"{name}: the command built again and sent through gateway {mine} does not recognise its own echo "
                              f"(the first one had been sent through {A})", case, "history")
            if took_foreign:
                ctx.violation("foreign-echo-taken:same-call-through-another-gateway", f"{name}: sent through gateway {mine}, the frame as transmitted by gateway {other} is taken for its echo", case, "history")


def oracle(ctx: Ctx, per: int):
    from ramses_tx.command import Command  # noqa: PLC0415
    from ramses_tx.packet import Packet  # noqa: PLC0415
    from ramses_tx.ramses import CODE_IDX_ARE_COMPLEX, CODE_IDX_ARE_SIMPLE, CODES_SCHEMA, CODES_WITH_ARRAYS  # noqa: PLC0415

    IDX_CODES = {str(c) for c in CODE_IDX_ARE_SIMPLE | CODE_IDX_ARE_COMPLEX}       # the codes whose first byte the library itself reads as an index

    rnd = ctx.rng
    cmds = [(c, "constructor") for c in constructors()]
    dsts = ["01:145038", "13:123456", "10:123456", "07:123456", "22:123456", "12:123456", "30:123456", "02:123456", "04:123456", "32:123456", "23:123456"]
    for code, d in sorted(CODES_SCHEMA.items()):
        for verb, rverb in (("RQ", "RP"), (" W", " I")):
            if verb not in d or rverb not in d:
                continue
            for dst in dsts:
                for _ in range(per):
                    pl = gen(d[verb], rnd)
                    if len(pl) % 2 or not 2 <= len(pl) <= 96:
                        continue
                    try:
                        cmds.append((Command(f"{verb} --- {HGI} {dst} --:------ {code} {len(pl) // 2:03d} {pl}"), "raw"))
                        _ = cmds[-1][0].tx_header, cmds[-1][0].rx_header
                    except Exception:  # noqa: BLE001
                        cmds.pop() if cmds and cmds[-1][1] == "raw" and str(cmds[-1][0]).endswith(pl) else None   # not a request the library can send
    for cmd, origin in cmds:
        code, verb = str(cmd.code), cmd.verb
        rverb = "RP" if verb == "RQ" else " I"
        frame = str(cmd)
        dts = cmd.dst.id[:2] in ("12", "22")
        case = {"command": frame, "origin": origin, "tx_header": cmd.tx_header, "rx_header": cmd.rx_header}
        ctx.case(("cmd", frame), True, f"request:{origin}:{verb.strip()}")
        # the echo, with the gateway's real id
        try:
            echo = Packet.from_port(D, "000 " + frame.replace(HGI, GW))
            if not is_echo(cmd, echo):
                ctx.violation(f"echo-not-recognised:{code}", f"the echo {echo} (header {echo._hdr}) of {frame} (tx_header {cmd.tx_header}) is not recognised", case, "input")
        except Exception as err:  # noqa: BLE001
            ctx.violation(f"echo-raises:{type(err).__name__}:{code}", f"the echo of {frame} cannot be decoded: {err}", case, "input")
            continue
        # the same request heard from another sender is (by design of the header) indistinguishable from the echo
        other = Packet.from_port(D, "045 " + frame.replace(HGI, "01:999999" if cmd.dst.id != "01:999999" else "01:888888"))
        try:
            if is_echo(cmd, other):
                ctx.violation("request-of-another-sender-taken-for-the-echo", f"{other} (another device's request) has the echo's header {other._hdr}", {**case, "packet": str(other)}, "input")
        except Exception:  # noqa: BLE001, S110
            pass
        for stray in (f"045 RP --- 01:145038 {GW} --:------ 30C9 003 0407D0", f"045 RP --- 10:123456 {GW} --:------ 3220 005 00C01A0000", f"045  I --- 01:145038 {GW} --:------ 2309 003 0307D0"):
            sp = Packet.from_port(D, stray)
            if sp._hdr not in (cmd.tx_header.replace(HGI, GW), (cmd.rx_header or "").replace(HGI, GW)) and fsm_echo(cmd, sp) is not None:
                ctx.violation("unrelated-packet-ends-the-wait-for-the-echo", f"{stray} (addressed to the gateway, another code / zone) arriving while the echo of {frame} is awaited ends the wait",
                              {**case, "packet": stray}, "input")
        rx = CODES_SCHEMA.get(code, {}).get(rverb)
        if not rx:
            continue
        if code == "1FC9" and verb == "RQ":
            ctx.violation("reply-not-recognised:RQ-1FC9-has-no-rx_header", f"{frame}: rx_header is {cmd.rx_header}, so no RP|1FC9 is recognised as its reply", case, "input")
            continue
        n_ok = 0
        for k in range(7):
            null_entry = k == 6
            if null_entry and (code, verb) != ("0418", "RQ"):
                continue
            rp = NULL_0418 if null_entry else gen(rx, rnd)      # "no entry at this index": carries index 00 whatever was asked
            if len(rp) % 2 or not 2 <= len(rp) <= 96:
                continue
            if code in CODES_WITH_ARRAYS and len(rp) // 2 != CODES_WITH_ARRAYS[code][0]:
                continue        # a proper reply to a request about one zone is one element
            rpl, ok = list(rp), True
            for a, b in ([] if null_entry else ctx_positions(code)):
                if len(rpl) < b or len(cmd.payload) < b:
                    ok = False
                    break
                rpl[a:b] = cmd.payload[a:b]
            rp = "".join(rpl)
            if not ok or not re.match(rx, rp):
                continue
            line = f"045 {rverb} --- {cmd.dst.id} {GW} --:------ {code} {len(rp) // 2:03d} {rp}"
            try:
                r = Packet.from_port(D, line)
                recognised = is_reply(cmd, r, echo)
                hdr = r._hdr
            except Exception as err:  # noqa: BLE001
                why = "request-to-a-DTS-thermostat" if dts else f"{type(err).__name__}:{code}"
                ctx.violation(f"reply-header-raises:{why}", f"the reply {line} to {frame} cannot be given a header: {err}", {**case, "reply": line}, "input")
                continue
            # the same reply arriving BEFORE the echo (the real WantEcho decides): taken for the reply, or left alone -- never for the echo
            early = fsm_echo(cmd, r)
            if early == "echo":
                ctx.violation(f"reply-taken-for-the-echo:{code}", f"{line} is the reply to {frame} but WantEcho takes it for the echo", {**case, "reply": line}, "input")
            rule_early = bool(cmd.rx_header) and r._hdr == cmd.rx_header.replace(HGI, GW)     # before the echo there is no 0418 null-entry exception
            if (early == "reply") != rule_early:
                MISMATCH.append(("reply-before-echo", str(cmd), str(r), rule_early, early))
            if not recognised:
                why = "request-to-a-DTS-thermostat" if dts else code
                ctx.violation(f"reply-not-recognised:{why}", f"{line} (header {hdr}) is the proper reply to {frame} (rx_header {cmd.rx_header}) but is not recognised",
                              {**case, "reply": line, "reply_header": hdr}, "input")
                continue
            n_ok += 1
            # near-misses: exactly one of verb / responding device / code / context differs
            misses = [("verb", line.replace(f" {rverb} ", " RP " if rverb == " I" else "  I ", 1)),
                      ("src", line.replace(cmd.dst.id, cmd.dst.id[:3] + "999999"))]
            if len(hdr.split("|")) > 3 or code in ("0005", "000C", "0404", "0418", "3220"):   # a context is carried (or must be): vary its positions
                for a, b in ctx_positions(code):
                    if code == "0404" and (a, b) == (0, 4) and rp[2:4] == "23":
                        continue             # the one DHW schedule: its zone byte is not part of the context ('HW')
                    alts = [f"{(int(rp[a:b][:2], 16) + 1) % 12:02X}" + rp[a:b][2:]]
                    if b - a == 4:          # a two-byte context (index + type/role): vary the second byte too
                        alts += [rp[a:a + 2] + x for x in ("08", "09", "0A", "0B", "11", "04", "0D", "0E", "0F", f"{(int(rp[a + 2:b], 16) + 1) % 256:02X}") if x != rp[a + 2:b]]
                    for piece in alts:
                        alt = rp[:a] + piece + rp[b:]
                        if alt != rp and re.match(rx, alt):
                            misses.append((f"context[{a}:{b}]", f"045 {rverb} --- {cmd.dst.id} {GW} --:------ {code} {len(alt) // 2:03d} {alt}"))
            elif rp[:2] == "00" and cmd.dst.type in ("10", "13") and code in IDX_CODES:
                # a reply that carries NO context (a relay's, an OpenTherm bridge's: index byte 00): the same payload with another index byte is not that reply
                alt = "01" + rp[2:]
                if re.match(rx, alt):
                    misses.append(("context[index-byte-of-a-contextless-reply]", f"045 {rverb} --- {cmd.dst.id} {GW} --:------ {code} {len(alt) // 2:03d} {alt}"))
            if code == "0404" and rp[:2] == "00" and rp[2:4] in ("20", "23"):
                # the hot-water schedule and zone 00's schedule both carry zone byte 00: the schedule type (23 / 20) tells them apart
                alt = rp[:2] + ("20" if rp[2:4] == "23" else "23") + rp[4:]
                if re.match(rx, alt):
                    misses.append(("context[hot-water-vs-zone-00]", f"045 {rverb} --- {cmd.dst.id} {GW} --:------ {code} {len(alt) // 2:03d} {alt}"))
            for what, ml in misses:
                try:
                    m = Packet.from_port(D, ml)
                    if m._hdr != hdr and m._hdr != cmd.rx_header.replace(HGI, GW) and fsm_echo(cmd, m) is not None and not rule_echo(cmd, m):
                        ctx.violation(f"near-miss-taken-before-the-echo:{what}", f"{ml} differs from the reply in its {what}; arriving while the echo of {frame} is awaited it ends the wait",
                                      {**case, "packet": ml}, "input")
                    if m._hdr != hdr and m._hdr != cmd.rx_header.replace(HGI, GW) and is_reply(cmd, m, echo):
                        ctx.violation(f"near-miss-taken-for-the-reply:{what}", f"{ml} differs from the reply in its {what} but is recognised as the reply to {frame}", {**case, "packet": ml}, "input")
                    if m._hdr == hdr and what != "verb":
                        sig = f"near-miss-has-the-replys-header:{what}:{code}"
                        ctx.violation(sig, f"{ml} differs from the reply {line} in its {what} but has the same header {hdr}", {**case, "packet": ml}, "input")
                except Exception:  # noqa: BLE001, S110
                    pass


def default_mode_replies(ctx: Ctx) -> None:
    """The stack as a Gateway builds it (QoS neither forced on nor off): the exchanges the library itself waits on -- schedule fragments read and
    WRITTEN, fault-log entries, the schedule change counter -- sent with wait_for_reply through the REAL PortProtocol; the reply comes 50 ms after
    the echo.  send_cmd must hand back the reply (the packet with the command's rx_header), not the echo."""
    import asyncio  # noqa: PLC0415

    from ramses_tx import exceptions as exc  # noqa: PLC0415
    from ramses_tx.command import Command  # noqa: PLC0415
    from ramses_tx.packet import Packet  # noqa: PLC0415
    from ramses_tx.protocol import PortProtocol  # noqa: PLC0415
    from ramses_tx.typing import QosParams  # noqa: PLC0415

    CTL = "01:145038"
    frag = "7881EB".ljust(40, "0")
    cmds = [(Command.set_schedule_fragment(CTL, "03", 1, 3, frag), f" I --- {CTL} {GW} --:------ 0404 007 03200008000103"),
            (Command.set_schedule_fragment(CTL, "03", 3, 3, frag), f" I --- {CTL} {GW} --:------ 0404 007 03200008000300"),
            (Command.set_schedule_fragment(CTL, "HW", 1, 1, frag), f" I --- {CTL} {GW} --:------ 0404 007 00230008000100"),
            (Command.get_schedule_fragment(CTL, "03", 1, 0), f"RP --- {CTL} {GW} --:------ 0404 010 032000080301037881EB"),
            (Command.get_system_log_entry(CTL, 2), f"RP --- {CTL} {GW} --:------ 0418 022 004002B0060804000000CB955F71FFFFFF70001283B3"),
            (Command.get_schedule_version(CTL), f"RP --- {CTL} {GW} --:------ 0006 004 00050009")]
    results = []

    async def main(mode):
        loop = asyncio.get_running_loop()
        pp = PortProtocol(lambda m: None, disable_qos=mode)

        class Tr:
            def get_extra_info(self, k, d=None):
                return {"active_gwy": GW, "is_evofw3": True}.get(k, d)

            def is_closing(self):
                return False

            def close(self):
                pass

            async def write_frame(self, frame, disable_tx_limits=False):
                loop.call_later(0.005, lambda: pp.pkt_received(Packet(_dt.datetime.now(), "000 " + frame[:7] + GW + frame[16:])))
                rp = next((r for c, r in cmds if str(c) == frame), None)
                if rp:
                    loop.call_later(0.055, lambda: pp.pkt_received(Packet(_dt.datetime.now(), "045 " + rp)))

        pp.connection_made(Tr(), ramses=True)
        await asyncio.sleep(0)
        for cmd, rp in cmds:
            try:
                pkt = await asyncio.wait_for(pp.send_cmd(cmd, qos=QosParams(wait_for_reply=True, timeout=3, max_retries=1)), 8)
                results.append((mode, cmd, "ok", pkt._hdr, str(pkt)))
            except (exc.ProtocolError, TimeoutError) as err:
                results.append((mode, cmd, "failed", None, f"{type(err).__name__}: {err}"[:160]))
            await asyncio.sleep(0.1)
        try:
            pp.connection_lost(None)
        except AssertionError:
            pass

    for mode in (None, False):
        loop = asyncio.new_event_loop()
        asyncio.set_event_loop(loop)
        try:
            loop.run_until_complete(main(mode))
        except Exception as err:  # noqa: BLE001
            ctx.violation(f"harness:default-mode-replies-raises:{type(err).__name__}", str(err)[:200], {"mode": str(mode)}, "input")
        finally:
            asyncio.set_event_loop(None)
            loop.close()
    for mode, cmd, how, hdr, what in results:
        ctx.case(("default-mode-reply", str(mode), str(cmd)), True, "reply-through-the-real-protocol:" + ("default-qos-mode" if mode is None else "qos-forced-on"))
        if how != "ok" or hdr != cmd.rx_header:
            ctx.violation(f"reply-not-handed-back:{cmd.verb.strip()}|{cmd.code}:" + ("default-qos-mode" if mode is None else "qos-forced-on"),
                          f"{cmd} sent with wait_for_reply (QoS {'as a Gateway sets it up' if mode is None else 'forced on'}); its reply came 50 ms after the echo; send_cmd ended with {what} "
                          f"(header {hdr}, the command asks for {cmd.rx_header})", {"frame": str(cmd), "disable_qos": str(mode), "outcome": what}, "schedule")


def through_the_protocol(ctx: Ctx) -> None:
    """The echo reaches the state machine through the REAL PortProtocol, device filters included: with the known list enforced (the controller and
    the gateway's real id listed, the 18:000730 placeholder not), frames whose echo still carries the placeholder -- the dongle rewrites the
    first address only -- are recognised as echoes, and an ordinary request gets its reply."""
    import asyncio  # noqa: PLC0415

    from ramses_tx import exceptions as exc  # noqa: PLC0415
    from ramses_tx.command import Command  # noqa: PLC0415
    from ramses_tx.packet import Packet  # noqa: PLC0415
    from ramses_tx.protocol import PortProtocol  # noqa: PLC0415
    from ramses_tx.typing import QosParams  # noqa: PLC0415

    CTL = "01:145038"
    frames = [("RQ --- 18:000730 01:145038 --:------ 12B0 001 01", f"RP --- {CTL} {GW} --:------ 12B0 003 010000"),
              (" I --- --:------ --:------ 18:000730 0008 002 00BB", None),
              (" I --- 18:000730 --:------ 18:000730 30C9 003 0007D0", None),
              (" I --- 18:000730 63:262142 --:------ 1FC9 006 0030C9489A21", None)]
    results = {}
    slow = {"on": False}

    async def main(listed, blocked):
        loop = asyncio.get_running_loop()
        got = []
        pp = PortProtocol(got.append, disable_qos=False, enforce_include_list=bool(listed), exclude_list=blocked, include_list=listed)

        class Tr:
            def get_extra_info(self, k, d=None):
                return {"active_gwy": GW, "is_evofw3": True}.get(k, d)

            def is_closing(self):
                return False

            def close(self):
                pass

            async def write_frame(self, frame, disable_tx_limits=False):
                f = frame.split(" ")
                echo = frame if not frame[7:16] == HGI else frame[:7] + GW + frame[16:]      # the dongle puts its id in the FIRST address only
                loop.call_later(0.005, lambda: pp.pkt_received(Packet(_dt.datetime.now(), "000 " + echo)))
                rp = next((r for fr, r in frames if fr == frame), None)
                if rp:
                    loop.call_later(0.15 if slow["on"] else 0.01, lambda: pp.pkt_received(Packet(_dt.datetime.now(), "045 " + rp)))
                del f

        pp.connection_made(Tr(), ramses=True)
        await asyncio.sleep(0)
        for frame, rp in frames:
            try:
                pkt = await asyncio.wait_for(pp.send_cmd(Command(frame), qos=QosParams(wait_for_reply=bool(rp), timeout=3, max_retries=1)), 8)
                results[(tuple(listed), tuple(blocked), frame)] = ("ok", str(pkt))
            except (exc.ProtocolError, TimeoutError) as err:
                results[(tuple(listed), tuple(blocked), frame)] = ("failed", f"{type(err).__name__}: {err}"[:160])
        # the reply is recognised as the reply of the command IN FLIGHT even when an identical frame (another Command object, e.g. a second poller's)
        # waits in the buffer behind it and gives up first
        if not listed and not blocked:
            rq = "RQ --- 18:000730 01:145038 --:------ 0004 002 0200"
            rpf = f"RP --- {CTL} {GW} --:------ 0004 022 02004C6976696E6720526F6F6D000000000000000000"
            slow["on"] = True
            frames.append((rq, rpf))
            a = asyncio.ensure_future(pp.send_cmd(Command(rq), qos=QosParams(wait_for_reply=True, timeout=3, max_retries=0)))
            await asyncio.sleep(0.02)
            b = asyncio.ensure_future(pp.send_cmd(Command(rq), qos=QosParams(wait_for_reply=True, timeout=0.1, max_retries=0)))
            for name, fut in (("queued-duplicate", b), ("in-flight", a)):
                try:
                    pkt = await asyncio.wait_for(fut, 8)
                    results[((), (), f"{rq} [{name}]")] = ("ok", str(pkt))
                except (exc.ProtocolError, TimeoutError) as err:
                    results[((), (), f"{rq} [{name}]")] = ("failed", f"{type(err).__name__}: {err}"[:160])
            frames.pop()
            slow["on"] = False
        try:
            pp.connection_lost(None)
        except AssertionError:       # the FSM's own consistency check on being torn down right after a send: C09's subject, not this one's
            pass

    for listed, blocked in (({CTL: {}, GW: {}}, {}), ({}, {}), ({CTL: {}, GW: {"class": "HGI"}}, {"04:111111": {}})):
        loop = asyncio.new_event_loop()
        asyncio.set_event_loop(loop)
        try:
            loop.run_until_complete(main(listed, blocked))
        except Exception as err:  # noqa: BLE001
            ctx.violation(f"harness:through-the-protocol-raises:{type(err).__name__}", str(err)[:200], {"known_list": list(listed)}, "input")
        finally:
            asyncio.set_event_loop(None)
            loop.close()
    for (listed, blocked, frame), (how, what) in results.items():
        ctx.case(("through-protocol", listed, blocked, frame), True, "echo-through-the-real-protocol")
        if frame.endswith("[queued-duplicate]"):
            continue          # it gives up after 0.1 s by design
        if frame.endswith("[in-flight]"):
            if how != "ok" or " 0004 022 " not in what:
                ctx.violation("reply-not-recognised:identical-frame-queued-behind", f"{frame[:-12]}: its reply arrived 0.15 s after it was sent (caller's timeout 3 s) while an identical frame, queued "
                              f"behind it by another caller, had given up after 0.1 s; send_cmd ended with {what}", {"frame": frame, "outcome": what}, "schedule")
            continue
        if how != "ok":
            ctx.violation("echo-not-recognised:through-the-protocol" + (":placeholder-in-the-echo" if HGI in frame[16:] or frame[7:16] != HGI else ""),
                          f"{frame} was written and echoed by the gateway ({GW}), yet send_cmd ended with {what}",
                          {"frame": frame, "known_list": list(listed), "block_list": list(blocked), "enforce_known_list": bool(listed), "outcome": what}, "input")


def run(ctx: Ctx) -> None:
    logging.disable(logging.CRITICAL)
    thorough = ctx.tier == "thorough"
    ctx.rule = ("(a) frames of every code x verb from the schema regexes (lowest/highest/random payloads), three address shapes, 16 device ids of 14 types: the model's "
                "header and rx_header vs Packet._hdr and pkt_header(rx_header=True); (b) commands of the public constructors (zones 00/03/0B, log entries, OpenTherm ids, "
                "fragments, 0005/000C roles) and raw RQ/W frames for 11 destination types: the echo with the gateway's real id, proper replies (payloads from the reply "
                "regex carrying the request's context positions), near-misses differing in exactly one of verb / device / context, judged by the real protocol FSM state classes "
                "(and by the model's matching rule, compared); non-trivial = every case; distinct = by frame")
    ctx.assumptions += ["every echo / reply / near-miss decision is taken by the REAL IsInIdle.cmd_sent -> WantEcho.pkt_rcvd -> WantRply.pkt_rcvd on a stand-in context that only records set_state(); the model's rule (rule_echo/rule_reply, incl. the placeholder substitution and the 0418 null-entry exception) is compared with each of those decisions",
                        "a 'proper reply' repeats the request's context positions (payload[:2]; [:4] for 0005/000C; [:4]+[10:12] for 0404; [4:6] for 0418/3220) and is a single element for array-capable codes"]
    built = ctx.build("C06", THEOREMS)
    correspondence(ctx, built, 24 if thorough else 5)
    MISMATCH.clear()
    oracle(ctx, 3 if thorough else 1)
    two_gateways(ctx)
    through_the_protocol(ctx)
    default_mode_replies(ctx)
    ctx.obligation("correspondence:matching-rule-vs-real-WantEcho/WantRply", not MISMATCH, "correspondence",
                   f"{len(MISMATCH)} decisions differ; first: {MISMATCH[0]}" if MISMATCH else "")


def replay(case: dict) -> int:
    print(case.get("signature"), str(case.get("case"))[:2000])
    return 0
