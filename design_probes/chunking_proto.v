From Coq Require Import List Bool Arith Lia.
Import ListNotations.

Section Split.
Variable B : Type.
Variables isCR isLF : B -> bool.
(* a byte is never both CR and LF *)
Hypothesis cr_not_lf : forall x, isCR x = true -> isLF x = false.

Definition cons_first (x : B) (r : list (list B) * list B) : list (list B) * list B :=
  match r with
  | ([], t) => ([], x :: t)
  | (l :: ls, t) => ((x :: l) :: ls, t)
  end.

(* bytes.split(b"\r\n"): (complete lines, unterminated tail) *)
Fixpoint split (s : list B) : list (list B) * list B :=
  match s with
  | [] => ([], [])
  | x :: s' =>
      match s' with
      | y :: s'' =>
          if isCR x && isLF y
          then let (ls, t) := split s'' in ([] :: ls, t)
          else cons_first x (split s')
      | [] => ([], [x])
      end
  end.

(* PortTransport._read_ready.bytes_read : buffer -> data -> (new buffer, lines) *)
Definition feed (buf data : list B) : list B * list (list B) :=
  let (ls, t) := split (buf ++ data) in (t, ls).

Fixpoint feed_all (buf : list B) (chunks : list (list B)) : list B * list (list B) :=
  match chunks with
  | [] => (buf, [])
  | c :: cs => let (b1, l1) := feed buf c in
               let (b2, l2) := feed_all b1 cs in (b2, l1 ++ l2)
  end.

Lemma split_unfold2 x y s :
  split (x :: y :: s) =
  if isCR x && isLF y then let (ls, t) := split s in ([] :: ls, t)
  else cons_first x (split (y :: s)).
Proof. reflexivity. Qed.

Lemma split_nil_tail : forall n s, length s <= n -> fst (split s) = [] -> snd (split s) = s.
Proof.
  induction n as [|n IH]; intros s Hl H.
  - destruct s; [reflexivity | simpl in Hl; lia].
  - destruct s as [|x s]; [reflexivity|]. destruct s as [|y s]; [reflexivity|].
    rewrite split_unfold2 in *.
    destruct (isCR x && isLF y).
    + destruct (split s); discriminate.
    + assert (Hl' : length (y :: s) <= n) by (simpl in *; lia).
      specialize (IH (y :: s) Hl').
      destruct (split (y :: s)) as [l t]. destruct l; cbn [cons_first fst snd] in *; [|discriminate].
      rewrite IH; reflexivity.
Qed.

(* strong induction helper *)
Lemma split_app_len : forall n a b, length a <= n ->
  split (a ++ b) =
  let (la, ta) := split a in let (lb, tb) := split (ta ++ b) in (la ++ lb, tb).
Proof.
  induction n as [|n IH]; intros a b Hlen.
  - destruct a; [|simpl in Hlen; lia]. simpl. destruct (split b); reflexivity.
  - destruct a as [|x a]; [simpl; destruct (split b); reflexivity|].
    destruct a as [|y a].
    + (* a = [x] *) simpl (split [x]). cbn [app]. destruct (split (x :: b)); reflexivity.
    + cbn [app]. rewrite !split_unfold2.
      destruct (isCR x && isLF y) eqn:E.
      * assert (Hl' : length a <= n) by (simpl in Hlen; lia).
        specialize (IH a b Hl').
        destruct (split a) as [la ta]. rewrite IH.
        destruct (split (ta ++ b)) as [lb tb]. reflexivity.
      * assert (Hl' : length (y :: a) <= n) by (simpl in Hlen; simpl; lia).
        pose proof (IH (y :: a) b Hl') as IH1.
        cbn [app] in IH1. rewrite IH1.
        pose proof (split_nil_tail n (y :: a) Hl') as Hnil.
        destruct (split (y :: a)) as [la ta].
        destruct la as [|l la]; cbn [cons_first app fst snd] in *.
        -- rewrite (Hnil eq_refl). cbn [app]. rewrite split_unfold2, E.
           destruct (split (y :: a ++ b)) as [lb tb]. destruct lb; reflexivity.
        -- destruct (split (ta ++ b)); reflexivity.
Qed.

Lemma split_app a b :
  split (a ++ b) =
  let (la, ta) := split a in let (lb, tb) := split (ta ++ b) in (la ++ lb, tb).
Proof. apply (split_app_len (length a)); lia. Qed.

(* the tail never contains a complete line: splitting it again yields nothing *)
Lemma split_tail_idem : forall n s, length s <= n -> split (snd (split s)) = ([], snd (split s)).
Proof.
  induction n as [|n IH]; intros s Hl.
  - destruct s; [reflexivity | simpl in Hl; lia].
  - destruct s as [|x s]; [reflexivity|]. destruct s as [|y s]; [reflexivity|].
    rewrite split_unfold2. destruct (isCR x && isLF y) eqn:E.
    + assert (Hl' : length s <= n) by (simpl in Hl; lia). specialize (IH s Hl').
      destruct (split s); exact IH.
    + assert (Hl' : length (y :: s) <= n) by (simpl in *; lia).
      pose proof (IH (y :: s) Hl') as IH1. pose proof (split_nil_tail n (y :: s) Hl') as Hn.
      destruct (split (y :: s)) as [l t]. destruct l; cbn [cons_first fst snd] in *.
      * rewrite (Hn eq_refl) in *. rewrite split_unfold2, E.
        rewrite IH1. reflexivity.
      * exact IH1.
Qed.

Theorem chunking_independent : forall chunks buf,
  split buf = ([], buf) ->
  feed_all buf chunks = feed buf (concat chunks).
Proof.
  induction chunks as [|c cs IH]; intros buf Hb.
  - unfold feed. cbn [feed_all concat]. rewrite app_nil_r, Hb. reflexivity.
  - cbn [feed_all concat]. unfold feed at 1.
    destruct (split (buf ++ c)) as [l1 b1] eqn:E1.
    assert (Hb1 : split b1 = ([], b1)).
    { pose proof (split_tail_idem (length (buf ++ c)) (buf ++ c) (le_n _)) as H.
      rewrite E1 in H. exact H. }
    rewrite (IH b1 Hb1). unfold feed.
    rewrite app_assoc, (split_app (buf ++ c) (concat cs)), E1.
    destruct (split (b1 ++ concat cs)); reflexivity.
Qed.
Print Assumptions chunking_independent.
End Split.
