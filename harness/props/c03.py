"""C03 -- command builders emit valid frames of the advertised verb/code that decode back.

Coq: the index / temperature / log-entry / OpenTherm / fragment-header payload builders as functions into strings, and
theorems that every payload they build for an argument in the domain is in the language of the REGENERATED payload
regex of the verb/code they are registered under (verified matcher), and decodes back (C04's codec theorems).
Tie: the models' payloads vs the real constructors over the whole swept domain; the registration table regenerated.
Oracle: every constructor of CODE_API_MAP over grids of in-domain and out-of-domain arguments: verb/code as registered,
the library's own decoder accepts the frame, the decoded payload carries the arguments at wire resolution."""

from __future__ import annotations

import datetime as _dt
import logging
import math
import re

from .. import common
from ..common import Ctx

THEOREMS = ["C03_zone_getters_valid", "C03_zone_getters_refuse", "C03_getter_domain_id_refuted", "C03_mix_valve_refuted", "C03_set_zone_setpoint_valid",
            "C03_set_zone_setpoint_decodes_back", "C03_log_entry_valid", "C03_log_entry_refuted", "C03_opentherm_valid", "C03_fragment_request_valid", "C03_registered",
            "C03_set_zone_mode_valid", "C03_set_dhw_mode_valid", "C03_set_dhw_mode_countdown_refuted", "C03_set_dhw_mode_temporary_without_until_refuted",
            "C03_set_dhw_mode_idx_refuted", "C03_set_system_mode_valid", "C03_set_system_time_valid", "C03_set_zone_config_valid", "C03_mode_cmds_registered",
            "C03_set_dhw_params_valid", "C03_set_mix_valve_params_valid", "C03_put_temp_valid",
            "C03_set_tpi_params_valid", "C03_set_tpi_params_unchecked_refuted", "C03_put_weather_temp_valid",
            "C03_put_co2_level_valid", "C03_put_co2_level_roundtrip", "C03_put_indoor_humidity_valid",
            "C03_fixed_getters_valid", "C03_fixed_getters_idx", "C03_dhw_getter_idx_refuted"]

CTL = "01:145038"


def t2(x):
    return None if x is None else round(x, 2)


def grid(rng, n, lo, hi, step=0.01):
    k = int(round((hi - lo) / step))
    return [round(lo + rng.randrange(0, k + 1) * step, 2) for _ in range(n)]


def calls(rng, thorough):
    """(registered key, constructor name, args, kwargs, expected decoded items or None, in_domain)."""
    from ramses_tx.command import Command as C  # noqa: PLC0415

    n = 40 if thorough else 8
    out = []
    zones = list(range(12))
    for name, key, extra in (("get_zone_config", "RQ|000A", {}), ("get_zone_mode", "RQ|2349", {}), ("get_zone_name", "RQ|0004", {}), ("get_zone_setpoint", "RQ|2309", {}),
                             ("get_zone_temp", "RQ|30C9", {}), ("get_zone_window_state", "RQ|12B0", {}), ("get_mix_valve_params", "RQ|1030", {})):
        for z in zones:
            out.append((key, name, (CTL, z), {}, {"_idx": f"{z:02X}"}, True))
            out.append((key, name, (CTL, f"{z:02X}"), {}, {"_idx": f"{z:02X}"}, True))
        for z in (16, 32, 255, 256, -1, "10", "FF", "ZZ", "FC", 0xFA):
            out.append((key, name, (CTL, z), {}, None, False))
    for z in zones:
        for sp in grid(rng, n // 2, 5.0, 35.0) + [5.0, 35.0, 19.99, 20.01, 0.0, 0.01, 99.99, -0.01]:
            out.append((" W|2309", "set_zone_setpoint", (CTL, z, sp), {}, {"zone_idx": f"{z:02X}", "setpoint": t2(sp)}, True))
    for sp in (400.0, 327.68, -327.69, float("nan"), float("inf"), -300.0):
        out.append((" W|2309", "set_zone_setpoint", (CTL, 1, sp), {}, None, False))
    for z in zones:
        for a, b in zip(grid(rng, n // 4, 5.0, 21.0), grid(rng, n // 4, 21.0, 35.0)):
            out.append((" W|000A", "set_zone_config", (CTL, z), {"min_temp": a, "max_temp": b, "local_override": rng.random() < 0.5, "openwindow_function": rng.random() < 0.5,
                                                             "multiroom_mode": rng.random() < 0.5}, {"zone_idx": f"{z:02X}", "min_temp": a, "max_temp": b}, True))
        out.append((" W|0004", "set_zone_name", (CTL, z, rng.choice(["Kitchen", "A", "Living Room 1234567", "x" * 20])), {}, {"zone_idx": f"{z:02X}"}, True))
        # names at and past the 20-byte wire field: cut to the field (what is decoded is the first 20 characters), never a longer frame
        for name in ("Master Bedroom and En", "y" * 21, "Z" * rng.randrange(22, 49), "a name of exactly 20"):
            out.append((" W|0004", "set_zone_name", (CTL, z, name), {}, {"zone_idx": f"{z:02X}", "name": name[:20]}, True))
        out.append((" W|1030", "set_mix_valve_params", (CTL, z), {"max_flow_setpoint": rng.randrange(0, 100), "min_flow_setpoint": rng.randrange(0, 51),
                                                                   "valve_run_time": rng.randrange(0, 241), "pump_run_time": rng.randrange(0, 100)}, {"zone_idx": f"{z:02X}"}, True))
        d = _dt.datetime(rng.choice([2024, 2025, 2026]), rng.randrange(1, 13), rng.randrange(1, 29), rng.randrange(0, 24), rng.randrange(0, 60))
        sp = grid(rng, 1, 5.0, 35.0)[0]
        out.append((" W|2349", "set_zone_mode", (CTL, z), {"mode": "follow_schedule"}, {"zone_idx": f"{z:02X}", "mode": "follow_schedule"}, True))
        out.append((" W|2349", "set_zone_mode", (CTL, z), {"mode": "permanent_override", "setpoint": sp}, {"zone_idx": f"{z:02X}", "mode": "permanent_override", "setpoint": sp}, True))
        out.append((" W|2349", "set_zone_mode", (CTL, z), {"mode": "advanced_override", "setpoint": sp}, {"zone_idx": f"{z:02X}", "mode": "advanced_override", "setpoint": sp}, True))
        out.append((" W|2349", "set_zone_mode", (CTL, z), {"mode": "temporary_override", "setpoint": sp, "until": d},
                    {"zone_idx": f"{z:02X}", "mode": "temporary_override", "setpoint": sp, "until": d.isoformat(timespec="seconds")}, True))
        dur = rng.randrange(1, 1440)
        out.append((" W|2349", "set_zone_mode", (CTL, z), {"mode": "countdown_override", "setpoint": sp, "duration": dur},
                    {"zone_idx": f"{z:02X}", "mode": "countdown_override", "setpoint": sp, "duration": dur}, True))
        # fragment numbers and counts on both sides of 9 / 15 (where decimal, hex and two-digit spellings part ways)
        for fn, tot in ((1, 0), (2, 3), (3, 3), (2, 2), (9, 10), (10, 10), (10, 12), (15, 16), (16, 17), (rng.randrange(10, 30), 30)):
            out.append(("RQ|0404", "get_schedule_fragment", (CTL, z, fn, tot or None), {}, {"zone_idx": f"{z:02X}", "frag_number": fn, **({"total_frags": tot} if tot else {})}, True))
        out.append((" W|0404", "set_schedule_fragment", (CTL, z, 1, 3, "AB" * rng.randrange(1, 42)), {}, {"zone_idx": f"{z:02X}", "frag_number": 1, "total_frags": 3}, True))
        for fn, tot in ((10, 11), (11, 11), (16, 20)):
            out.append((" W|0404", "set_schedule_fragment", (CTL, z, fn, tot, "CD" * rng.randrange(1, 42)), {}, {"zone_idx": f"{z:02X}", "frag_number": fn, "total_frags": tot}, True))
    for hw in ("HW", "FA", 0xFA):       # the three documented spellings of the DHW schedule
        out.append(("RQ|0404", "get_schedule_fragment", (CTL, hw, 1, None), {}, {"zone_idx": "HW", "frag_number": 1}, True))
        out.append(("RQ|0404", "get_schedule_fragment", (CTL, hw, 2, 3), {}, {"zone_idx": "HW", "frag_number": 2, "total_frags": 3}, True))
        out.append((" W|0404", "set_schedule_fragment", (CTL, hw, 1, 3, "AB" * 30), {}, {"zone_idx": "HW", "frag_number": 1, "total_frags": 3}, True))
    for z in ("00", "0B"):              # hex-string spellings of a zone
        out.append((" W|2349", "set_zone_mode", (CTL, z), {"mode": "follow_schedule"}, {"zone_idx": z}, True))
    for dhw_idx in (0, 1):
        out.append(("RQ|10A0", "get_dhw_params", (CTL,), {"dhw_idx": dhw_idx}, {}, True))
        out.append(("RQ|1F41", "get_dhw_mode", (CTL,), {"dhw_idx": dhw_idx}, {}, True))
        out.append(("RQ|1260", "get_dhw_temp", (CTL,), {"dhw_idx": dhw_idx}, {}, True))
    for i in list(range(0, 64)) + [64, 100, 255, 256, -1]:
        out.append(("RQ|0418", "get_system_log_entry", (CTL, i), {}, {"log_idx": f"{i:02X}"} if 0 <= i < 64 else None, 0 <= i < 64))
    for i in list(range(0, 256)) + [256, -1]:
        out.append(("RQ|3220", "get_opentherm_data", ("10:123456", i), {}, {"msg_id": i} if 0 <= i < 256 else None, 0 <= i < 256))
    for name, key in (("get_dhw_mode", "RQ|1F41"), ("get_dhw_params", "RQ|10A0"), ("get_dhw_temp", "RQ|1260"), ("get_schedule_version", "RQ|0006"), ("get_system_language", "RQ|0100"),
                      ("get_system_mode", "RQ|2E04"), ("get_system_time", "RQ|313F"), ("get_tpi_params", "RQ|1100")):
        out.append((key, name, (CTL,), {}, {}, True))
    out.append(("RQ|1100", "get_tpi_params", ("13:123456",), {}, {}, True))
    out.append(("RQ|0008", "get_relay_demand", ("13:123456",), {}, {}, True))
    for sp in grid(rng, n, 30.0, 85.0):
        out.append((" W|10A0", "set_dhw_params", (CTL,), {"setpoint": sp, "overrun": rng.randrange(0, 11), "differential": rng.choice([1.0, 2.5, 5.0, 10.0])}, {"setpoint": sp}, True))
    d = _dt.datetime(2024, 2, 29, 12, 30)
    out.append((" W|1F41", "set_dhw_mode", (CTL,), {"mode": "follow_schedule"}, {"mode": "follow_schedule"}, True))
    for act in (True, False):
        out.append((" W|1F41", "set_dhw_mode", (CTL,), {"mode": "permanent_override", "active": act}, {"mode": "permanent_override", "active": act}, True))
        out.append((" W|1F41", "set_dhw_mode", (CTL,), {"mode": "temporary_override", "active": act, "until": d}, {"mode": "temporary_override", "active": act, "until": d.isoformat(timespec="seconds")}, True))
        out.append((" W|1F41", "set_dhw_mode", (CTL,), {"mode": "countdown_override", "active": act, "duration": 60}, {"mode": "countdown_override", "active": act, "duration": 60}, True))
    for m in ("auto", "heat_off", "eco_boost", "away", "day_off", "custom", "auto_with_reset"):
        out.append((" W|2E04", "set_system_mode", (CTL, m), {}, {"system_mode": m}, True))
    out.append((" W|2E04", "set_system_mode", (CTL, "away"), {"until": d}, {"system_mode": "away", "until": d.isoformat(timespec="seconds")}, True))
    # date-times as dt.now() gives them: with microseconds (the wire carries whole seconds: the fraction is dropped, never carried)
    for dd in (_dt.datetime(2024, 2, 29, 23, 59, 59), _dt.datetime(2026, 12, 31, 0, 0, 0), _dt.datetime(2025, 3, 30, 2, 30, 1),
               _dt.datetime(2024, 2, 29, 23, 59, 59, 500000), _dt.datetime(2025, 6, 1, 7, 59, 59, 999999), _dt.datetime(2025, 6, 1, 7, 0, 0, rng.randrange(1, 1000000))):
        for dst in (False, True):
            out.append((" W|313F", "set_system_time", (CTL, dd), {"is_dst": dst}, {"datetime": dd.isoformat(timespec="seconds"), "is_dst": dst}, True))
    for dom in ("FC", "F9", "FA", None):
        out.append((" W|1100", "set_tpi_params", (CTL, dom), {"cycle_rate": rng.choice([3, 6, 9, 12]), "min_on_time": rng.randrange(1, 6), "min_off_time": rng.randrange(1, 6)}, {}, True))
    for t in grid(rng, n, -20.0, 60.0) + [None]:
        out.append((" I|30C9", "put_sensor_temp", ("34:123456", t), {}, {"temperature": t2(t)}, True))
        out.append((" I|1260", "put_dhw_temp", ("07:123456", t), {}, {"temperature": t2(t)}, True))
        out.append((" I|1290", "put_outdoor_temp", ("37:123456", t), {}, {"outdoor_temp": t2(t)}, True))
        if t is not None:
            out.append((" I|0002", "put_weather_temp", ("17:123456", t), {}, {"temperature": t2(t)}, True))
    for v in (0.0, 0.005, 0.5, 0.57, 0.995, 1.0):
        out.append((" I|3EF0", "put_actuator_state", ("13:123456", v), {}, {"modulation_level": v}, True))
        out.append(("RP|3EF1", "put_actuator_cycle", ("13:123456", CTL, v, 100), {"cycle_countdown": 200}, {"modulation_level": v}, True))
        out.append((" I|12A0", "put_indoor_humidity", ("37:123456", v), {}, {"indoor_humidity": v}, True))
        out.append((" W|22F7", "set_bypass_position", ("32:123456",), {"bypass_position": v, "src_id": "37:123456"}, {}, True))
    for v in (400, 0, 1200, None):
        out.append((" I|1298", "put_co2_level", ("37:123456", v), {}, {"co2_level": v}, True))
    for v in (True, False, None):
        out.append((" I|2E10", "put_presence_detected", ("37:123456", v), {}, {"presence_detected": v}, True))
    for m in ("away", "low", "medium", "high", "auto"):
        out.append((" I|22F1", "set_fan_mode", ("32:123456", m), {"src_id": "37:123456"}, {}, True))
    _ = C
    return out


def run(ctx: Ctx) -> None:
    logging.disable(logging.CRITICAL)
    from ramses_tx import exceptions as exc  # noqa: PLC0415
    from ramses_tx.command import CODE_API_MAP, Command  # noqa: PLC0415
    from ramses_tx.message import Message  # noqa: PLC0415

    thorough = ctx.tier == "thorough"
    rng = ctx.rng
    ctx.rule = ("every constructor of CODE_API_MAP over grids of arguments: zone indexes 0..11 as int and hex string, temperatures/setpoints on the 0.01 grid, the five zone/DHW modes "
                "with until/duration, datetimes incl. 29 Feb and the DST flag, names, all 64 log indexes, all 256 OpenTherm ids, fragment numbers/counts, ratios, and out-of-domain "
                "arguments (indexes 16/32/255/256/-1, setpoints beyond the wire range, NaN/inf, log index 64+, msg id 256): the command's verb|code is the key it is registered under, "
                "Message._from_cmd accepts the frame, the decoded payload carries the arguments at wire resolution; an out-of-domain argument is refused or still yields a decodable "
                "frame with the values asked for; non-trivial = the constructor returned a command; distinct = by constructor and arguments")
    built = ctx.build("C03", THEOREMS)
    # registration table
    reg = {f"{k}": fn.__name__ for k, fn in CODE_API_MAP.items()}
    impl_payloads = {}
    for key, name, args, kwargs, want, in_dom in calls(rng, thorough):
        fn = getattr(Command, name)
        case = {"constructor": name, "args": [repr(a) for a in args], "kwargs": {k: repr(v) for k, v in kwargs.items()}}
        try:
            cmd = fn(*args, **kwargs)
        except (exc.CommandInvalid, ValueError, TypeError, KeyError, AssertionError, exc.PacketInvalid, OverflowError) as err:
            ctx.case(("call", name, repr(args), repr(kwargs)), False, f"refused:{name}")
            if in_dom:
                ctx.violation(f"in-domain-arguments-refused:{name}:{type(err).__name__}", f"{name}{args}{kwargs} raised {type(err).__name__}: {err}", case, "input")
            continue
        ctx.case(("call", name, repr(args), repr(kwargs)), True, f"built:{name}")
        case["frame"] = str(cmd)
        impl_payloads[(name, repr(args))] = cmd.payload
        if reg.get(f"{cmd.verb}|{cmd.code}") != name or f"{cmd.verb}|{cmd.code}" != key:
            ctx.violation(f"wrong-verb-or-code:{name}", f"{name} is registered under {key} but built {cmd.verb}|{cmd.code}", case, "input")
        try:
            payload = Message._from_cmd(cmd).payload
        except Exception as err:  # noqa: BLE001
            dom = "in-domain" if in_dom else "out-of-domain"
            chain, e = [], err
            while e is not None:
                chain.append(str(e))
                e = e.__cause__ or e.__context__
            if name == "get_mix_valve_params":
                dom = "no-RQ-1030-in-the-schema"
            elif name == "get_opentherm_data" and any("Unknown data-id" in c for c in chain):
                dom = "unknown-data-id"
            elif not in_dom and len(args) > 1 and args[1] in ("FC", "F9", "FA", 0xFA, 0xFC, 0xF9) and name.startswith("get_zone_"):
                name, dom = "zone-getters", "domain-id-let-through"
            ctx.violation(f"constructor-emits-undecodable-frame:{name}:{dom}", f"{name}{args}{kwargs} built {cmd} which the library's decoder rejects: {type(err).__name__}: {str(err)[:120]}", case, "input")
            continue
        if want is None:
            continue
        p = payload if isinstance(payload, dict) else (payload[0] if isinstance(payload, list) and payload and isinstance(payload[0], dict) else {})
        for k, v in want.items():
            got = p.get(k) if k != "_idx" else Message._from_cmd(cmd)._pkt._idx
            if k == "is_dst" and not v and not got:
                continue
            if k == "indoor_humidity" and isinstance(got, int | float) and abs(got - v) <= 0.005 + 1e-9:
                continue
            same = (got == v) or (isinstance(v, float) and isinstance(got, int | float) and not isinstance(got, bool) and math.isclose(got, v, abs_tol=1e-9))
            if k == "modulation_level" and isinstance(v, float) and isinstance(got, int | float):
                same = math.isclose(got, round(v * 200) / 200, abs_tol=1e-9)
            if not same:
                ctx.violation(f"decoded-value-differs:{name}:{k}", f"{name}{args}{kwargs} -> {cmd}: decoded {k}={got!r}, asked for {v!r}", {**case, "decoded": str(payload)[:300]}, "input")
    mode_commands(ctx, built, thorough)
    param_commands(ctx, built, thorough)
    fixed_getters(ctx, built)
    bind_commands(ctx)
    # correspondence of the modelled builders over their whole domain
    if not built:
        ctx.obligation("correspondence:payload-builders", False, "correspondence", "model not built")
        return
    pre = ("From Coq Require Import ZArith String List Bool.\nFrom RV Require Import Py PyStr M_Command.\nImport ListNotations.\nOpen Scope Z_scope.\n"
           "Set Printing Width 1000000.\nSet Printing Depth 1000000.\nDefinition s2z (s : str) : list Z := map (fun c => Z.of_nat (Ascii.nat_of_ascii c)) s.\n")
    getters = [("get_zone_config", "GZoneConfig"), ("get_zone_mode", "GZoneMode"), ("get_zone_name", "GZoneName"), ("get_zone_setpoint", "GZoneSetpoint"),
               ("get_zone_temp", "GZoneTemp"), ("get_zone_window_state", "GZoneWindow"), ("get_mix_valve_params", "GMixValve")]
    pre += "Definition o2z (o : option str) : list Z := match o with Some s => s2z s | None => [0] end.\n"
    q = pre + "".join(f"Eval vm_compute in (map (fun i => o2z (getter_payload {g} i)) (zrange 256 0)).\n" for _, g in getters)
    q += "Eval vm_compute in (map (fun i => o2z (log_entry_payload i)) (zrange 70 0)).\n"
    q += "Eval vm_compute in (map (fun i => s2z (opentherm_payload i)) (zrange 256 0)).\n"
    q += "Eval vm_compute in (map (fun k => s2z (setpoint_payload 3 k)) [500; 501; 1999; 2000; 3500; 0; 1; 9999; -1; -2000]).\n"
    rc, out = common.coq_eval("C03", {"x": q}, timeout=600)["x"]
    got = [eval(o.replace(";", ","), {"__builtins__": {}}) for o in re.findall(r"=\s*(\[.*?\])\s*:\s*list \(list Z\)", out, flags=re.S)]  # noqa: S307
    if rc or len(got) != len(getters) + 3:
        ctx.obligation("correspondence:payload-builders", False, "correspondence", f"rc={rc} {len(got)} results: {out[-400:]}")
        return
    bad = []

    def txt(zs):
        return "<refused>" if list(zs) == [0] else "".join(chr(z) for z in zs)

    def real_payload(fn, *a):
        try:
            return fn(*a).payload
        except exc.CommandInvalid:
            return "<refused>"
        except Exception as err:  # noqa: BLE001
            return f"<{type(err).__name__}>"

    for (name, _), rows in zip(getters, got):
        for i, zs in enumerate(rows):
            real = real_payload(getattr(Command, name), CTL, i)
            if txt(zs) != real:
                bad.append(f"{name}({i}): model {txt(zs)!r} implementation {real!r}")
    for i, zs in enumerate(got[len(getters)]):
        real = real_payload(Command.get_system_log_entry, CTL, i)
        if txt(zs) != real:
            bad.append(f"get_system_log_entry({i}): model {txt(zs)!r} implementation {real!r}")
    for i, zs in enumerate(got[len(getters) + 1]):
        real = Command.get_opentherm_data("10:123456", i).payload
        if txt(zs) != real:
            bad.append(f"get_opentherm_data({i}): model {txt(zs)!r} implementation {real!r}")
    for k, zs in zip([500, 501, 1999, 2000, 3500, 0, 1, 9999, -1, -2000], got[len(getters) + 2]):
        real = Command.set_zone_setpoint(CTL, 3, k / 100).payload
        if txt(zs) != real:
            bad.append(f"set_zone_setpoint(3, {k / 100}): model {txt(zs)!r} implementation {real!r}")
    ctx.obligation("correspondence:payload-builders", not bad, "correspondence", f"{len(bad)} differ; first: {bad[0]}" if bad else
                   f"{sum(len(r) for r in got)} payloads of 10 modelled builders agree over their swept domains")


MODES = {"follow_schedule": 0, "advanced_override": 1, "permanent_override": 2, "countdown_override": 3, "temporary_override": 4}
SYSMODES = {"auto": 0, "heat_off": 1, "eco_boost": 2, "away": 3, "day_off": 4, "day_off_eco": 5, "auto_with_reset": 6, "custom": 7}

MC_PRELUDE = """From Coq Require Import ZArith String List Bool PrimFloat.
From RV Require Import Py PyStr PyFloat Regex GenRegex GenTables M_Codecs M_Command M_ModeCmd.
Import ListNotations. Open Scope Z_scope.
Set Printing Width 1000000. Set Printing Depth 1000000.
Definition s2z (s : str) : list Z := map (fun c => Z.of_nat (Ascii.nat_of_ascii c)) s.
Definition tz (t : tempv) : list Z := match t with TNone => [0] | TFalse => [1] | TNum f => [2; match round_to_Z (fmul f (f_of_Z 100)) with Some z => z | None => -99999 end] end.
Definition dz (d : option dtf) : list Z := match d with None => [0] | Some f => [1; yr f; mo f; dd f; hh f; mi f; ss f] end.
Definition odz (d : option (option dtf)) : list Z := match d with None => [0] | Some x => 1 :: dz x end.
Definition sh2349 (r : result zmode) : list Z := match r with Raise _ => [9] | Ok z => [1; zm_mode z] ++ tz (zm_setpoint z) ++ (match zm_duration z with Some d => [1; d] | None => [0] end) ++ odz (zm_until z) end.
Definition sh1f41 (r : result dmode) : list Z := match r with Raise _ => [9] | Ok z => [1; dm_mode z] ++ (match dm_active z with None => [0] | Some None => [1; 2] | Some (Some true) => [1; 1] | Some (Some false) => [1; 0] end) ++ odz (dm_until z) end.
Definition sh2e04 (r : result smode) : list Z := match r with Raise _ => [9] | Ok z => [1; sm_mode z] ++ odz (sm_until z) end.
Definition sh313f (r : result (option dtf * bool)) : list Z := match r with Raise _ => [9] | Ok (d, b) => [1] ++ dz d ++ [if b then 1 else 0] end.
Definition sh000a (r : result zconf) : list Z := match r with Raise _ => [9] | Ok z => [1] ++ tz (zc_min z) ++ tz (zc_max z) ++ [if zc_local_override z then 1 else 0; if zc_openwindow z then 1 else 0; if zc_multiroom z then 1 else 0] end.
Definition both {R} (code : Z) (sh : result R -> list Z) (parse : str -> result R) (o : option str) : list (list Z) :=
  match o with None => [[0]] | Some p => [s2z p; if payload_ok V_W code p then sh (parse p) else [9]] end.
"""


def _mc_cases(rng, thorough):
    import itertools  # noqa: PLC0415

    def dtf(d):
        return "None" if d is None else f"(Some (mk_dtf {d.year} {d.month} {d.day} {d.hour} {d.minute} {d.second}))"

    def oz(x):
        return "None" if x is None else f"(Some ({x}))"

    def ob(x):
        return "None" if x is None else f"(Some {str(x).lower()})"

    def word(sp):
        return None if sp is None else (round(sp * 100) % 65536)

    def rdt():
        y = rng.choice([1, 1999, 2024, 2025, 2026, 2100, 9999])
        mth = rng.randrange(1, 13)
        day = rng.randrange(1, 29) if rng.random() < 0.8 else [31, 29 if (y % 4 == 0 and (y % 100 != 0 or y % 400 == 0)) else 28, 31, 30, 31, 30, 31, 31, 30, 31, 30, 31][mth - 1]
        return _dt.datetime(y, mth, day, rng.randrange(0, 24), rng.choice([0, 59, rng.randrange(0, 60)]), rng.choice([0, 59, 59, rng.randrange(0, 60)]),
                            rng.choice([0, 1, 499999, 500000, 999999, rng.randrange(0, 1000000)]))   # the model sees the fields timetuple() gives: no fraction

    untils = [None, _dt.datetime(2024, 2, 29, 23, 59), _dt.datetime(2026, 12, 31, 0, 0), rdt().replace(second=0, microsecond=0)]
    sps = [None, 21.5, 5.0, -3.0, round(rng.randrange(500, 3501) / 100, 2)]
    durs = [None, 0, 1, 90, rng.randrange(2, 1440), 0xFFFFFE]
    cases = []
    idxs = [0, rng.randrange(1, 15), 15, 16, 0xFA] if not thorough else list(range(17)) + [0xF9, 0xFA, 0xFC, 255]
    for idx, mode, sp, un, du in itertools.product(idxs, [None, 0, 1, 2, 3, 4, 5], sps, untils, durs):
        cases.append(("zm", (idx, mode, sp, un, du), f"both 0x2349 sh2349 parser_2349 (set_zone_mode {idx} {oz(mode)} {oz(word(sp))} {dtf(un)} {oz(du)})"))
    for idx, mode, ac, un, du in itertools.product([0, 1, 2], [None, 0, 1, 2, 3, 4, 7], [None, True, False], untils, [None, 0, 60, rng.randrange(1, 1440)]):
        cases.append(("dm", (idx, mode, ac, un, du), f"both 0x1F41 sh1f41 parser_1f41 (set_dhw_mode {idx} {oz(mode)} {ob(ac)} {dtf(un)} {oz(du)})"))
    for mode, un in itertools.product([None, 0, 1, 2, 3, 4, 5, 6, 7, 8], untils + [rdt().replace(second=0, microsecond=0) for _ in range(3)]):
        cases.append(("sm", (mode, un), f"both 0x2E04 sh2e04 parser_2e04 (set_system_mode {oz(mode)} {dtf(un)})"))
    dts = [_dt.datetime(2024, 2, 29, 23, 59, 59), _dt.datetime(2026, 12, 31, 0, 0, 0), _dt.datetime(2025, 3, 30, 2, 30, 1), _dt.datetime(1, 1, 1, 0, 0, 0),
           _dt.datetime(2024, 2, 29, 23, 59, 59, 500000), _dt.datetime(2025, 12, 31, 23, 59, 59, 999999), _dt.datetime(2025, 6, 1, 7, 30, 59, 500001),
           _dt.datetime(9999, 12, 31, 23, 59, 59)] + [rdt() for _ in range(40 if thorough else 10)]
    for d, dst in itertools.product(dts, [False, True]):
        cases.append(("st", (d, dst), f"both 0x313F sh313f parser_313f (Some (set_system_time (mk_dtf {d.year} {d.month} {d.day} {d.hour} {d.minute} {d.second}) {str(dst).lower()}))"))
    for idx, kmin, kmax, lo, ow, mr in itertools.product([0, rng.randrange(1, 16), 16], [500, rng.randrange(501, 2100), 2100, 499, 2101], [2100, 3500, 2099, 3501, rng.randrange(2101, 3500)],
                                                         [False, True], [False, True], [False, True]):
        cases.append(("zc", (idx, kmin, kmax, lo, ow, mr), f"both 0x000A sh000a parser_000a (set_zone_config {idx} {kmin} {kmax} {str(lo).lower()} {str(ow).lower()} {str(mr).lower()})"))
    return cases


def mode_commands(ctx: Ctx, built: bool, thorough: bool) -> None:
    """set_zone_mode / set_dhw_mode / set_system_mode / set_system_time / set_zone_config and the decoders of their codes: the real
    constructors and the real decoder vs the Coq models over the product of modes x setpoints x untils x durations (and refusals)."""
    from ramses_tx.command import Command  # noqa: PLC0415
    from ramses_tx.message import Message  # noqa: PLC0415

    def tz(t):
        return [0] if t is None else ([1] if t is False else [2, round(t * 100)])

    def dz(sx):
        if sx is None:
            return [0]
        d = _dt.datetime.fromisoformat(sx)
        return [1, d.year, d.month, d.day, d.hour, d.minute, d.second]

    def build(kind, a):
        if kind == "zm":
            return "set_zone_mode", Command.set_zone_mode(CTL, a[0], mode=a[1], setpoint=a[2], until=a[3], duration=a[4])
        if kind == "dm":
            return "set_dhw_mode", Command.set_dhw_mode(CTL, mode=a[1], active=a[2], until=a[3], duration=a[4], dhw_idx=a[0])
        if kind == "sm":
            return "set_system_mode", Command.set_system_mode(CTL, a[0], until=a[1])
        if kind == "st":
            return "set_system_time", Command.set_system_time(CTL, a[0], is_dst=a[1])
        return "set_zone_config", Command.set_zone_config(CTL, a[0], min_temp=a[1] / 100, max_temp=a[2] / 100, local_override=a[3], openwindow_function=a[4], multiroom_mode=a[5])

    def decode(kind, cmd):
        try:
            p = Message._from_cmd(cmd).payload
        except Exception:  # noqa: BLE001
            return [9]
        if kind == "zm":
            return [1, MODES[p["mode"]]] + tz(p["setpoint"]) + ([1, p["duration"]] if "duration" in p else [0]) + ([1] + dz(p["until"]) if "until" in p else [0])
        if kind == "dm":
            return [1, MODES[p["mode"]]] + ([1, {None: 2, True: 1, False: 0}[p["active"]]] if "active" in p else [0]) + ([1] + dz(p["until"]) if "until" in p else [0])
        if kind == "sm":
            return [1, SYSMODES[p["system_mode"]]] + ([1] + dz(p["until"]) if "until" in p else [0])
        if kind == "st":
            return [1] + dz(p["datetime"]) + [1 if p["is_dst"] else 0]
        return [1] + tz(p["min_temp"]) + tz(p["max_temp"]) + [int(p["local_override"]), int(p["openwindow_function"]), int(p["multiroom_mode"])]

    def asked(kind, a, dec):
        """The decoded values the ARGUMENTS call for (the property's own reading, independent of the model); None = no claim."""
        def ns(d):
            return [0] if d is None else [1, d.year, d.month, d.day, d.hour, d.minute, 0]
        if kind == "zm":
            _, mode, sp, un, du = a
            m = mode if mode is not None else (4 if un else 3 if du else 2)
            return [1, m] + tz(sp) + ([1, du] if du is not None else [0]) + ([1] + ns(un) if un is not None else [0])
        if kind == "dm":
            _, mode, ac, un, du = a
            m = mode if mode is not None else (4 if un else 3 if du else 2)
            act = None if m == 0 else ac
            return [1, m] + ([1, int(act)] if act is not None else [0]) + ([1] + ns(un) if un is not None else [0])
        if kind == "sm":
            mode, un = a
            m = mode or 0
            return [1, m] + ([0] if m in (0, 1, 6) else [1] + ns(un))
        if kind == "st":
            d, dst = a
            return [1, 1, d.year, d.month, d.day, d.hour, d.minute, d.second, int(dst)]
        _, kmin, kmax, lo, ow, mr = a
        return [1, 2, kmin, 2, kmax, int(lo), int(ow), int(mr)]

    cases = _mc_cases(ctx.rng, thorough)
    impl = []
    for kind, a, _ in cases:
        try:
            name, cmd = build(kind, a)
        except Exception:  # noqa: BLE001
            impl.append((None, None))
            ctx.case(("mode-cmd", kind, repr(a)), False, f"refused:{kind}")
            continue
        dec = decode(kind, cmd)
        impl.append((cmd.payload, dec))
        ctx.case(("mode-cmd", kind, repr(a)), True, f"built:{name}")
        case = {"constructor": name, "args": repr(a), "frame": str(cmd)}
        if dec == [9]:
            if kind == "zm":
                cls = "domain-id-let-through" if a[0] in (0xF9, 0xFA, 0xFC) else "other"
            elif kind == "dm":
                m = a[1] if a[1] is not None else (4 if a[3] else 3 if a[4] else 2)
                cls = "dhw-idx-let-through" if a[0] not in (0, 1) else "in-domain" if m == 3 else "temporary-without-until" if m == 4 and a[3] is None else "other"
            else:
                cls = "other"
            ctx.violation(f"constructor-emits-undecodable-frame:{name}:{cls}", f"{name}{a} built {cmd} which the library's decoder rejects", case, "input")
        elif kind == "sm" and (a[0] or 0) in (0, 1, 6) and a[1] is not None:
            ctx.violation("out-of-domain-arguments-accepted:set_system_mode:until-with-a-mode-that-cannot-carry-one",
                          f"{name}{a} is not refused: it builds {cmd}, which decodes to {dec} -- the end time asked for is silently dropped", case, "input")
        elif dec != asked(kind, a, dec):
            ctx.violation(f"decoded-value-differs:{name}:mode-command", f"{name}{a} -> {cmd}: decoded {dec}, asked for {asked(kind, a, dec)}", case, "input")
    if not built:
        ctx.obligation("correspondence:mode-commands", False, "correspondence", "model not built")
        return
    shard = 400
    files = {f"m{k // shard}": MC_PRELUDE + "".join(f"Eval vm_compute in ({t}).\n" for _, _, t in cases[k:k + shard]) for k in range(0, len(cases), shard)}
    res = common.coq_eval("C03mc", files, timeout=900)
    bad, total = [], 0
    for k in range(0, len(cases), shard):
        rc, out = res[f"m{k // shard}"]
        rows = [eval(o.replace(";", ","), {"__builtins__": {}}) for o in re.findall(r"=\s*(\[.*?\])\s*:\s*list \(list Z\)", out, flags=re.S)]  # noqa: S307
        mine = cases[k:k + shard]
        if rc or len(rows) != len(mine):
            bad.append(f"rc={rc}, {len(rows)} results for {len(mine)} cases: {out[-300:]}")
            continue
        for (kind, a, _), (pl, dec), r in zip(mine, impl[k:k + shard], rows):
            total += 1
            m_pl = None if r == [[0]] else "".join(chr(z) for z in r[0])
            m_dec = None if r == [[0]] else list(r[1])
            if m_pl != pl or m_dec != dec:
                bad.append(f"{kind}{a}: model payload {m_pl} decoded {m_dec}; implementation payload {pl} decoded {dec}")
    ctx.obligation("correspondence:mode-commands", not bad, "correspondence", f"{len(bad)} of {total} differ; first: {bad[0][:600]}" if bad else
                   f"{total} argument combinations of set_zone_mode / set_dhw_mode / set_system_mode / set_system_time / set_zone_config: payload or refusal, and the decoder's verdict and values, agree")
    ctx.extra["mode_command_cases"] = total


def param_commands(ctx: Ctx, built: bool, thorough: bool) -> None:
    """set_dhw_params / set_mix_valve_params / put_sensor_temp / put_dhw_temp and their decoders vs M_ParamCmd (payload or refusal, verdict, values)."""
    import itertools  # noqa: PLC0415

    from ramses_tx.command import Command  # noqa: PLC0415
    from ramses_tx.message import Message  # noqa: PLC0415

    rng = ctx.rng

    def oz(x):
        return "None" if x is None else f"(Some ({x}))"

    def tz(t):
        return [0] if t is None else ([1] if t is False else [2, round(t * 100)])

    cases = []
    for idx, ksp, ov, kd in itertools.product([0, 1, 2], [3000, 8500, 2999, 8501, rng.randrange(3001, 8500)], [0, 10, 11, -1, rng.randrange(1, 10)], [100, 1000, 99, 1001, rng.randrange(101, 1000)]):
        cases.append(("dp", (idx, ksp, ov, kd), f"both V_W 0x10A0 sh10a0 parser_10a0 (set_dhw_params {idx} {ksp} ({ov}) {kd})"))
    for idx, a, b, c, d in itertools.product([0, rng.randrange(1, 15), 15, 16], [0, 99, 100, rng.randrange(1, 99)], [0, 50, 51, rng.randrange(1, 50)], [0, 240, 241, rng.randrange(1, 240)], [0, 99, 100, rng.randrange(1, 99)]):
        cases.append(("mv", (idx, a, b, c, d), f"both V_W 0x1030 sh1030 parser_1030 (set_mix_valve_params {idx} {a} {b} {c} {d} 1)"))
    for t in [None, 0.0, 21.5, -3.0, 99.99, 127.98, -273.15, -273.16, -300.0] + [round(rng.randrange(-2000, 6000) / 100, 2) for _ in range(40 if thorough else 12)]:
        w = None if t is None else round(t * 100) % 65536
        cases.append(("st", (t,), f"both V_I 0x30C9 shtemp parser_temp_tail (Some (put_temp_payload {oz(w)}))"))
        cases.append(("dt", (t,), f"both V_I 0x1260 shtemp parser_temp_tail (Some (put_temp_payload {oz(w)}))"))
        cases.append(("wt", (t,), f"both V_I 0x0002 sh0002 parser_0002 (Some (put_weather_payload {oz(w)}))"))
    for n in [None, 0, 1, 400, 0x7FFE, 0x7FFF, 0x8000, 0x8001, 0xFFFF] + [rng.randrange(0, 0x7FFF) for _ in range(30 if thorough else 10)]:
        cases.append(("co", (n,), f"both V_I 0x1298 shco2 parser_1298 (Some (put_co2_payload {oz(n)}))"))
    for b in [None, 0, 1, 50, 99, 100] + [rng.randrange(0, 101) for _ in range(20 if thorough else 6)]:
        cases.append(("hu", (b,), f"both V_I 0x12A0 shhum parser_12a0_short (Some (put_humidity_payload {oz(b)}))"))
    for dom, cyc, on, off, pbw in itertools.product([0, 0xFC, 1, 0xF9], [1, 3, 12, 13, 0], [1, 5, 30, 31, 0], [0, 5, 15, 16], [None, 150, 300, 149, 301, rng.randrange(151, 300)]):
        cases.append(("tp", (dom, cyc, on, off, pbw), f"both V_W 0x1100 sh1100 parser_1100 (set_tpi_params {dom} {cyc} {on} {off} {oz(pbw)})"))
    tag = {"max_flow_setpoint": 0xC8, "min_flow_setpoint": 0xC9, "valve_run_time": 0xCA, "pump_run_time": 0xCB, "boolean_cc": 0xCC, "unknown_20": 0x20, "unknown_21": 0x21}
    impl = []
    for kind, a, _ in cases:
        try:
            if kind == "dp":
                name, cmd = "set_dhw_params", Command.set_dhw_params(CTL, setpoint=a[1] / 100, overrun=a[2], differential=a[3] / 100, dhw_idx=a[0])
            elif kind == "mv":
                name, cmd = "set_mix_valve_params", Command.set_mix_valve_params(CTL, a[0], max_flow_setpoint=a[1], min_flow_setpoint=a[2], valve_run_time=a[3], pump_run_time=a[4])
            elif kind == "tp":
                name, cmd = "set_tpi_params", Command.set_tpi_params(CTL, a[0], cycle_rate=a[1], min_on_time=a[2], min_off_time=a[3], proportional_band_width=None if a[4] is None else a[4] / 100)
            elif kind == "wt":
                name, cmd = "put_weather_temp", Command.put_weather_temp("17:123456", a[0])
            elif kind == "co":
                name, cmd = "put_co2_level", Command.put_co2_level("37:123456", a[0])
            elif kind == "hu":
                name, cmd = "put_indoor_humidity", Command.put_indoor_humidity("37:123456", None if a[0] is None else a[0] / 100)
            elif kind == "st":
                name, cmd = "put_sensor_temp", Command.put_sensor_temp("34:123456", a[0])
            else:
                name, cmd = "put_dhw_temp", Command.put_dhw_temp("07:123456", a[0])
        except Exception:  # noqa: BLE001
            impl.append((None, None))
            ctx.case(("param-cmd", kind, repr(a)), False, f"refused:{kind}")
            continue
        ctx.case(("param-cmd", kind, repr(a)), True, f"built:{name}")
        try:
            p = Message._from_cmd(cmd).payload
            if kind == "dp":
                dec = [1] + tz(p["setpoint"]) + [p["overrun"]] + tz(p["differential"])
                asked = [1, 2, a[1], a[2], 2, a[3]]
            elif kind == "tp":
                dec = [1, p["cycle_rate"], round(p["min_on_time"] * 4), round(p["min_off_time"] * 4)] + tz(p["proportional_band_width"]) + [1 if "domain_id" in p else 0]
                asked = [1, a[1], a[2] * 4, a[3] * 4] + tz(None if a[4] is None else a[4] / 100) + [1 if a[0] >= 0xF0 else 0]
            elif kind == "mv":
                dec = [1] + [x for k, v in p.items() if k in tag for x in (tag[k], v)]
                asked = [1, 0xC8, a[1], 0xC9, a[2], 0xCA, a[3], 0xCB, a[4], 0xCC, 1]
            elif kind == "co":      # no sensor / a sensor fault / the level; what is ASKED for is the level (whatever four digits can spell is outside the oracle: the theorem says what comes back)
                dec = [1, 0] if p.get("co2_level", 0) is None else [1, 1] if "co2_level" not in p else [1, 2, p["co2_level"]]
                asked = [1, 0] if a[0] is None else [1, 2, a[0]] if a[0] < 0x7FFF else dec
            elif kind == "hu":
                dec = [1, 0] if p.get("indoor_humidity", 0) is None else [1, 1] if "indoor_humidity" not in p else [1, 2, round(p["indoor_humidity"] * 100)]
                asked = [1, 0] if a[0] is None else [1, 2, a[0]]
            else:
                dec = [1] + tz(p["temperature"])
                asked = [1] + tz(a[0])
            if dec != asked:
                ctx.violation(f"decoded-value-differs:{name}:param-command", f"{name}{a} -> {cmd}: decoded {dec}, asked for {asked}", {"constructor": name, "args": repr(a), "frame": str(cmd)}, "input")
        except Exception:  # noqa: BLE001
            dec = [9]
            cls = "dhw-idx-let-through" if kind == "dp" and a[0] not in (0, 1) else "out-of-domain" if kind in ("st", "dt", "wt") and a[0] is not None and a[0] < -273.15 else "in-domain"
            if kind == "tp":
                cls = ("in-domain" if a[0] in (0xF9, 0xFA) else "zone-index-as-domain" if a[0] not in (0, 0xFC) else
                       "unchecked-arguments" if not (1 <= a[1] <= 12 and 1 <= a[2] <= 30 and 0 <= a[3] <= 15 and (a[4] is None or 150 <= a[4] <= 300)) else "in-domain:numeric")
            ctx.violation(f"constructor-emits-undecodable-frame:{name}:{cls}", f"{name}{a} built {cmd} which the library's decoder rejects", {"constructor": name, "args": repr(a), "frame": str(cmd)}, "input")
        impl.append((cmd.payload, dec))
    if not built:
        ctx.obligation("correspondence:param-commands", False, "correspondence", "model not built")
        return
    pre = MC_PRELUDE.replace("M_ModeCmd.", "M_ModeCmd M_ParamCmd.").replace("Definition both {R} (code : Z)", "Definition both0 {R} (code : Z)") + (
        "Definition sh10a0 (r : result dhwp) : list Z := match r with Raise _ => [9] | Ok z => [1] ++ tz (dp_setpoint z) ++ [dp_overrun z] ++ tz (dp_differential z) end.\n"
        "Definition sh1030 (r : result (list (Z * Z))) : list Z := match r with Raise _ => [9] | Ok l => 1 :: flat_map (fun x => [fst x; snd x]) l end.\n"
        "Definition shtemp (r : result tempv) : list Z := match r with Raise _ => [9] | Ok t => 1 :: tz t end.\n"
        "Definition shco2 (r : result co2v) : list Z := match r with Raise _ => [9] | Ok Co2None => [1; 0] | Ok Co2Fault => [1; 1] | Ok (Co2Level n) => [1; 2; n] end.\n"
        "Definition shhum (r : result humv) : list Z := match r with Raise _ => [9] | Ok HumNone => [1; 0] | Ok HumFault => [1; 1] | Ok (HumPct b) => [1; 2; b] end.\n"
        "Definition sh0002 (r : result (tempv * str)) : list Z := match r with Raise _ => [9] | Ok t => 1 :: tz (fst t) end.\n"
        "Definition sh1100 (r : result tpi) : list Z := match r with Raise _ => [9] | Ok z => [1; tp_cycle z; tp_on4 z; tp_off4 z] ++ tz (tp_pbw z) ++ [match tp_domain z with Some _ => 1 | None => 0 end] end.\n"
        "Definition both {R} (verb code : Z) (sh : result R -> list Z) (parse : str -> result R) (o : option str) : list (list Z) := match o with None => [[0]] | Some p => [s2z p; if payload_ok verb code p then sh (parse p) else [9]] end.\n")
    shard = 400
    files = {f"q{k // shard}": pre + "".join(f"Eval vm_compute in ({t}).\n" for _, _, t in cases[k:k + shard]) for k in range(0, len(cases), shard)}
    res = common.coq_eval("C03pc", files, timeout=900)
    bad, total = [], 0
    for k in range(0, len(cases), shard):
        rc, out = res[f"q{k // shard}"]
        rows = [eval(o.replace(";", ","), {"__builtins__": {}}) for o in re.findall(r"=\s*(\[.*?\])\s*:\s*list \(list Z\)", out, flags=re.S)]  # noqa: S307
        mine = cases[k:k + shard]
        if rc or len(rows) != len(mine):
            bad.append(f"rc={rc}, {len(rows)} results for {len(mine)} cases: {out[-300:]}")
            continue
        for (kind, a, _), (pl, dec), r in zip(mine, impl[k:k + shard], rows):
            total += 1
            m_pl = None if r == [[0]] else "".join(chr(z) for z in r[0])
            m_dec = None if r == [[0]] else list(r[1])
            if m_pl != pl or m_dec != dec:
                bad.append(f"{kind}{a}: model payload {m_pl} decoded {m_dec}; implementation payload {pl} decoded {dec}")
    ctx.obligation("correspondence:param-commands", not bad, "correspondence", f"{len(bad)} of {total} differ; first: {bad[0][:600]}" if bad else
                   f"{total} argument combinations of set_dhw_params / set_mix_valve_params / set_tpi_params / put_sensor_temp / put_dhw_temp / put_weather_temp / put_co2_level / put_indoor_humidity: payload or refusal, the decoder's verdict and values agree")


def fixed_getters(ctx: Ctx, built: bool) -> None:
    """The getters with a fixed payload vs M_Command.fgetter_payload: payload or refusal and the decoder's verdict, over DHW indexes in and out of 00/01."""
    from ramses_tx.command import Command  # noqa: PLC0415
    from ramses_tx.message import Message  # noqa: PLC0415

    names = {"FDhwMode": "get_dhw_mode", "FDhwParams": "get_dhw_params", "FDhwTemp": "get_dhw_temp", "FSchedVersion": "get_schedule_version",
             "FLanguage": "get_system_language", "FSystemMode": "get_system_mode", "FSystemTime": "get_system_time"}
    idxs = [0, 1, 2, 7, 15, 16, 0x20, 0xF9, 0xFA, 0xFB, 0xFC, 0xFF] + [ctx.rng.randrange(0, 256) for _ in range(4)]
    cases, impl = [], []
    for g, name in names.items():
        dhw = g.startswith("FDhw")
        for i in (idxs if dhw else [0]):
            cases.append((g, i))
            try:
                cmd = getattr(Command, name)(CTL, **({"dhw_idx": i} if dhw else {}))
            except Exception:  # noqa: BLE001
                impl.append((None, None, None))
                ctx.case(("fixed-getter", name, i), False, f"refused:{name}")
                continue
            ctx.case(("fixed-getter", name, i), True, f"built:{name}")
            try:
                Message._from_cmd(cmd)
                ok = 1
            except Exception:  # noqa: BLE001
                ok = 9
            impl.append((cmd.payload, ok, f"{cmd.verb}|{cmd.code}"))
    if not built:
        ctx.obligation("correspondence:fixed-getters", False, "correspondence", "model not built")
        return
    pre = ("From Coq Require Import ZArith String List Bool.\nFrom RV Require Import Py PyStr Regex GenRegex GenTables M_Codecs M_Command.\n"
           "Import ListNotations. Open Scope Z_scope.\nSet Printing Width 1000000. Set Printing Depth 1000000.\n"
           "Definition s2z (s : str) : list Z := map (fun c => Z.of_nat (Ascii.nat_of_ascii c)) s.\n"
           "Definition fg (g : fgetter) (i : Z) : list (list Z) := match fgetter_payload g i with None => [[0]] | Some p => [s2z p; [if payload_ok V_RQ (fg_code g) p then 1 else 9; fg_code g]] end.\n")
    rc, out = common.coq_eval("C03fg", {"q0": pre + "".join(f"Eval vm_compute in (fg {g} {i}).\n" for g, i in cases)}, timeout=300)["q0"]
    rows = [eval(o.replace(";", ","), {"__builtins__": {}}) for o in re.findall(r"=\s*(\[.*?\])\s*:\s*list \(list Z\)", out, flags=re.S)]  # noqa: S307
    bad = []
    if rc or len(rows) != len(cases):
        bad.append(f"rc={rc}, {len(rows)} results for {len(cases)} cases: {out[-300:]}")
    else:
        for (g, i), (pl, ok, key), r in zip(cases, impl, rows):
            m = (None, None, None) if r == [[0]] else ("".join(chr(z) for z in r[0]), r[1][0], f"RQ|{r[1][1]:04X}")
            if m != (pl, ok, key):
                bad.append(f"{names[g]}(dhw_idx={i}): model {m}; implementation {(pl, ok, key)}")
    ctx.obligation("correspondence:fixed-getters", not bad, "correspondence", f"{len(bad)} of {len(cases)} differ; first: {bad[0][:600]}" if bad else
                   f"{len(cases)} calls of get_dhw_mode / get_dhw_params / get_dhw_temp (DHW indexes in and out of 00/01) / get_schedule_version / get_system_language / "
                   "get_system_mode / get_system_time: payload or refusal, verb|code and the decoder's verdict agree")


def bind_commands(ctx: Ctx) -> None:
    """put_bind (registered for I|1FC9 and W|1FC9): offers to nobody / to the sender itself / to the broadcast address, with and without an
    OEM code; accepts; confirms with and without a code: phase and bindings as the ARGUMENTS call for."""
    import itertools  # noqa: PLC0415

    from ramses_tx import exceptions as exc  # noqa: PLC0415
    from ramses_tx.command import CODE_API_MAP, Command  # noqa: PLC0415
    from ramses_tx.message import Message  # noqa: PLC0415

    srcs = ["04:189076", "32:123456", "07:045960"]
    code_lists = [("2309",), ("2309", "30C9"), ("1298", "12A0", "2E10"), "1260", ("22F1", "1FC9"), None, [], ("1FC9",)]
    jobs = []
    for src, codes, dst, oem in itertools.product(srcs, code_lists, [None, "self", "63:262142"], [None, "67"]):
        jobs.append(("offer", " I", src, codes, src if dst == "self" else dst, {"oem_code": oem} if oem else {}))
    for src, codes, idx in itertools.product(srcs, code_lists, [None, "00", "01"]):
        jobs.append(("accept", " W", "01:145038", codes, src, {"idx": idx} if idx else {}))
        jobs.append(("confirm", " I", src, codes, "01:145038", {"idx": idx} if idx else {}))
    jobs.append(("confirm", " I", srcs[0], None, "01:145038", {"idx": "21"}))
    for phase, verb, src, codes, dst, kw in jobs:
        klist = [] if not codes else ([codes] if isinstance(codes, str) else list(codes))
        case = {"constructor": "put_bind", "args": repr((verb, src, codes, dst)), "kwargs": repr(kw)}
        if phase == "offer":
            offered = [c for c in klist if c not in ("1FC9", "10E0")]
            want = ([["00", c, src] for c in offered] + ([[kw["oem_code"], "10E0", src]] if kw else []) + [["00", "1FC9", src]]) if offered else None
        elif phase == "accept":
            want = [[kw.get("idx") or "00", c, src] for c in klist] or None
        else:
            want = [[kw.get("idx") or "00", klist[0], src]] if klist else [[kw.get("idx") or "00"]]
        try:
            cmd = Command.put_bind(verb, src, codes, dst, **kw)
        except (exc.CommandInvalid, AssertionError, ValueError, TypeError, KeyError) as err:
            ctx.case(("put_bind", phase, src, repr(codes), dst, repr(kw)), False, f"refused:put_bind:{phase}")
            if want is not None:
                ctx.violation(f"in-domain-arguments-refused:put_bind:{phase}:{type(err).__name__}", f"put_bind{(verb, src, codes, dst)}{kw} raised {type(err).__name__}: {err}", case, "input")
            continue
        ctx.case(("put_bind", phase, src, repr(codes), dst, repr(kw)), True, f"built:put_bind:{phase}")
        case["frame"] = str(cmd)
        key = f"{cmd.verb}|{cmd.code}"
        if cmd.code != "1FC9" or cmd.verb != verb or getattr(CODE_API_MAP.get(key), "__name__", None) != "put_bind":
            ctx.violation("wrong-verb-or-code:put_bind", f"put_bind built {key}", case, "input")
        try:
            p = Message._from_cmd(cmd).payload
        except Exception as err:  # noqa: BLE001
            cls = "no-codes" if want is None else "codeless-idx-other-than-00-21" if phase == "confirm" and not klist and kw.get("idx") not in (None, "00", "21") else "in-domain"
            ctx.violation(f"constructor-emits-undecodable-frame:put_bind:{phase}:{cls}", f"put_bind{(verb, src, codes, dst)}{kw} built {cmd} which the decoder rejects: {str(err)[:100]}", case, "input")
            continue
        if want is None:
            ctx.violation(f"out-of-domain-arguments-accepted:put_bind:{phase}", f"put_bind{(verb, src, codes, dst)}{kw} (nothing to {phase}) built {cmd}", case, "input")
        elif p.get("phase") != phase or p.get("bindings") != want:
            ctx.violation(f"decoded-value-differs:put_bind:{phase}", f"put_bind{(verb, src, codes, dst)}{kw} -> {cmd}: decoded {p}, asked for {phase} {want}", {**case, "decoded": str(p)[:300]}, "input")


def replay(case: dict) -> int:
    print(case.get("signature"), str(case.get("case"))[:2000])
    return 0
