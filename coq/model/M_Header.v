(* M_Header -- request/reply correlation: the QoS header of a frame (ramses_tx/frame.py pkt_header, Frame._ctx,
   _pkt_idx, _has_array, _has_ctl; Command.tx_header/rx_header).  Code tables are regenerated (GenTables).
   Definitions only; proofs are in proof/P_Header.v. *)
From Coq Require Import ZArith String Ascii List Bool.
From RV Require Import Py PyStr GenTables.
Import ListNotations.
Open Scope Z_scope.

Inductive verb := VI | VRQ | VRP | VW.
Definition verb_idx (v : verb) : Z := match v with VI => 0 | VRQ => 1 | VRP => 2 | VW => 3 end.
Definition verb_eqb (a b : verb) : bool := verb_idx a =? verb_idx b.

(* a device address: type (00..63) and number; --:------ is (-1, -1), 63:262142 is the all-devices address *)
Definition addr := (Z * Z)%type.
Definition addr_eqb (a b : addr) : bool := (fst a =? fst b) && (snd a =? snd b).
Definition NON_DEV : addr := (-1, -1).

Record frame := mkFrame { f_verb : verb; f_src : addr; f_dst : addr; f_code : Z; f_payload : str }.
Definition f_len (f : frame) : Z := Z.of_nat (List.length (f_payload f)) / 2.
Definition memz (x : Z) (l : list Z) : bool := existsb (Z.eqb x) l.
Definition hexbyte (a : nat) (s : str) : option Z := int16 (slice a (a + 2) s).   (* int(payload[a:a+2], 16) *)
Definition oeqb (o : option Z) (z : Z) : bool := match o with Some x => x =? z | None => false end.

Definition C_0005 := 5.      Definition C_0009 := 9.       Definition C_000C := 12.     Definition C_0404 := 1028.
Definition C_0418 := 1048.   Definition C_1100 := 4352.    Definition C_3220 := 12832.  Definition C_1FC9 := 8137.
Definition C_22C9 := 8905.   Definition C_3150 := 12624.   Definition C_3B00 := 15104.  Definition C_31D9 := 12761.
Definition C_31DA := 12762.

(* Frame._has_array; None = one of its assertions fails (pkt_header then returns the header without a context) *)
Definition has_array (f : frame) : option bool :=
  if f_code f =? C_1FC9 then Some (negb (verb_eqb (f_verb f) VRQ))
  else
    let el := match find (fun p => fst p =? f_code f) CODES_WITH_ARRAYS with Some p => Some (snd p) | None => None end in
    match el with
    | None => Some false
    | Some n =>
        if negb (verb_eqb (f_verb f) VI) then Some false
        else
          let arr :=
            if negb (f_len f =? n) then (1 <=? f_len f / n) && (f_len f mod n =? 0)
            else ((f_code f =? C_22C9) || (f_code f =? C_3150)) && (fst (f_src f) =? DEVTYPE_UFC) && addr_eqb (f_dst f) (f_src f)
                 && negb (str_eqb (slice 0 1 (f_payload f)) (lit "F"%string)) in
          if arr then
            if (f_len f mod n =? 0)
               && (memz (fst (f_src f)) [DEVTYPE_DTS; DEVTYPE_DT2] || addr_eqb (f_src f) (f_dst f))
               && (negb (memz (fst (f_src f)) [DEVTYPE_DTS; DEVTYPE_DT2]) || addr_eqb (f_dst f) NON_DEV)
            then Some true else None
          else Some false
    end.

(* Frame._has_ctl *)
Definition has_ctl (f : frame) : bool :=
  if memz (fst (f_src f)) [DEVTYPE_CTL; DEVTYPE_UFC; DEVTYPE_PRG] || memz (fst (f_dst f)) [DEVTYPE_CTL; DEVTYPE_UFC; DEVTYPE_PRG] then true
  else if addr_eqb (f_dst f) (f_src f) then
    ((f_code f =? C_3B00) && str_eqb (slice 0 2 (f_payload f)) (lit "FC"%string))
    || memz (f_code f) (CODES_ONLY_FROM_CTL ++ [C_31D9; C_31DA])
  else if addr_eqb (f_dst f) NON_DEV then negb (fst (f_src f) =? DEVTYPE_OTB)
  else if memz (fst (f_dst f)) [DEVTYPE_DTS; DEVTYPE_DT2] then true
  else false.

(* _pkt_idx *)
Inductive idx := IFalse | ITrue | IStr (s : str) | INone | IRaise | IAssert.
Definition p2 (f : frame) : str := slice 0 2 (f_payload f).
Definition pkt_idx (f : frame) : idx :=
  let c := f_code f in
  let p := f_payload f in
  if c =? C_0005 then match has_array f with Some true => ITrue | Some false => IFalse | None => IAssert end
  else if (c =? C_0009) && (fst (f_src f) =? DEVTYPE_OTB) then IFalse
  else if c =? C_000C then
    if oeqb (hexbyte 2 p) ROLE_APP then IStr (lit "FC"%string)
    else if str_eqb (slice 0 2 p) (lit "01"%string) && oeqb (hexbyte 2 p) ROLE_HTG then IStr (lit "F9"%string)
    else if oeqb (hexbyte 2 p) ROLE_DHW || oeqb (hexbyte 2 p) ROLE_HTG then IStr (lit "FA"%string)
    else IStr (p2 f)
  else if c =? C_0404 then (if str_eqb (slice 2 4 p) (lit "23"%string) then IStr (lit "HW"%string) else IStr (p2 f))
  else if c =? C_0418 then IStr (slice 4 6 p)
  else if c =? C_1100 then (if str_eqb (slice 0 1 p) (lit "F"%string) then IStr (p2 f) else IFalse)
  else if c =? C_3220 then IStr (slice 4 6 p)
  else if memz c CODE_IDX_ARE_COMPLEX then IRaise
  else if memz c CODE_IDX_ARE_NONE then
    (if existsb (fun q => (fst q =? c) && (snd q =? verb_idx (f_verb f))) SCHEMA_STARTS_00 && negb (str_eqb (p2 f) (lit "00"%string)) then IRaise else IFalse)
  else match has_array f with
       | None => IAssert
       | Some true => ITrue
       | Some false =>
           if existsb (str_eqb (p2 f)) [lit "F8"%string; lit "F9"%string; lit "FA"%string; lit "FC"%string] then
             (if memz c CODE_IDX_DOMAIN then IStr (p2 f) else IRaise)
           else if has_ctl f then IStr (p2 f)
           else if (c =? C_31D9) || (c =? C_31DA) then IStr (p2 f)
           else if negb (str_eqb (p2 f) (lit "00"%string)) then IRaise
           else INone
       end.

(* Frame._ctx: the context used in the header; None = no string context *)
Inductive ctxr := CStr (s : str) | CNo | CRaise.
Definition ctx (f : frame) : ctxr :=
  if (f_code f =? C_0005) || (f_code f =? C_000C) then CStr (slice 0 4 (f_payload f))     (* zone_idx + zone type / device role; _idx is not consulted *)
  else if f_code f =? C_0404 then
    match pkt_idx f with IStr s => CStr (s ++ slice 10 12 (f_payload f)) | IRaise => CRaise | _ => CNo end
  else match pkt_idx f with IStr s => CStr s | IRaise => CRaise | _ => CNo end.

(* a header: code | verb | device id [| context] *)
Record hdr := mkHdr { h_code : Z; h_verb : verb; h_dev : addr; h_ctx : option str }.
Definition ALL_DEV : addr := (63, 262142).
Inductive hres := HOk (h : hdr) | HNone | HRaise.

Definition with_ctx (f : frame) (v : verb) (d : addr) : hres :=
  match ctx f with
  | CStr s => HOk (mkHdr (f_code f) v d (Some s))
  | CNo => HOk (mkHdr (f_code f) v d None)
  | CRaise => HRaise
  end.

(* pkt_header(pkt): the header under which a packet is recognised *)
Definition header (f : frame) : hres :=
  if f_code f =? C_1FC9 then
    HOk (mkHdr (f_code f) (f_verb f) (if addr_eqb (f_src f) (f_dst f) then ALL_DEV else f_dst f) None)
  else if verb_eqb (f_verb f) VI || verb_eqb (f_verb f) VRP || addr_eqb (f_src f) (f_dst f) then with_ctx f (f_verb f) (f_src f)
  else with_ctx f (f_verb f) (f_dst f).

(* pkt_header(pkt, rx_header=True): the header of the reply that is expected, if any *)
Definition rx_header (f : frame) : hres :=
  if f_code f =? C_1FC9 then
    if addr_eqb (f_src f) (f_dst f) then HOk (mkHdr (f_code f) VW (f_src f) None)
    else if verb_eqb (f_verb f) VW then HOk (mkHdr (f_code f) VI (f_src f) None)
    else HNone
  else if verb_eqb (f_verb f) VI || verb_eqb (f_verb f) VRP || addr_eqb (f_src f) (f_dst f) then HNone
  else with_ctx f (if verb_eqb (f_verb f) VRQ then VRP else VI) (f_dst f).

(* the echo: the same frame with the gateway's real id as source; the reply: from the addressed device back to the gateway *)
Definition echo_of (f : frame) (gw : addr) : frame := mkFrame (f_verb f) gw (f_dst f) (f_code f) (f_payload f).
Definition reply_verb (v : verb) : verb := match v with VRQ => VRP | _ => VI end.
Definition reply_of (f : frame) (gw : addr) (payload : str) : frame := mkFrame (reply_verb (f_verb f)) (f_dst f) gw (f_code f) payload.
