import asyncio, logging, sys, datetime as _dt, json, random
sys.path.insert(0, __import__('os').path.dirname(__file__))
logging.disable(logging.CRITICAL)
from vloop import VLoop
import ramses_tx.gateway as txgw
from ramses_tx.transport import _FullTransport
from ramses_tx.address import dev_id_to_hex_id
from ramses_rf import Gateway
from ramses_rf.helpers import shrink
EPOCH=_dt.datetime(2026,1,1,12,0,0)
class VDT(_dt.datetime):
    _loop=None; _tick=0
    @classmethod
    def now(cls, tz=None):
        cls._tick+=1
        return EPOCH+_dt.timedelta(seconds=cls._loop.time(), microseconds=cls._tick)
class _Abs:
    def __init__(self, name, protocol, loop=None): self._protocol=protocol; self._loop=loop or asyncio.get_event_loop()
class MemTransport(_FullTransport, _Abs):
    def __init__(self, name, protocol, controller=None, lose=None, **kw):
        super().__init__(name, protocol, **kw); self.writes=[]; self.controller=controller; self.lose=lose or (lambda n,f: False)
        self._extra['active_gwy']="18:111111"; self._loop.call_soon(lambda: self._make_connection("18:111111"))
    def _dt_now(self): return VDT.now()
    async def write_frame(self, frame, disable_tx_limits=False):
        n=len(self.writes); self.writes.append((self._loop.time(),frame))
        echo=frame.replace("18:000730","18:111111")
        self._loop.call_later(0.01, self.rx, "000 "+echo)
        if self.controller and not self.lose(n,frame):
            for dly,rp in self.controller(echo): self._loop.call_later(dly, self.rx, "045 "+rp)
    def rx(self, line): self._frame_read(VDT.now().isoformat(timespec="microseconds"), line)
CTL="01:145038"
CLS={"radiator_valve":"08","underfloor_heating":"09","zone_valve":"0A","mixing_valve":"0B","electric_heat":"11"}
def make_controller(cfg):
    zones=cfg["zones"]
    def mask(pred):
        m=0
        for z in zones:
            if pred(zones[z]): m|=1<<int(z,16)
        return f"{m&0xFF:02X}{(m>>8)&0xFF:02X}"
    def devs(idx,role,ids):
        if not ids: return f"{idx}{role}7FFFFFFF"
        return "".join(f"{idx}{role}00{dev_id_to_hex_id(d)}" for d in ids)
    def ctl(frame):
        f=frame.split(); verb,dst,code,pl=f[0],f[3],f[5],f[7]
        if verb!="RQ" or dst!=CTL: return []
        if code=="0005":
            zt=pl[2:4]
            if zt in CLS.values(): m=mask(lambda z: CLS[z["class"]]==zt)
            elif zt=="04": m=mask(lambda z: z.get("sensor"))
            elif zt=="00": m=mask(lambda z: True)
            else: m="0000"
            return [(0.03,f"RP --- {CTL} 18:111111 --:------ 0005 004 00{zt}{m}")]
        if code=="000C":
            idx,role=pl[:2],pl[2:4]; ids=None
            if role=="0F" and idx=="00": ids=[cfg["appliance"]] if cfg.get("appliance") else []
            elif role=="0D" and idx=="00": ids=[cfg["dhw"]["sensor"]] if cfg.get("dhw",{}).get("sensor") else []
            elif role=="0E" and idx=="00": ids=[cfg["dhw"]["dhw_valve"]] if cfg.get("dhw",{}).get("dhw_valve") else []
            elif role=="0E" and idx=="01": ids=[cfg["dhw"]["htg_valve"]] if cfg.get("dhw",{}).get("htg_valve") else []
            elif idx in zones:
                z=zones[idx]
                if role=="04": ids=[z["sensor"]] if z.get("sensor") else []
                elif role=="00" or role==CLS[z["class"]]: ids=z["actuators"]
                else: ids=[]
            else: return []
            pl2=devs(idx,role,ids)
            return [(0.03,f"RP --- {CTL} 18:111111 --:------ 000C {len(pl2)//2:03d} {pl2}")]
        return []
    return ctl
def expected(cfg):
    return {"system":{"appliance_control":cfg.get("appliance")},
            "stored_hotwater":({"sensor":cfg["dhw"].get("sensor"),"hotwater_valve":cfg["dhw"].get("dhw_valve"),"heating_valve":cfg["dhw"].get("htg_valve")} if cfg.get("dhw") else {}),
            "zones":{z:{"class":v["class"],"sensor":v.get("sensor"),"actuators":sorted(v["actuators"])} for z,v in cfg["zones"].items()}}
async def run(cfg, lose, hours):
    loop=asyncio.get_event_loop(); errs=[]
    loop.set_exception_handler(lambda l,c: errs.append((round(loop.time(),2), repr(c.get('exception'))[:80])))
    import ramses_rf.entity_base as eb, ramses_rf.system.heat as heat, ramses_tx.protocol_fsm as fsm
    eb.dt=VDT; heat.dt=VDT; fsm.dt=VDT
    holder={}
    async def factory(protocol, **kw):
        t=MemTransport("mem", protocol, controller=make_controller(cfg), lose=lose, disable_sending=False, loop=kw.get('loop')); holder['t']=t
        await protocol.wait_for_connection_made(timeout=3); return t
    txgw.transport_factory=factory
    gwy=Gateway("/dev/mem", config={"disable_discovery":False,"enforce_known_list":False}, **{CTL:{}})
    await gwy.start()
    await asyncio.sleep(hours*3600)
    sch=shrink(gwy.schema).get(CTL,{})
    got={"system":{"appliance_control":sch.get("system",{}).get("appliance_control")},
         "stored_hotwater":sch.get("stored_hotwater",{}),
         "zones":{z:{k:v.get(k) for k in("class","sensor")}|{"actuators":v.get("actuators",[])} for z,v in sch.get("zones",{}).items()}}
    exp=shrink(expected(cfg)); exp.setdefault("system",{"appliance_control":None})
    await gwy.stop()
    return got, expected(cfg), errs, len(holder['t'].writes)
cfgs=[
 {"zones":{"00":{"class":"radiator_valve","sensor":"34:000001","actuators":["04:000001","04:000002"]},
           "01":{"class":"zone_valve","sensor":"01:145038","actuators":["13:000001"]},
           "03":{"class":"electric_heat","sensor":"03:000001","actuators":["13:000002"]},
           "0B":{"class":"mixing_valve","sensor":"12:000001","actuators":[]}},
  "dhw":{"sensor":"07:000001","dhw_valve":"13:000003","htg_valve":"13:000004"},"appliance":"10:000001"},
 {"zones":{"02":{"class":"underfloor_heating","sensor":"22:000001","actuators":["02:000001"]}},"appliance":"13:000009"},
]
def norm(d): return json.dumps(shrink(d),sort_keys=True)
for cfg in cfgs:
    for name,lose in (("no loss",None),("lose first 15 replies",lambda n,f: n<15),("lose every 3rd", lambda n,f: n%3==0)):
        VDT._tick=0
        loop=VLoop(); asyncio.set_event_loop(loop); VDT._loop=loop
        got,exp,errs,nw=loop.run_until_complete(run(cfg,lose,50))
        print(name,"writes",nw,"MATCH" if norm(got)==norm(exp) else "DIFF", "errs",errs[:2])
        if norm(got)!=norm(exp): print("  got",norm(got)); print("  exp",norm(exp))
