(* C02 -- Frame text round-trips.  Statements only. *)
From Coq Require Import ZArith Ascii String List Bool.
From RV Require Import Py PyStr Regex GenRegex GenTables M_Codecs M_Frame P_Frame P_Frame2 P_FramePartition.
Import ListNotations.
Open Scope Z_scope.

(* the regex the source has now is a concatenation of fixed columns separated by single spaces:
   what makes the fixed slice offsets 7/16/17/26/27/36/37/41/42/45/46 of the code right *)
Theorem C02_command_regex_shape : cmd_shape_ok = true.
Proof. exact cmd_shape. Qed.

(* parse then print is the identity, for EVERY text the constructor accepts *)
Theorem C02_print_parse : forall s f, mk_frame s = Ok f -> print_frame f = s.
Proof. exact print_parse. Qed.

(* print then parse is the identity, for EVERY structurally valid frame *)
Theorem C02_parse_print : forall f, wf_frame f -> mk_frame (print_frame f) = Ok f.
Proof. exact parse_print. Qed.

Theorem C02_reparse_stable : forall s f, mk_frame s = Ok f -> mk_frame (print_frame f) = Ok f.
Proof. exact reparse_stable. Qed.

(* the length field equals the payload's byte count (and the payload has whole bytes) *)
Theorem C02_len_is_bytecount : forall s f, mk_frame s = Ok f ->
  int10 (f_len f) = Some (Z.of_nat (length (f_payload f)) / 2) /\ Z.of_nat (length (f_payload f)) mod 2 = 0.
Proof. exact len_is_bytecount. Qed.

(* a command assembled from attributes prints as exactly the assembled text *)
Theorem C02_from_attrs_preserves : forall verb seqn x0 x1 x2 code payload f,
  cmd_from_attrs verb seqn x0 x1 x2 code payload = Ok f ->
  print_frame f = attrs_text verb seqn x0 x1 x2 code payload.
Proof. exact from_attrs_preserves. Qed.

Example C02_nonvacuous :
  exists f, mk_frame (lit "RQ --- 18:000730 01:145038 --:------ 000A 002 0800") = Ok f /\
            a_src (f_addrs f) = lit "18:000730" /\ a_dst (f_addrs f) = lit "01:145038" /\
            cmd_from_attrs (lit "RQ") (lit "---") (lit "18:000730") (lit "01:145038") NON_DEV (lit "000A") (lit "0800") = Ok f.
Proof. eexists. split; [vm_compute; reflexivity|]. split; [reflexivity|]. split; [reflexivity|vm_compute; reflexivity]. Qed.

(* ---- annotations of a logged / received line: frame[ < hint][ * evofw3-err][ # comment] (Packet._partition) ---- *)
(* whatever follows the first '#' is comment and nothing else: a comment may contain '*', '<' or further '#' without changing the
   frame and without becoming an error message (which would make the packet invalid on replay) *)
Theorem C02_comment_is_opaque : forall fr c, lacks "#"%char fr -> lacks "*"%char fr -> lacks "<"%char fr ->
  pkt_partition (fr ++ "#"%char :: c) = (strip fr, [], strip c).
Proof. exact comment_is_opaque. Qed.
Theorem C02_hint_and_comment : forall fr h c, lacks "#"%char fr -> lacks "*"%char fr -> lacks "<"%char fr -> lacks "#"%char h -> lacks "*"%char h ->
  pkt_partition (fr ++ "<"%char :: h ++ "#"%char :: c) = (strip fr, [], strip c).
Proof. exact hint_and_comment. Qed.
Theorem C02_error_before_comment : forall fr e c, lacks "#"%char fr -> lacks "*"%char fr -> lacks "<"%char fr -> lacks "#"%char e ->
  pkt_partition (fr ++ "*"%char :: e ++ "#"%char :: c) = (strip fr, strip e, strip c).
Proof. exact error_before_comment. Qed.

(* the CLI short form (Command.from_cli after tokenisation): three address tokens are the three address fields of the frame built ... *)
Theorem C02_cli_triple_kept : forall verb seqn a b c code payload f,
  cmd_from_cli verb seqn [a; b; c] code payload = Ok f ->
  print_frame f = attrs_text verb seqn a b c code (firstn 48 payload).
Proof. exact cli_triple_kept. Qed.
(* ... and fewer tokens are completed as documented: one device = a request from the gateway's placeholder to it, the same device twice = an
   announcement, two devices = source and destination *)
Theorem C02_cli_short_forms : forall verb seqn a b code payload f,
  str_eqb verb (lit " I") = false ->
  (cmd_from_cli verb seqn [a] code payload = Ok f -> print_frame f = attrs_text verb seqn HGI_ADDR a NON_DEV code (firstn 48 payload)) /\
  (cmd_from_cli verb seqn [a; a] code payload = Ok f -> print_frame f = attrs_text verb seqn a NON_DEV a code (firstn 48 payload)) /\
  (str_eqb a b = false -> cmd_from_cli verb seqn [a; b] code payload = Ok f -> print_frame f = attrs_text verb seqn a b NON_DEV code (firstn 48 payload)).
Proof. exact cli_short_forms. Qed.

(* the whole CLI string (tokens of cmd_str.upper().split()): with the sequence number spelt out, three address tokens are the frame's three
   address fields, whatever they are; without it, likewise when the first is a device id (a leading null address would be read as the
   sequence number: such a frame needs its --- spelt out) *)
Theorem C02_cli_toks_triple_kept : forall verb seqn a b c code payload f,
  is_dev_id seqn = false ->
  cmd_from_cli_toks [verb; seqn; a; b; c; code; payload] = Ok f ->
  print_frame f = attrs_text verb seqn a b c code (firstn 48 payload).
Proof. exact cli_toks_triple_kept. Qed.
Theorem C02_cli_toks_triple_kept_no_seqn : forall verb a b c code payload f,
  is_dev_id a = true ->
  cmd_from_cli_toks [verb; a; b; c; code; payload] = Ok f ->
  print_frame f = attrs_text verb (lit "---") a b c code (firstn 48 payload).
Proof. exact cli_toks_triple_kept_no_seqn. Qed.
