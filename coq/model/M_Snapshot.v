(* M_Snapshot -- saved state: what get_state() keeps and what replaying it into a store gives
   (ramses_rf/gateway.py get_state/_get_state/wanted_msg, _restore_cached_packets;
    ramses_rf/entity_base.py _MessageDB._handle_msg: a slot holds the latest message written to it).
   Definitions only; proofs are in proof/P_Snapshot.v. *)
From Coq Require Import List Bool Arith.
Import ListNotations.

(* ---- the filter, clause by clause as in wanted_msg -------------------------------------------- *)
Inductive verb := VI | VRQ | VRP | VW.
Inductive codek := C313F | C0404 | COther.
Record attrs := mkAttrs { a_code : codek; a_verb : verb; a_len : nat }.

Definition verb_in (v : verb) (vs : list verb) : bool :=
  existsb (fun w => match v, w with VI, VI | VRQ, VRQ | VRP, VRP | VW, VW => true | _, _ => false end) vs.

Definition wanted_msg (include_expired expired : bool) (m : attrs) : bool :=
  match a_code m with
  | C313F => verb_in (a_verb m) [VI; VRP]
  | c =>
    if expired && negb include_expired then false
    else match c with
         | C0404 => verb_in (a_verb m) [VI; VW] && (7 <? a_len m)
         | _ => if verb_in (a_verb m) [VW; VRQ] then false else include_expired || negb expired
         end
  end.

(* ---- the store and the snapshot over a history ------------------------------------------------ *)
(* packets are numbered in order of arrival (= of timestamp).  A history is a list of events: a packet
   arrives and is written to its slots, or a slot is emptied (a view read a message after it expired). *)
Inductive event := Pkt (p : nat) | Clear (s : nat).

Section Store.
  Variable slots_of : nat -> list nat.       (* the store slots -- (entity, code[, verb, ctx]) -- a packet is written to *)
  Variable wanted : bool -> nat -> bool.     (* wanted e p: the filter's verdict on packet p given its expiry verdict e *)
  Variable expired_at : nat -> nat -> bool.  (* expired_at clock p *)

  Definition ev_writes (s : nat) (e : event) : bool :=
    match e with Pkt q => existsb (Nat.eqb s) (slots_of q) | Clear s' => Nat.eqb s s' end.
  Definition overwritten (s : nat) (later : list event) : bool := existsb (ev_writes s) later.
  (* p still sits in one of its slots after the later events *)
  Definition held_in (p : nat) (later : list event) : bool :=
    existsb (fun s => negb (overwritten s later)) (slots_of p).

  (* the packets the stores hold after a history (a slot holds the latest packet written to it, if any) *)
  Fixpoint store (hist : list event) : list nat :=
    match hist with
    | [] => []
    | Pkt p :: later => if held_in p later then p :: store later else store later
    | Clear _ :: later => store later
    end.

  (* get_state(): the held packets that the filter wants *)
  Definition snapshot (clock : nat) (hist : list event) : list nat :=
    filter (fun p => wanted (expired_at clock p) p) (store hist).

  (* restoring = replaying the packets of a snapshot, in order *)
  Definition replay (K : list nat) : list event := map Pkt K.
End Store.
