"""Shared input material: the repository's own packet logs, a regex-driven string generator,
and frame mutators.  All randomness comes from the rng passed in."""

from __future__ import annotations

import re._parser as sp
from functools import lru_cache
from pathlib import Path

from .common import REPO

HEX = "0123456789ABCDEF"


@lru_cache(maxsize=1)
def log_lines() -> list[tuple[str, str, str]]:
    """(source file, dtm_str, rest) for every non-comment line of every *.log under /repo/tests."""
    out = []
    for p in sorted((REPO / "tests").rglob("*.log")):
        try:
            txt = p.read_text(errors="replace")
        except OSError:
            continue
        for line in txt.splitlines():
            s = line.strip()
            if s and s[:1] != "#" and len(s) > 27:
                out.append((str(p.relative_to(REPO)), s[:26], s[27:]))
    return out


def gen_regex(pattern: str, rng, maxrep: int = 4) -> str:
    """A random string matching the pattern (subset of constructs used by ramses_tx)."""

    def g(p):
        out = []
        for op, av in p:
            op = str(op)
            if op == "LITERAL":
                out.append(chr(av))
            elif op == "ANY":
                out.append(rng.choice(HEX))
            elif op == "IN":
                items = []
                for o, a in av:
                    o = str(o)
                    if o == "LITERAL":
                        items.append(chr(a))
                    elif o == "RANGE":
                        items.extend(chr(c) for c in range(a[0], a[1] + 1))
                    elif o == "CATEGORY":
                        items.extend("0123456789")
                    else:
                        raise ValueError(o)
                out.append(rng.choice(items))
            elif op == "SUBPATTERN":
                out.append(g(av[3]))
            elif op == "BRANCH":
                out.append(g(rng.choice(av[1])))
            elif op in ("MAX_REPEAT", "MIN_REPEAT"):
                lo, hi, sub = av
                hi = min(int(hi), lo + maxrep) if str(hi) != "MAXREPEAT" else lo + maxrep
                n = rng.choice([lo, hi, rng.randint(lo, hi)])
                out.append("".join(g(sub) for _ in range(n)))
            elif op == "AT":
                pass
            else:
                raise ValueError(op)
        return "".join(out)

    return g(sp.parse(pattern))


def mutate(frame: str, rng, edits: int = 1) -> str:
    """Up to `edits` random edits of a frame line: hex flips, address digits, length, truncation, case, spaces."""
    s = frame
    for _ in range(edits):
        if not s:
            break
        k = rng.randrange(9)
        i = rng.randrange(len(s))
        if k == 0:
            s = s[:i] + rng.choice(HEX) + s[i + 1:]
        elif k == 1:
            s = s[:i] + rng.choice("0123456789-: ") + s[i + 1:]
        elif k == 2:
            s = s[:i] + s[i + 1:]
        elif k == 3:
            s = s[:i] + rng.choice(HEX + " -:*#<") + s[i:]
        elif k == 4:
            s = s[: rng.randrange(len(s) + 1)]
        elif k == 5:
            s = s.lower() if rng.random() < 0.5 else s.swapcase()
        elif k == 6 and len(s) > 50:  # length field
            s = s[:46] + f"{rng.randrange(0, 60):03d}" + s[49:] if s[45:46] == " " else s
        elif k == 7:
            s = s.replace(" ", "  ", 1) if rng.random() < 0.5 else " " + s
        else:
            j = rng.randrange(len(s))
            s = s[:i] + s[j:]
    return s
