(* P_Qos: invariants of the send machinery, for EVERY event list, tie policy and transport plan. *)
From Coq Require Import ZArith List Bool Arith Lia.
From RV Require Import GenConsts M_Qos.
Import ListNotations.
Open Scope Z_scope.

(* a predicate holds of the world a step ends in, whether it ended normally or tripped an assertion *)
Definition Rsat (P : world -> Prop) (r : R) : Prop := match r with Ok w => P w | Crash _ w => P w end.

Lemma Rsat_bind P r f : Rsat P r -> (forall w, P w -> Rsat P (f w)) -> Rsat P (bind r f).
Proof. destruct r as [w|n w]; cbn; intros H F; [apply F, H|exact H]. Qed.
Lemma Rsat_assert (P : world -> Prop) b n w : P w -> Rsat P (assert b n w).
Proof. unfold assert. destruct b; cbn; auto. Qed.

(* ---------------------------------------------------------------- the invariant *)
(* transmit count within its limit; a current command has a limit >= 1; back-off exponent capped *)
Definition cinv (c : ctx) : Prop :=
  (txc c <= txl c)%nat /\ (is_some (cur c) = true -> (1 <= txl c)%nat) /\ (mult c <= MULT_CAP)%nat.
Definition Inv (w : world) : Prop := cinv (cx w).

(* the part of the context the invariant reads *)
Definition core (c : ctx) := (cur c, txc c, txl c, mult c).
Lemma cinv_core c c' : core c' = core c -> cinv c -> cinv c'.
Proof. unfold core, cinv. intros [= -> -> -> ->]. auto. Qed.

(* helpers that do not touch the core *)
Lemma core_set_expiry w e : core (cx (set_expiry w e)) = core (cx w).  Proof. reflexivity. Qed.
Lemma core_set_sent w e : core (cx (set_sent w e)) = core (cx w).  Proof. reflexivity. Qed.
Lemma core_set_echo w e : core (cx (set_echo w e)) = core (cx w).  Proof. reflexivity. Qed.
Lemma core_set_que w e : core (cx (set_que w e)) = core (cx w).  Proof. reflexivity. Qed.
Lemma cx_call_soon w c : cx (call_soon w c) = cx w.  Proof. reflexivity. Qed.
Lemma cx_call_at w t c : cx (call_at w t c) = cx w.  Proof. reflexivity. Qed.
Lemma cx_cancel_timer w c : cx (cancel_timer w c) = cx w.  Proof. reflexivity. Qed.
Lemma cx_set_fut w c f : cx (set_fut w c f) = cx w.  Proof. reflexivity. Qed.
Lemma cx_set_caller w c f : cx (set_caller w c f) = cx w.  Proof. reflexivity. Qed.
Lemma cx_set_exp w c f : cx (set_exp w c f) = cx w.  Proof. reflexivity. Qed.
Lemma cx_emit w o : cx (emit w o) = cx w.  Proof. reflexivity. Qed.
Lemma cx_bump_stamp w : cx (bump_stamp w) = cx w.  Proof. reflexivity. Qed.
Lemma cx_bump_writes w : cx (bump_writes w) = cx w.  Proof. reflexivity. Qed.
Lemma cx_resolve w c f : cx (resolve w c f) = cx w.
Proof. unfold resolve. destruct (aget CNone c (callers (set_fut w c f))); reflexivity. Qed.
Lemma cx_cancel_exp w t : cx (cancel_exp w t) = cx w.
Proof. unfold cancel_exp. destruct (aget EDone t (exps w)); reflexivity. Qed.

Lemma Inv_cx w w' : cx w' = cx w -> Inv w -> Inv w'.
Proof. unfold Inv. intros ->. auto. Qed.
Lemma Inv_core w w' : core (cx w') = core (cx w) -> Inv w -> Inv w'.
Proof. unfold Inv. apply cinv_core. Qed.

(* ---------------------------------------------------------------- set_state *)
Lemma settle_core w h : Rsat (fun w' => core (cx w') = core (cx w) /\ state (cx w') = state (cx w)) (settle w h).
Proof.
  unfold settle.
  set (w1 := match expiry (cx w) with Some t => set_expiry (cancel_exp w t) None | None => w end).
  assert (E1 : core (cx w1) = core (cx w) /\ state (cx w1) = state (cx w)).
  { subst w1. destruct (expiry (cx w)) as [t|]; [|split; reflexivity].
    unfold set_expiry. cbn. rewrite cx_cancel_exp. split; reflexivity. }
  clearbody w1.
  set (Q := fun w' : world => core (cx w') = core (cx w) /\ state (cx w') = state (cx w)).
  assert (Q1 : Q w1) by exact E1.
  assert (QA : forall b n, Rsat Q (assert b n w1)) by (intros; apply Rsat_assert, Q1).
  assert (QR : forall f x, Q (resolve w1 f x)) by (intros; unfold Q; rewrite cx_resolve; exact E1).
  destruct (curfut (cx w1)) as [f|].
  2:{ apply Rsat_bind; [apply QA|]. intros w' H. apply Rsat_assert, H. }
  destruct (fut_of w1 f) eqn:Ef; destruct h;
    try (apply QA);
    try (apply Rsat_bind; [apply QA|]; intros w' H; apply Rsat_assert, H);
    try (unfold assert; destruct (negb _); cbn; [|exact Q1]; destruct (sending_state _); cbn; [apply QR|exact Q1]).
Qed.

Lemma switch_inv w ns h :
  Inv w -> (is_timed_out h = true -> (txc (cx w) < txl (cx w))%nat) -> Rsat Inv (switch w ns h).
Proof.
  intros I T. pose proof I as [I1 [I2 I3]]. unfold switch.
  assert (Fin : forall w2 : world, Inv w2 ->
            Rsat Inv (bind (assert (is_sending_ok w2) 13 w2) (fun w3 => Ok (call_soon w3 (CbEffect (is_timed_out h)))))).
  { intros w2 I2'. unfold assert. destruct (is_sending_ok w2); cbn; [|exact I2'].
    eapply Inv_cx; [apply cx_call_soon|exact I2']. }
  destruct (is_timed_out h) eqn:Th.
  - cbn [bind]. apply Fin. unfold Inv, cinv. cbn. specialize (T eq_refl). repeat split; [lia|exact I2|exact I3].
  - destruct ns; cbn [bind].
    + apply Fin. unfold Inv, cinv. cbn. repeat split; [lia|discriminate|exact I3].
    + apply Fin. unfold Inv, cinv. cbn. repeat split; [lia|discriminate|exact I3].
    + unfold assert at 1. destruct (is_some (cur (cx w))) eqn:E; cbn [bind Rsat]; [|exact I].
      apply Fin. unfold Inv, cinv. cbn. repeat split; [apply I2; reflexivity|intros _; apply I2; reflexivity|exact I3].
    + apply Fin. unfold Inv, cinv. cbn. repeat split; [exact I1|exact I2|exact I3].
Qed.

Lemma set_state_inv w ns h :
  Inv w -> (is_timed_out h = true -> (txc (cx w) < txl (cx w))%nat) -> Rsat Inv (set_state w ns h).
Proof.
  intros I T. unfold set_state.
  pose proof (settle_core w h) as S.
  destruct (settle w h) as [w1|n w1]; cbn [bind Rsat] in *.
  - destruct S as [S _]. apply switch_inv.
    + eapply Inv_core; [exact S|exact I].
    + intros Th. unfold core in S. injection S as _ -> -> _. apply T, Th.
  - destruct S as [S _]. eapply Inv_core; [exact S|exact I].
Qed.

Lemma set_state_inv_plain w ns h : Inv w -> is_timed_out h = false -> Rsat Inv (set_state w ns h).
Proof. intros I T. apply set_state_inv; [exact I|]. rewrite T. discriminate. Qed.

(* ---------------------------------------------------------------- the callbacks *)
Section Env.
Variable cmds : cid -> cmdinfo.
Variable plan : nat -> wplan.

Lemma send_cmd_inv w c r : Inv w -> Rsat Inv (send_cmd_ w c r).
Proof.
  intros I. unfold send_cmd_. destruct (state (cx w)).
  - apply set_state_inv_plain; [exact I|reflexivity].
  - apply Rsat_bind; [apply Rsat_assert, I|]. intros w1 I1.
    apply Rsat_bind.
    + apply set_state_inv_plain; [eapply Inv_core; [apply core_set_sent|exact I1]|reflexivity].
    + intros w2 I2. cbn. eapply Inv_cx; [apply cx_call_soon|exact I2].
  - apply Rsat_bind; [apply Rsat_assert, I|]. intros w1 I1. cbn. eapply Inv_cx; [apply cx_call_soon|exact I1].
  - apply set_state_inv_plain; [exact I|reflexivity].
Qed.

Lemma dequeue_core q : forall w, core (cx (fst (dequeue w q))) = core (cx w).
Proof.
  induction q as [|[[p s] c] q IH]; intros w; cbn [dequeue]; [reflexivity|].
  destruct (fut_done (fut_of w c)); [apply IH|reflexivity].
Qed.

Lemma check_buffer_inv w : Inv w -> Rsat Inv (check_buffer cmds w).
Proof.
  intros I. unfold check_buffer. apply Rsat_bind; [apply Rsat_assert, I|]. intros w1 I1.
  destruct (match curfut (cx w1) with Some f => negb (fut_done (fut_of w1 f)) | None => false end); [exact I1|].
  pose proof (dequeue_core (que (cx w1)) w1) as D.
  destruct (dequeue w1 (que (cx w1))) as [w2 oc]. cbn [fst] in D.
  assert (I2 : Inv w2) by (eapply Inv_core; [exact D|exact I1]).
  destruct oc as [k|].
  - apply send_cmd_inv. destruct I2 as [_ [_ M]]. unfold Inv, cinv, set_cur. cbn.
    repeat split; [lia|intros _; lia|exact M].
  - cbn. destruct I2 as [A [_ M]]. unfold Inv, cinv, set_cur. cbn. repeat split; [exact A|discriminate|exact M].
Qed.

Lemma new_exp_inv w : Inv w -> Inv (new_exp w).
Proof. intros I. unfold new_exp. eapply Inv_core; [|exact I]. reflexivity. Qed.

Lemma effect_state_inv w b : Inv w -> Rsat Inv (effect_state cmds w b).
Proof.
  intros I. unfold effect_state. apply Rsat_bind; [apply Rsat_assert, I|]. intros w1 I1.
  apply Rsat_bind.
  - destruct b; [|exact I1]. destruct (cur (cx w1)); [apply send_cmd_inv, I1|exact I1].
  - intros w2 I2. destruct (state (cx w2)).
    + exact I2.
    + cbn. eapply Inv_cx; [apply cx_call_soon|exact I2].
    + cbn. apply new_exp_inv, I2.
    + destruct (cur (cx w2)) as [k|]; [|exact I2].
      destruct (negb (wfr (cmds k))); [|cbn; apply new_exp_inv, I2].
      destruct (echo (cx w2)); apply set_state_inv_plain; auto.
Qed.

Lemma exp_start_inv w t : Inv w -> Rsat Inv (exp_start w t).
Proof.
  intros I. unfold exp_start. destruct (aget EDone t (exps w)); try exact I.
  apply Rsat_bind; [apply Rsat_assert, I|]. intros w1 I1.
  apply Rsat_bind; [apply Rsat_assert, I1|]. intros w2 I2.
  apply Rsat_bind; [apply Rsat_assert, I2|]. intros w3 I3.
  cbn. destruct I3 as [A [B M]]. unfold Inv, cinv. cbn. repeat split; [exact A|exact B|lia].
Qed.

Lemma exp_wake_inv w t : Inv w -> Rsat Inv (exp_wake w t).
Proof.
  intros I. unfold exp_wake. destruct (aget EDone t (exps w)) as [| |old| | |]; try exact I.
  set (w1 := set_mult (set_exp w t ERunning) (Nat.min MULT_CAP (S old))).
  assert (I1 : Inv w1).
  { destruct I as [A [B M]]. subst w1. unfold Inv, cinv. cbn. repeat split; [exact A|exact B|].
    unfold MULT_CAP. destruct old as [|[|[|?]]]; cbn; lia. }
  apply Rsat_bind; [apply Rsat_assert, I1|]. intros w2 I2.
  apply Rsat_bind.
  - destruct (Nat.ltb (txc (cx w2)) (txl (cx w2))) eqn:E.
    + apply set_state_inv; [exact I2|]. intros _. apply Nat.ltb_lt, E.
    + apply set_state_inv_plain; [exact I2|reflexivity].
  - intros w3 I3. apply Rsat_bind; [apply Rsat_assert, I3|]. intros w4 I4. cbn.
    eapply Inv_cx; [apply cx_set_exp|exact I4].
Qed.

Lemma pkt_rcvd_inv w p : Inv w -> Rsat Inv (pkt_rcvd cmds w p).
Proof.
  intros I. unfold pkt_rcvd. destruct (state (cx w)).
  - apply Rsat_assert, I.
  - apply Rsat_assert, I.
  - destruct (sent (cx w)) as [k|]; [|exact I].
    destruct (match rx_hdr (cmds k) with Some h => Nat.eqb (p_hdr p) h && p_dst_ok p | None => false end).
    + apply set_state_inv_plain; auto.
    + destruct (negb (Nat.eqb (p_hdr p) (tx_hdr (cmds k)))); [exact I|].
      destruct (rx_hdr (cmds k)); apply set_state_inv_plain; try reflexivity;
        (eapply Inv_core; [apply core_set_echo|exact I]).
  - destruct (sent (cx w)) as [k|]; [|exact I]. destruct (echo (cx w)) as [e|]; [|exact I].
    destruct (Nat.eqb (p_hdr p) (tx_hdr (cmds k)) && Nat.eqb (p_src p) (p_src e)); [exact I|].
    destruct (rx_hdr (cmds k)) as [h|]; [|exact I].
    destruct (null_ok (cmds k) p || Nat.eqb (p_hdr p) h); [apply set_state_inv_plain; auto|exact I].
Qed.

Lemma caller_start_inv w c : Inv w -> Rsat Inv (caller_start cmds w c).
Proof.
  intros I. unfold caller_start. destruct (state (cx w)) eqn:S; try exact I;
    (destruct (Nat.leb BUF_SIZE (length (que (cx w)))); [exact I|]; cbn [Rsat];
     eapply Inv_core; [|exact I]; cbn; rewrite ?S; reflexivity).
Qed.

Lemma caller_timer_inv w c : Inv w -> Rsat Inv (caller_timer w c).
Proof.
  intros I. unfold caller_timer. destruct (aget CNone c (callers w)); try exact I.
  destruct (fut_done (fut_of (set_caller w c CTimedOut) c)); exact I.
Qed.

Lemma caller_cancel_inv w c : Inv w -> Rsat Inv (caller_cancel w c).
Proof.
  intros I. unfold caller_cancel. destruct (aget CNone c (callers w)); try exact I.
  destruct (fut_done (fut_of (set_caller w c CCancelled) c)); exact I.
Qed.

Lemma caller_wake_inv w c : Inv w -> Rsat Inv (caller_wake w c).
Proof.
  intros I. unfold caller_wake. destruct (aget CNone c (callers w)); try exact I.
  assert (G : Rsat Inv (match cur (cx w) with
                         | Some k => if Nat.eqb k c then set_state w Idle HExpired else Ok w
                         | None => Ok w end)).
  { destruct (cur (cx w)) as [k|]; [|exact I]. destruct (Nat.eqb k c); [|exact I].
    apply set_state_inv_plain; auto. }
  destruct (match cur (cx w) with Some k => if Nat.eqb k c then set_state w Idle HExpired else Ok w | None => Ok w end);
    cbn in *; exact G.
Qed.

Lemma conn_inv w : Inv w -> Rsat Inv (conn_made w) /\ Rsat Inv (conn_lost w).
Proof.
  intros I. unfold conn_made, conn_lost. split; destruct (state (cx w)); try exact I; apply set_state_inv_plain; auto.
Qed.

Lemma do_write_inv w n c : Inv w -> Rsat Inv (do_write cmds plan w n c).
Proof.
  intros I. unfold do_write. destruct (w_fail (plan n)).
  { unfold fail_write. destruct (cur (cx w)) as [k|]; [|exact I]. destruct (Nat.eqb k c); [|exact I]. apply set_state_inv_plain; auto. }
  cbn. destruct (w_echo (plan n)); destruct (w_rply (plan n)); destruct (rx_hdr (cmds c)); exact I.
Qed.

Lemma run_cb_inv w c : Inv w -> Rsat Inv (run_cb cmds plan w c).
Proof.
  intros I. destruct c as [b| |t|t|t|c|n c|n c|c|c|c|e]; cbn [run_cb].
  - apply effect_state_inv, I.
  - apply check_buffer_inv, I.
  - apply exp_start_inv, I.
  - destruct (aget EDone t (exps w)); exact I.
  - apply exp_wake_inv, I.
  - unfold writer_start. destruct (w_lat (plan (nwrites w)) <=? 0); [apply do_write_inv, I|exact I].
  - exact I.
  - apply do_write_inv, I.
  - destruct (aget CNone c (callers w)); try exact I. apply caller_start_inv, I.
  - apply caller_timer_inv, I.
  - apply caller_wake_inv, I.
  - destruct e as [k|p| | |d|k]; [exact I|apply pkt_rcvd_inv, I|apply conn_inv, I|apply conn_inv, I|exact I|apply caller_cancel_inv, I].
Qed.

Lemma boundary_cx lifo w w' : boundary lifo w = Some w' -> cx w' = cx w.
Proof.
  unfold boundary.
  destruct (match ready w with
            | [] => match min_when (timers w) None with Some t => Some (Z.max t (now w)) | None => None end
            | _ :: _ => Some (now w) end) as [n|]; [|discriminate].
  intros H. injection H as <-. reflexivity.
Qed.

Lemma step_inv lifo w w' : Inv w -> step cmds plan lifo w = Some w' -> Inv w'.
Proof.
  intros I. unfold step. destruct (batch w) as [|b].
  - intros H. eapply Inv_cx; [eapply boundary_cx, H|exact I].
  - destruct (ready w) as [|c r] eqn:Er.
    + intros H. eapply Inv_cx; [eapply boundary_cx, H|exact I].
    + pose proof (run_cb_inv (upd_loop w (now w) r b (timers w) (seq w)) c I) as H.
      destruct (run_cb cmds plan _ c) as [w2|n w2]; intros [= <-]; exact H.
Qed.

Lemma run_inv lifo fuel : forall w, Inv w -> Inv (fst (run cmds plan lifo fuel w)).
Proof.
  induction fuel as [|fuel IH]; intros w I; cbn [run]; [exact I|].
  destruct (step cmds plan lifo w) as [w'|] eqn:E; [|exact I].
  apply IH. eapply step_inv; eassumption.
Qed.

Lemma Inv_world0 evs : Inv (world0 evs).
Proof. unfold Inv, cinv. cbn. repeat split; try lia; try discriminate. Qed.

(* in every reachable world -- any events, any tie policy, any transport behaviour, any number of steps *)
Theorem reachable_inv lifo fuel evs : Inv (fst (run cmds plan lifo fuel (world0 evs))).
Proof. apply run_inv, Inv_world0. Qed.

(* a retransmission (set_state(WantEcho, timed_out=True)) is requested by the expiry task only
   while the count is below the limit; otherwise the command is given up *)
Lemma retry_only_below_limit w t old :
  aget EDone t (exps w) = EWoken old ->
  let w1 := set_mult (set_exp w t ERunning) (Nat.min MULT_CAP (S old)) in
  is_sending_ok w1 = true ->
  exp_wake w t =
  (do w <- (if Nat.ltb (txc (cx w)) (txl (cx w)) then set_state w1 WantEcho HTimedOut else set_state w1 Idle HExpired);
   do w <- assert (is_sending_ok w) 54 w; Ok (set_exp w t EDone)).
Proof. intros E w1 S. unfold exp_wake. rewrite E. fold w1. unfold assert at 1. rewrite S. reflexivity. Qed.

(* ... the limit itself is 1 + min(max_retries, MAX_RETRY_LIMIT), fixed when the command is dequeued *)
Lemma limit_formula w k w1 :
  snd (dequeue w (que (cx w))) = Some k -> w1 = fst (dequeue w (que (cx w))) ->
  txl (cx (set_cur w1 (Some k) (Some k) 0 (S (Nat.min (max_retries (cmds k)) MAX_RETRY)))) =
  S (Nat.min (max_retries (cmds k)) MAX_RETRY).
Proof. reflexivity. Qed.
End Env.

(* the back-off wait is base * 2^mult with mult <= 3, i.e. at most 8x the base *)
Lemma backoff_delay_bound w t w' :
  Inv w -> exp_start w t = Ok w' -> aget EDone t (exps w) = ENotStarted ->
  exists m, (m <= MULT_CAP)%nat /\
            timers w' = timers w ++ [(now w + (match state (cx w) with WantEcho => ECHO_TO | _ => RPLY_TO end) * 2 ^ Z.of_nat m, seq w, CbExpTimer t)].
Proof.
  intros [_ [_ M]] E N. unfold exp_start in E. rewrite N in E.
  unfold assert in E.
  destruct (is_some (cur (cx w))); cbn [bind] in E; [|discriminate].
  destruct (is_sending_ok w); cbn [bind] in E; [|discriminate].
  destruct (Nat.ltb 0 (txc (cx w))); cbn [bind] in E; [|discriminate].
  assert (E' : w' = call_at (set_exp (set_mult w (Nat.pred (mult (cx w)))) t (ESleeping (mult (cx w))))
                      (now w + (match state (cx w) with WantEcho => ECHO_TO | _ => RPLY_TO end) * 2 ^ Z.of_nat (mult (cx w))) (CbExpTimer t))
    by (symmetry; injection E; auto).
  subst w'. exists (mult (cx w)). split; [exact M|reflexivity].
Qed.

(* ---------------------------------------------------------------- witnesses (computed) *)
Definition cmd_a (mr : nat) (to : Z) (c : cid) : cmdinfo :=
  {| prio := 0; max_retries := mr; timeout := to; wfr := false; tx_hdr := 1%nat; rx_hdr := Some 2%nat; rx_null := None |}.
Definition silent (n : nat) : wplan := wplan0.
Definition slow (n : nat) : wplan := {| w_lat := 1000000; w_fail := false; w_echo := None; w_rply := None |}.

(* the back-off is the PROTOCOL's, not the command's: five single-attempt commands 10 s apart, nothing answers -- they are given up after
   0.5, 1, 2, 4 and 4 s (the wait doubles after each unanswered attempt, whichever command it belonged to, up to 8 x) *)
Lemma backoff_across_commands :
  fst (fst (simulate (cmd_a 0 20000000) silent false 5000
              [(0, ConnMade); (15625, Call 0%nat); (10015625, Call 1%nat); (20015625, Call 2%nat); (30015625, Call 3%nat); (40015625, Call 4%nat)])) =
  [Write 15625 0%nat; Done (15625 + ECHO_TO) 0%nat ErrSendFailed;
   Write 10015625 1%nat; Done (10015625 + 2 * ECHO_TO) 1%nat ErrSendFailed;
   Write 20015625 2%nat; Done (20015625 + 4 * ECHO_TO) 2%nat ErrSendFailed;
   Write 30015625 3%nat; Done (30015625 + 8 * ECHO_TO) 3%nat ErrSendFailed;
   Write 40015625 4%nat; Done (40015625 + 8 * ECHO_TO) 4%nat ErrSendFailed].
Proof. vm_compute. reflexivity. Qed.

Definition is_crash (o : obs) : bool := match o with LoopExn _ _ => true | _ => false end.
Definition write_times (c : cid) (tr : list obs) : list Z :=
  flat_map (fun o => match o with Write t c' => if Nat.eqb c c' then [t] else [] | _ => [] end) tr.
Definition done_time (c : cid) (tr : list obs) : option Z :=
  match flat_map (fun o => match o with Done t c' _ => if Nat.eqb c c' then [t] else [] | _ => [] end) tr with
  | t :: _ => Some t | [] => None end.

(* C09: the sender's own consistency check trips -- the retry timer and the caller's timeout
   expire in the same loop iteration and the retry timer's callback runs first *)
Lemma crash_reachable :
  exists evs, existsb is_crash (fst (fst (simulate (cmd_a 3 500000) silent true 5000 evs))) = true.
Proof. exists [(0, ConnMade); (15625, Call 0%nat)]. vm_compute. reflexivity. Qed.

(* C08: a frame is handed to the radio AFTER its caller was answered: the transport delays the
   write by 1 s (as the duty-cycle limiter may), max_retries = 0, echo timer 0.5 s *)
Lemma tx_after_answer_reachable :
  exists evs, let tr := fst (fst (simulate (cmd_a 0 20000000) slow false 5000 evs)) in
              match done_time 0%nat tr, write_times 0%nat tr with
              | Some td, tw :: _ => td <? tw
              | _, _ => false end = true.
Proof. exists [(0, ConnMade); (15625, Call 0%nat)]. vm_compute. reflexivity. Qed.

(* the full retry ladder when nothing answers and the caller's timeout allows it:
   exactly 1 + min(max_retries, 3) writes, waits 0.5, 1, 2 s (then 4 s until the failure) *)
Lemma retry_ladder :
  fst (fst (simulate (cmd_a 5 20000000) silent false 5000 [(0, ConnMade); (15625, Call 0%nat)])) =
  [Write 15625 0%nat; Write (15625 + ECHO_TO) 0%nat; Write (15625 + 3 * ECHO_TO) 0%nat; Write (15625 + 7 * ECHO_TO) 0%nat;
   Done (15625 + 15 * ECHO_TO) 0%nat ErrSendFailed].
Proof. vm_compute. reflexivity. Qed.

(* ---------------------------------------------------------------- C07: every call is answered *)
Section Callers.
Variable cmds : cid -> cmdinfo.

Definition has_done (c : cid) (tr : list obs) : Prop := exists t o, In (Done t c o) tr.

(* the call itself: either answered at once (not connected / buffer full) or a wake-up timer is
   armed for now + min(timeout, 20 s) and the caller is waiting *)
Lemma caller_start_deadline w c :
  exists w', caller_start cmds w c = Ok w' /\
    (has_done c (trace w') \/
     (aget CNone c (callers w') = CWaiting /\
      In (now w + Z.min (timeout (cmds c)) SEND_LIMIT, seq w, CbCallerTimer c) (timers w'))).
Proof.
  unfold caller_start.
  assert (D : forall w0, has_done c (trace (emit (set_caller w0 c CDone) (Done (now w0) c ErrSendFailed)))).
  { intros w0. exists (now w0), ErrSendFailed. cbn. apply in_or_app. right. left. reflexivity. }
  assert (G : forall l, aget CNone c (aset c CWaiting l) = CWaiting).
  { induction l as [|[k v] l IH]; cbn; [rewrite Nat.eqb_refl; reflexivity|].
    destruct (Nat.eqb c k) eqn:E; cbn; [rewrite Nat.eqb_refl; reflexivity|rewrite E; exact IH]. }
  destruct (state (cx w)) eqn:S.
  - eexists. split; [reflexivity|]. left. apply D.
  - destruct (Nat.leb BUF_SIZE (length (que (cx w)))).
    + eexists. split; [reflexivity|]. left. apply (D (set_fut w c FCancelled)).
    + eexists. split; [reflexivity|]. right. cbn. rewrite S. cbn. split; [apply G|].
      apply in_or_app. right. left. reflexivity.
  - destruct (Nat.leb BUF_SIZE (length (que (cx w)))).
    + eexists. split; [reflexivity|]. left. apply (D (set_fut w c FCancelled)).
    + eexists. split; [reflexivity|]. right. cbn. rewrite S. cbn. split; [apply G|].
      apply in_or_app. right. left. reflexivity.
  - destruct (Nat.leb BUF_SIZE (length (que (cx w)))).
    + eexists. split; [reflexivity|]. left. apply (D (set_fut w c FCancelled)).
    + eexists. split; [reflexivity|]. right. cbn. rewrite S. cbn. split; [apply G|].
      apply in_or_app. right. left. reflexivity.
Qed.

(* when that timer fires for a caller still waiting, its wake-up is pending or gets scheduled *)
Lemma caller_timer_wakes w c :
  aget CNone c (callers w) = CWaiting ->
  exists w', caller_timer w c = Ok w' /\ aget CNone c (callers w') = CTimedOut /\
             (fut_done (fut_of w c) = true \/ In (CbCallerWake c) (ready w')).
Proof.
  intros H. unfold caller_timer. rewrite H.
  assert (G : forall l, aget CNone c (aset c CTimedOut l) = CTimedOut).
  { induction l as [|[k v] l IH]; cbn; [rewrite Nat.eqb_refl; reflexivity|].
    destruct (Nat.eqb c k) eqn:E; cbn; [rewrite Nat.eqb_refl; reflexivity|rewrite E; exact IH]. }
  change (fut_of (set_caller w c CTimedOut) c) with (fut_of w c).
  destruct (fut_done (fut_of w c)) eqn:F.
  - eexists. split; [reflexivity|]. split; [apply G|left; reflexivity].
  - eexists. split; [reflexivity|]. split; [apply G|]. right. cbn. apply in_or_app. right. left. reflexivity.
Qed.

(* and the wake-up of a waiting or timed-out caller always answers it (with a result or an error) *)
Lemma caller_wake_answers w c :
  aget CNone c (callers w) = CWaiting \/ aget CNone c (callers w) = CTimedOut ->
  exists w', caller_wake w c = Ok w' /\ has_done c (trace w').
Proof.
  intros [H|H]; unfold caller_wake; rewrite H.
  - eexists. split; [reflexivity|]. eexists _, _. cbn. apply in_or_app. right. left. reflexivity.
  - destruct (match cur (cx w) with Some k => if Nat.eqb k c then set_state w Idle HExpired else Ok w | None => Ok w end) as [w1|n w1];
      eexists; (split; [reflexivity|]); eexists _, _; cbn; apply in_or_app; right; left; reflexivity.
Qed.

(* a caller cancelled from outside is answered too (with the cancellation) -- and its wake-up leaves the state machine exactly as it was:
   CancelledError is not TimeoutError, send_cmd resets nothing, so a command in flight is only ever cleared by its expiry timer *)
Lemma cancelled_caller_answered w c :
  aget CNone c (callers w) = CCancelled ->
  exists w', caller_wake w c = Ok w' /\ In (Done (now w) c ErrCancelled) (trace w') /\ cx w' = cx w.
Proof.
  intros H. unfold caller_wake. rewrite H. eexists. split; [reflexivity|]. split; [|reflexivity].
  cbn. apply in_or_app. right. left. reflexivity.
Qed.

(* an outside cancel of a waiting caller cancels its future (unless it is done already) and schedules that wake-up; the machine is untouched *)
Lemma cancel_schedules_wake w c :
  aget CNone c (callers w) = CWaiting ->
  exists w', caller_cancel w c = Ok w' /\ aget CNone c (callers w') = CCancelled /\ cx w' = cx w /\
             (fut_done (fut_of w c) = true \/ (In (CbCallerWake c) (ready w') /\ fut_of w' c = FCancelled)).
Proof.
  intros H. unfold caller_cancel. rewrite H.
  assert (G : forall l, aget CNone c (aset c CCancelled l) = CCancelled).
  { induction l as [|[k v] l IH]; cbn; [rewrite Nat.eqb_refl; reflexivity|].
    destruct (Nat.eqb c k) eqn:E; cbn; [rewrite Nat.eqb_refl; reflexivity|rewrite E; exact IH]. }
  assert (G2 : forall l, aget FPending c (aset c FCancelled l) = FCancelled).
  { induction l as [|[k v] l IH]; cbn; [rewrite Nat.eqb_refl; reflexivity|].
    destruct (Nat.eqb c k) eqn:E; cbn; [rewrite Nat.eqb_refl; reflexivity|rewrite E; exact IH]. }
  change (fut_of (set_caller w c CCancelled) c) with (fut_of w c).
  destruct (fut_done (fut_of w c)) eqn:F.
  - eexists. split; [reflexivity|]. split; [apply G|]. split; [reflexivity|left; reflexivity].
  - eexists. split; [reflexivity|]. split; [apply G|]. split; [reflexivity|]. right. split.
    + cbn. apply in_or_app. right. left. reflexivity.
    + unfold fut_of. cbn. apply G2.
Qed.
End Callers.
