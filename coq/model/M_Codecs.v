(* M_Codecs: executable model of the scalar wire codecs of ramses_tx/helpers.py and
   ramses_tx/address.py (C04).  Definitions only; proofs are in proof/P_Codecs.v.
   Hex strings are modelled at two levels: the integer the string denotes (int(s,16))
   and, through PyStr.hexN / int16, the text itself. *)
From Coq Require Import ZArith Ascii String List Bool PrimFloat.
From RV Require Import Py PyStr PyFloat.
Import ListNotations.
Open Scope Z_scope.

(* ------------------------------------------------------------------ temperatures *)
Inductive tempv := TNone | TFalse | TNum (f : float).

(* hex_to_temp, on w = int(value, 16) of a 4-char string *)
Definition hex_to_temp (w : Z) : result tempv :=
  if w =? 0x31FF then Ok TNone
  else if w =? 0x7EFF then Ok TFalse
  else if w =? 0x7FFF then Ok TNone
  else
    let t := fdiv (f_of_Z (if w <? 2 ^ 15 then w else w - 2 ^ 16)) (f_of_Z 100) in
    if fltb t (-0x1.1126666666666p+8)%float then Raise ValueError else Ok (TNum t).

(* hex_from_temp on a float: int(round(value * 100)), range check, 2's complement *)
Definition hex_from_temp_num (v : float) : result Z :=
  match round_to_Z (fmul v (f_of_Z 100)) with
  | None => Raise ValueError   (* round(nan/inf) raises ValueError/OverflowError *)
  | Some t =>
      if (- 2 ^ 15 <=? t) && (t <? 2 ^ 15)
      then Ok (if 0 <=? t then t else t + 2 ^ 16)
      else Raise ValueError
  end.

Definition hex_from_temp (v : tempv) : result Z :=
  match v with
  | TNone => Ok 0x7FFF
  | TFalse => Ok 0x7EFF
  | TNum f => hex_from_temp_num f
  end.

(* the pre-repair encoder: int(value * 100), no range check (kept to state what was wrong) *)
Definition hex_from_temp_trunc (v : float) : result Z :=
  match trunc_to_Z (fmul v (f_of_Z 100)) with
  | None => Raise ValueError
  | Some t => Ok (if 0 <=? t then t else t + 2 ^ 16)
  end.

(* ------------------------------------------------------------------ percentages *)
Definition pct_den (high_res : bool) : Z := if high_res then 200 else 100.

Definition hex_to_percent (b : Z) (high_res : bool) : result (option float) :=
  if b =? 0xEF then Ok None
  else if Z.land b 0xF0 =? 0xF0 then Ok None
  else
    let r := fdiv (f_of_Z b) (f_of_Z (pct_den high_res)) in
    if fltb 1%float r then Raise ValueError else Ok (Some r).

Definition hex_from_percent (v : option float) (high_res : bool) : result Z :=
  match v with
  | None => Ok 0xEF
  | Some f =>
      if fleb 0%float f && fleb f 1%float then
        match round_to_Z (fmul f (f_of_Z (pct_den high_res))) with
        | Some r => Ok r
        | None => Raise ValueError
        end
      else Raise ValueError
  end.

(* ------------------------------------------------------------------ doubles / counters *)
Definition hex_to_double (w factor : Z) : option float :=
  if w =? 0x7FFF then None else Some (fdiv (f_of_Z w) (f_of_Z factor)).

Definition hex_from_double (v : option float) (factor : Z) : result Z :=
  match v with
  | None => Ok 0x7FFF
  | Some f => of_option ValueError (round_to_Z (fmul f (f_of_Z factor)))
  end.

(* ------------------------------------------------------------------ booleans *)
Definition hex_to_bool (b : Z) : result (option bool) :=
  if b =? 0xFF then Ok None
  else if b =? 0x00 then Ok (Some false)
  else if b =? 0xC8 then Ok (Some true)
  else Raise KeyError.

Definition hex_from_bool (v : option bool) : Z :=
  match v with None => 0xFF | Some false => 0x00 | Some true => 0xC8 end.

(* ------------------------------------------------------------------ flag8 *)
Definition bit (b x : Z) : Z := Z.land b (Z.shiftl 1 x) / 2 ^ x.

Definition hex_to_flag8 (b : Z) (lsb : bool) : list Z :=
  let l := map (bit b) [0; 1; 2; 3; 4; 5; 6; 7] in
  if lsb then l else rev l.

Fixpoint sum_shift (l : list Z) (idx : Z) : Z :=
  match l with [] => 0 | x :: t => Z.shiftl x idx + sum_shift t (idx + 1) end.

Definition hex_from_flag8 (flags : list Z) (lsb : bool) : result Z :=
  if Nat.eqb (length flags) 8
  then Ok (sum_shift (if lsb then flags else rev flags) 0)
  else Raise ValueError.

(* ------------------------------------------------------------------ calendar *)
Definition is_leap (y : Z) : bool :=
  (y mod 4 =? 0) && (negb (y mod 100 =? 0) || (y mod 400 =? 0)).

Definition days_in_month (y m : Z) : Z :=
  if m =? 2 then (if is_leap y then 29 else 28)
  else if (m =? 4) || (m =? 6) || (m =? 9) || (m =? 11) then 30 else 31.

Record dtf := mk_dtf { yr : Z; mo : Z; dd : Z; hh : Z; mi : Z; ss : Z }.

(* datetime(year, month, day, hour, minute, second) accepts exactly these *)
Definition valid_dt (f : dtf) : bool :=
  (1 <=? yr f) && (yr f <=? 9999) && (1 <=? mo f) && (mo f <=? 12) &&
  (1 <=? dd f) && (dd f <=? days_in_month (yr f) (mo f)) &&
  (0 <=? hh f) && (hh f <? 24) && (0 <=? mi f) && (mi f <? 60) && (0 <=? ss f) && (ss f <? 60).

Definition dtf_eqb (a b : dtf) : bool :=
  (yr a =? yr b) && (mo a =? mo b) && (dd a =? dd b) && (hh a =? hh b) && (mi a =? mi b) && (ss a =? ss b).

(* ------------------------------------------------------------------ packed timestamps (0418) *)
(* hex_to_dts on v = int(value, 16) of a 12-char string; the result's year is the 7-bit
   field (strftime("%y") later prints it mod 100) *)
Definition hex_to_dts (v : Z) : result (option dtf) :=
  if v =? 0x7F then Ok None
  else
    let f := {| yr := (v / 2 ^ 24) mod 2 ^ 7; mo := (v / 2 ^ 36) mod 2 ^ 4;
                dd := (v / 2 ^ 31) mod 2 ^ 5; hh := (v / 2 ^ 19) mod 2 ^ 5;
                mi := (v / 2 ^ 13) mod 2 ^ 6; ss := (v / 2 ^ 7) mod 2 ^ 6 |} in
    if valid_dt f then Ok (Some f) else Raise ValueError.

Definition hex_from_dts (d : option dtf) : Z :=
  match d with
  | None => 0x7F
  | Some f => (yr f mod 100) * 2 ^ 24 + mo f * 2 ^ 36 + dd f * 2 ^ 31 + hh f * 2 ^ 19
              + mi f * 2 ^ 13 + ss f * 2 ^ 7
  end.

(* the text the decoder returns, "%y-%m-%dT%H:%M:%S" *)
Definition dts_text (f : dtf) : str :=
  decN 2 (yr f mod 100) ++ lit "-" ++ decN 2 (mo f) ++ lit "-" ++ decN 2 (dd f) ++ lit "T" ++
  decN 2 (hh f) ++ lit ":" ++ decN 2 (mi f) ++ lit ":" ++ decN 2 (ss f).

(* strptime("%y-%m-%dT%H:%M:%S") on canonical text; %y: 69..99 -> 19xx, 00..68 -> 20xx *)
Definition dts_parse (s : str) : option dtf :=
  match int10 (slice 0 2 s), int10 (slice 3 5 s), int10 (slice 6 8 s),
        int10 (slice 9 11 s), int10 (slice 12 14 s), int10 (slice 15 17 s) with
  | Some y, Some m, Some d, Some h, Some n, Some c =>
      Some {| yr := (if y <? 69 then 2000 + y else 1900 + y); mo := m; dd := d; hh := h; mi := n; ss := c |}
  | _, _, _, _, _, _ => None
  end.

(* ------------------------------------------------------------------ date-times (313F, 2349, 2E04...) *)
(* hex_to_dtm on v = int(value,16) of a 12- or 14-char string *)
Definition hex_to_dtm (v : Z) : result (option dtf) :=
  if v mod 2 ^ 48 =? 2 ^ 48 - 1 then Ok None
  else
    let f := {| yr := v mod 2 ^ 16; mo := (v / 2 ^ 16) mod 2 ^ 8; dd := (v / 2 ^ 24) mod 2 ^ 8;
                hh := Z.land ((v / 2 ^ 32) mod 2 ^ 8) 0x1F; mi := (v / 2 ^ 40) mod 2 ^ 8;
                ss := Z.land ((v / 2 ^ 48) mod 2 ^ 8) 0x7F |} in
    if valid_dt f then Ok (Some f) else Raise ValueError.

(* hex_from_dtm: the integer of the 14-char (incl_seconds) or 12-char string *)
Definition hex_from_dtm (d : option dtf) (is_dst incl_seconds : bool) : Z :=
  match d with
  | None => if incl_seconds then 2 ^ 56 - 1 else 2 ^ 48 - 1
  | Some f =>
      let low := mi f * 2 ^ 40 + hh f * 2 ^ 32 + dd f * 2 ^ 24 + mo f * 2 ^ 16 + yr f in
      if incl_seconds then (if is_dst then Z.lor (ss f) 0x80 else ss f) * 2 ^ 48 + low else low
  end.

Definition dtm_text (f : dtf) : str :=
  decN 4 (yr f) ++ lit "-" ++ decN 2 (mo f) ++ lit "-" ++ decN 2 (dd f) ++ lit "T" ++
  decN 2 (hh f) ++ lit ":" ++ decN 2 (mi f) ++ lit ":" ++ decN 2 (ss f).

(* hex_to_date: 8 chars, day & 0x1F, month, year *)
Definition hex_to_date (v : Z) : result (option dtf) :=
  if v =? 2 ^ 32 - 1 then Ok None
  else
    let f := {| yr := v mod 2 ^ 16; mo := (v / 2 ^ 16) mod 2 ^ 8;
                dd := Z.land ((v / 2 ^ 24) mod 2 ^ 8) 0x1F; hh := 0; mi := 0; ss := 0 |} in
    if valid_dt f then Ok (Some f) else Raise ValueError.

(* ------------------------------------------------------------------ device ids *)
(* hex_id_to_dev_id / Address.convert_from_hex, on h = int(device_hex, 16):
   (type, number);  dev_id_to_hex_id / convert_to_hex on (type, number) *)
Definition hex_id_to_dev_id (h : Z) : Z * Z :=
  (Z.land h 0xFC0000 / 2 ^ 18, Z.land h 0x03FFFF).

Definition dev_id_to_hex_id (tn : Z * Z) : Z := fst tn * 2 ^ 18 + snd tn.

(* text forms: "tt:nnnnnn" and the 6-char hex *)
Definition dev_id_text (tn : Z * Z) : str := decN 2 (fst tn) ++ lit ":" ++ decN 6 (snd tn).
Definition dev_id_parse (s : str) : option (Z * Z) :=
  match int10 (slice 0 2 s), int10 (slice 3 9 s) with
  | Some t, Some n => Some (t, n)
  | _, _ => None
  end.

Definition blank6 : str := lit "      ".
Definition non_dev_id : str := lit "--:------".

(* hex_id_to_dev_id on text (friendly_id=False) *)
Definition hex_id_to_dev_id_s (hx : str) : result str :=
  if str_eqb hx blank6 then Ok non_dev_id
  else match int16 hx with
       | Some h => Ok (dev_id_text (hex_id_to_dev_id h))
       | None => Raise ValueError
       end.

(* dev_id_to_hex_id on a 9-char text id *)
Definition dev_id_to_hex_id_s (id : str) : result str :=
  if negb (Nat.eqb (length id) 9) then Raise ValueError
  else match dev_id_parse id with
       | Some tn => Ok (hexN 6 (dev_id_to_hex_id tn))
       | None => Raise ValueError
       end.

(* ------------------------------------------------------------------ text *)
Definition printable (c : ascii) : bool :=
  let n := nat_of_ascii c in (Nat.ltb 31 n) && (Nat.ltb n 127).

Definition hex_from_str (s : str) : str :=
  flat_map (fun c => hexN 2 (Z.of_nat (nat_of_ascii c))) s.

(* bytes.fromhex: pairs of hex digits -> bytes; None on an odd tail or a non-hex char *)
Fixpoint fromhex (fuel : nat) (s : str) : option (list Z) :=
  match fuel, s with
  | _, [] => Some []
  | S fuel', a :: b :: t =>
      match hexval a, hexval b, fromhex fuel' t with
      | Some x, Some y, Some r => Some (16 * x + y :: r)
      | _, _, _ => None
      end
  | _, _ => None
  end.

Definition is_space (c : ascii) : bool :=
  let n := nat_of_ascii c in
  Nat.eqb n 32 || (Nat.leb 9 n && Nat.leb n 13) || (Nat.leb 28 n && Nat.leb n 31).
Fixpoint lstrip (s : str) : str :=
  match s with c :: t => if is_space c then lstrip t else s | [] => [] end.
Definition strip (s : str) : str := rev (lstrip (rev (lstrip s))).

Definition hex_to_str (hx : str) : result str :=
  match fromhex (length hx) hx with
  | None => Raise ValueError
  | Some bytes =>
      Ok (strip (filter printable (map (fun z => ascii_of_nat (Z.to_nat z)) bytes)))
  end.

(* ------------------------------------------------------------------ schedule setpoints *)
(* schedule._struct_pack: int(round(setpoint * 100)) ; _struct_unpack: val / 100 *)
Definition sched_pack_setpoint (v : float) : option Z := round_to_Z (fmul v (f_of_Z 100)).
Definition sched_unpack_setpoint (w : Z) : float := fdiv (f_of_Z w) (f_of_Z 100).
