(* P_QosAlive -- "the send machinery never wedges", for every run in which no internal assertion trips: while the state machine is waiting for an
   echo or a reply, something is always on its way that will move it on -- a deferred effect_state, or the expiry task of the current wait (about
   to start, sleeping with its timer armed, or woken).  So a run that has come to rest (nothing ready, no timer armed) is not waiting. *)
From Coq Require Import ZArith List Bool Arith Lia.
From RV Require Import GenConsts M_Qos P_Qos P_QosOwner.
Import ListNotations.
Open Scope Z_scope.

(* the expiry task t is alive, given the callbacks L about to run *)
Definition live (L : list cb) (w : world) (t : nat) : Prop :=
  match aget EDone t (exps w) with
  | ENotStarted => In (CbExpStart t) L
  | ESleeping _ => In (CbExpTimer t) L \/ exists wh s, In (wh, s, CbExpTimer t) (timers w)
  | EWoken _ => In (CbExpWake t) L
  | _ => False
  end.
Definition HasEffL (L : list cb) : Prop := exists b, In (CbEffect b) L.
Definition Pend (L : list cb) (w : world) : Prop := HasEffL L \/ exists t, expiry (cx w) = Some t /\ live L w t.
Definition AliveL (L : list cb) (w : world) : Prop := sending_state (state (cx w)) = true -> Pend L w.
Definition Alive (w : world) : Prop := AliveL (ready w) w.
Definition HasEff (w : world) : Prop := HasEffL (ready w).

Lemma HasEff_Alive w : HasEff w -> Alive w.
Proof. intros H _. left. exact H. Qed.

(* a step that leaves the wait, its expiry task and everything pending where they were *)
Definition keep (w w' : world) : Prop :=
  state (cx w') = state (cx w) /\ expiry (cx w') = expiry (cx w) /\ exps w' = exps w /\
  (forall x, In x (ready w) -> In x (ready w')) /\
  (forall wh s t, In (wh, s, CbExpTimer t) (timers w) -> In (wh, s, CbExpTimer t) (timers w')).
Definition post (w w' : world) : Prop := HasEff w' \/ keep w w'.

Lemma keep_refl w : keep w w.
Proof. repeat split; auto. Qed.
Lemma keep_trans a b c : keep a b -> keep b c -> keep a c.
Proof.
  intros (A1 & A2 & A3 & A4 & A5) (B1 & B2 & B3 & B4 & B5). repeat split; try congruence; auto.
Qed.
Lemma post_refl w : post w w.
Proof. right. apply keep_refl. Qed.
Lemma post_keep w w' : keep w w' -> post w w'.
Proof. intros H. right. exact H. Qed.
Lemma post_trans a b c : post a b -> post b c -> post a c.
Proof.
  intros [H1|K1] [H2|K2].
  - left. exact H2.
  - left. destruct H1 as [x Hx]. destruct K2 as (_ & _ & _ & R & _). exists x. apply R, Hx.
  - left. exact H2.
  - right. eapply keep_trans; eassumption.
Qed.

Lemma RsatOk_bind (P Q : world -> Prop) r f : RsatOk P r -> (forall w1, P w1 -> RsatOk Q (f w1)) -> RsatOk Q (bind r f).
Proof. destruct r as [w1|n w1]; cbn; [intros H F; apply F, H|intros _ _; exact I]. Qed.
Lemma RsatOk_post_trans a b r : post a b -> RsatOk (post b) r -> RsatOk (post a) r.
Proof. destruct r; cbn; [apply post_trans|intros _ _; exact I]. Qed.
Lemma RsatOk_post_bind w r f : RsatOk (post w) r -> (forall w1, RsatOk (post w1) (f w1)) -> RsatOk (post w) (bind r f).
Proof. intros H F. eapply RsatOk_bind; [exact H|]. intros w1 P1. eapply RsatOk_post_trans; [exact P1|apply F]. Qed.
Lemma RsatOk_post_assert b n w : RsatOk (post w) (assert b n w).
Proof. unfold assert. destruct b; cbn; [apply post_refl|exact I]. Qed.
Lemma RsatOk_post_assert_bind b n w f : (forall w1, RsatOk (post w1) (f w1)) -> RsatOk (post w) (bind (assert b n w) f).
Proof. intros F. apply RsatOk_post_bind; [apply RsatOk_post_assert|exact F]. Qed.

Ltac keep_tac := unfold keep; cbn; repeat split; try reflexivity; intros; try (apply in_or_app; left); assumption.

(* ---------------------------------------------------------------- set_state always leaves a deferred effect_state behind *)
Lemma switch_eff w ns h : RsatOk HasEff (switch w ns h).
Proof.
  unfold switch.
  assert (Fin : forall w2 : world, RsatOk HasEff (bind (assert (is_sending_ok w2) 13 w2) (fun w3 => Ok (call_soon w3 (CbEffect (is_timed_out h)))))).
  { intros w2. unfold assert. destruct (is_sending_ok w2); cbn; [|exact I]. exists (is_timed_out h). apply in_or_app. right. left. reflexivity. }
  destruct (is_timed_out h).
  - cbn [bind]. apply Fin.
  - destruct ns; cbn [bind]; try apply Fin.
    unfold assert at 1. destruct (is_some (cur (cx w))); cbn [bind RsatOk]; [apply Fin|exact I].
Qed.
Lemma set_state_eff w ns h : RsatOk HasEff (set_state w ns h).
Proof. unfold set_state. destruct (settle w h) as [w1|n w1]; cbn [bind]; [apply switch_eff|exact I]. Qed.
Lemma set_state_post w0 w ns h : RsatOk (post w0) (set_state w ns h).
Proof. eapply RsatOk_weaken; [|apply set_state_eff]. intros w1 H. left. exact H. Qed.
