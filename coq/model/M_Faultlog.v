(* M_Faultlog: FaultLog._insert_into_map / _process_msg / handle_msg of
   ramses_rf/system/faultlog.py (C19).  The OrderedDict idx -> timestamp is an association
   list in insertion order with dict-update semantics; timestamps are integers (the code
   compares the strings "yy-mm-ddThh:mm:ss"; within one century that is the same order). *)
From Coq Require Import ZArith List Bool.
From RV Require Import GenConsts.
Import ListNotations.
Open Scope Z_scope.

Definition fmap := list (Z * Z).

Fixpoint upd (m : fmap) (k v : Z) : fmap :=
  match m with
  | [] => [(k, v)]
  | (k', v') :: t => if k =? k' then (k, v) :: t else (k', v') :: upd t k v
  end.

Definition update_all (m : fmap) (kvs : list (Z * Z)) : fmap :=
  fold_left (fun m kv => upd m (fst kv) (snd kv)) kvs m.

Fixpoint get (m : fmap) (k : Z) : option Z :=
  match m with [] => None | (k', v) :: t => if k =? k' then Some v else get t k end.

Fixpoint list_min (d : Z) (l : list Z) : Z :=
  match l with [] => d | x :: t => list_min (Z.min d x) t end.

Definition MAXIDX : Z := FAULTLOG_MAX_LOG_IDX.   (* regenerated from the source *)
(* the property: the controller's log is 64 deep, slots 00..3F -- NOT taken from the source *)
Definition LOG_DEPTH : Z := 64.

Definition insert_into_map (m : fmap) (idx : Z) (dtm : option Z) : fmap :=
  let part1 := filter (fun kv => (fst kv <? idx) &&
                                 (match dtm with None => true | Some d => d <? snd kv end)) m in
  match dtm with
  | None => part1
  | Some d =>
      let nm := upd part1 idx d in
      match map fst (filter (fun kv => snd kv <? d) m) with
      | [] => nm
      | i0 :: idxs =>
          let next_idx := list_min i0 idxs in
          let diff := if idx <? next_idx then 0 else if next_idx =? idx then 1 else idx + 1 in
          update_all nm
            (map (fun kv => (fst kv + diff, snd kv))
                 (filter (fun kv => ((idx <=? fst kv) || (snd kv <? d)) && (fst kv + diff <=? MAXIDX)) m))
      end
  end.

Record fstate := { fl_map : fmap; fl_log : list Z }.   (* _map, keys of _log *)
Definition finit : fstate := {| fl_map := []; fl_log := [] |}.

Definition memz (x : Z) (l : list Z) : bool := existsb (Z.eqb x) l.
Definition prune (m : fmap) (log : list Z) : list Z := filter (fun k => memz k (map snd m)) log.

(* a processable 0418 message: index and entry timestamp (None = null entry) *)
Inductive fmsg := FEntry (idx dtm : Z) | FNull (idx : Z).

Definition process_msg (s : fstate) (e : fmsg) : fstate :=
  match e with
  | FNull idx =>
      let m := insert_into_map (fl_map s) idx None in
      {| fl_map := m; fl_log := prune m (fl_log s) |}
  | FEntry idx dtm =>
      match get (fl_map s) idx with
      | Some v => if v =? dtm then s else
          let log := if memz dtm (fl_log s) then fl_log s else fl_log s ++ [dtm] in
          let m := insert_into_map (fl_map s) idx (Some dtm) in
          {| fl_map := m; fl_log := prune m log |}
      | None =>
          let log := if memz dtm (fl_log s) then fl_log s else fl_log s ++ [dtm] in
          let m := insert_into_map (fl_map s) idx (Some dtm) in
          {| fl_map := m; fl_log := prune m log |}
      end
  end.

Definition run (evs : list fmsg) (s : fstate) : fstate := fold_left process_msg evs s.

(* the faultlog view: {idx: _log[dtm]} -- None models the KeyError *)
Definition view (s : fstate) : option (list (Z * Z)) :=
  if forallb (fun kv => memz (snd kv) (fl_log s)) (fl_map s) then Some (fl_map s) else None.

(* ---- a controller: its log, newest first ---- *)
Definition ctl_new (log : list Z) (d : Z) : list Z := d :: log.
Definition rp (log : list Z) (i : nat) : fmsg :=
  match nth_error log i with Some d => FEntry (Z.of_nat i) d | None => FNull (Z.of_nat i) end.

(* entries appear at most once / newest first, on the view sorted by index *)
Fixpoint nodupb (l : list Z) : bool :=
  match l with [] => true | x :: t => negb (memz x t) && nodupb t end.
Definition no_dup_values (m : fmap) : bool := nodupb (map snd m).
Definition newest_first (m : fmap) : bool :=
  forallb (fun a => forallb (fun b => negb (fst a <? fst b) || (snd b <? snd a)) m) m.

(* ---- controller and view driven together (controller-consistent histories) ---- *)
Inductive cop := CNew (delivered : bool) | CRead (i : nat).

Definition cstep (st : list Z * fstate) (o : cop) : list Z * fstate :=
  let '(log, s) := st in
  match o with
  | CNew delivered =>
      let d := Z.of_nat (length log) + 1 in
      (d :: log, if delivered then process_msg s (FEntry 0 d) else s)
  | CRead i => (log, process_msg s (rp log i))
  end.
Definition crun (ops : list cop) : list Z * fstate := fold_left cstep ops ([], finit).

Definition opt_eqb (a b : option Z) : bool :=
  match a, b with Some x, Some y => x =? y | None, None => true | _, _ => false end.
(* every shown entry sits where the controller has it *)
Definition belief_correct (st : list Z * fstate) : bool :=
  forallb (fun kv => opt_eqb (nth_error (fst st) (Z.to_nat (fst kv))) (Some (snd kv))) (fl_map (snd st)).

(* ---- FaultLog.get_faultlog(start, limit): the slots it asks the controller for, in order -- range(start, min(start + limit, 64)), the loop
   left after the first null reply (a slot at or beyond the length of the controller's log) ---- *)
Fixpoint asks (log_len from n : nat) : list nat :=
  match n with
  | O => []
  | S n' => from :: (if Nat.ltb from log_len then asks log_len (S from) n' else [])
  end.
Definition get_faultlog_asks (log_len start limit : nat) : list nat :=
  asks log_len start (Nat.min (start + limit) 64 - start).
