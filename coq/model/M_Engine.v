(* M_Engine -- the engine's pause/resume automaton (ramses_tx/gateway.py Engine._pause/_resume,
   ramses_rf/gateway.py Gateway._pause/_resume, get_state, _restore_cached_packets).
   Definitions only; proofs are in proof/P_Engine.v. *)
From Coq Require Import List Bool Arith.
Import ListNotations.

(* what decides whether the gateway "runs as before": the protocol's message handler, the sending and
   discovery switches, the protocol's writing flag, the transport's reading flag (a transport that is told to
   pause stops taking packets from its source until it is told to resume), and the tuple that _pause() saved *)
Record eng := mkEng {
  handler : option nat;                       (* protocol._msg_handler; None = packets are dropped *)
  sending_off : bool;                         (* engine._disable_sending *)
  disc_off : bool;                            (* config.disable_discovery *)
  wr_paused : bool;                           (* protocol._pause_writing *)
  saved : option (option nat * bool * bool);  (* engine._engine_state; None = running *)
  has_tr : bool;                              (* engine._transport is not None (None until start()) *)
  rd_paused : bool                            (* not transport._reading *)
}.

Inductive outcome := Done | BodyRaised | RuntimeErr | Handled (h : nat) | Dropped.

(* Gateway._pause + Engine._pause: refuse when already paused (every flag as it was), else save and switch off *)
Definition pause (e : eng) : eng * bool :=
  match saved e with
  | Some _ => (e, false)
  | None => (mkEng None true true true (Some (handler e, sending_off e, disc_off e)) (has_tr e) (if has_tr e then true else rd_paused e), true)
  end.

(* Gateway._resume + Engine._resume: refuse when not paused, else restore; writing is resumed only when
   sending is enabled, reading whenever there is a transport *)
Definition resume (e : eng) : eng * bool :=
  match saved e with
  | None => (e, false)
  | Some (h, s, d) => (mkEng h s d (if s then wr_paused e else false) None (has_tr e) (if has_tr e then false else rd_paused e), true)
  end.

(* `guarded` = the body runs inside try/finally (the tree as it is now); without it an exception in the
   body skips _resume() (the tree before 5e7f144).  The body itself does not touch the engine. *)
Definition bracket (guarded : bool) (e : eng) (body_raises : bool) : eng * outcome :=
  let '(e1, ok) := pause e in
  if negb ok then (e1, RuntimeErr)
  else if body_raises then ((if guarded then fst (resume e1) else e1), BodyRaised)
  else (fst (resume e1), Done).

Inductive op :=
  | GetState (body_raises : bool)     (* Gateway.get_state(); the body is _get_state() *)
  | Restore (body_raises : bool)      (* Gateway._restore_cached_packets(); the body is the temporary protocol/transport *)
  | Pause | Resume                    (* a client pausing/resuming the engine itself *)
  | Rx.                               (* the next packet of the transport's source *)

Definition step (guarded : bool) (e : eng) (o : op) : eng * outcome :=
  match o with
  | GetState b | Restore b => bracket guarded e b
  | Pause => let '(e1, ok) := pause e in (e1, if ok then Done else RuntimeErr)
  | Resume => let '(e1, ok) := resume e in (e1, if ok then Done else RuntimeErr)
  | Rx => (e, if has_tr e && rd_paused e then Dropped       (* not taken from the source while reading is paused *)
              else match handler e with Some h => Handled h | None => Dropped end)
  end.

Fixpoint run (guarded : bool) (e : eng) (ops : list op) : eng * list outcome :=
  match ops with
  | [] => (e, [])
  | o :: rest => let '(e1, x) := step guarded e o in let '(e2, xs) := run guarded e1 rest in (e2, x :: xs)
  end.

(* a gateway that is up: not paused, the writing flag agrees with the sending switch (a read-only
   protocol is created with writing paused; a writeable one with writing enabled), and the transport reads *)
Definition up (e : eng) : Prop := saved e = None /\ wr_paused e = sending_off e /\ rd_paused e = false.

Definition snapshot_op (o : op) : bool := match o with GetState _ | Restore _ => true | _ => false end.
