(* M_Transfer: Schedule._get_schedule / set_schedule as lock-holding transfers with faults at any
   await (ramses_rf/system/schedule.py, system/heat.py _obtain_lock/_release_lock) -- C18.
   [fixed = false] is _get_schedule before the repair (no try/finally). *)
From Coq Require Import List Bool Arith.
Import ListNotations.

(* what happens at one await of a transfer *)
Inductive fault := Proceed | Raises (* e.g. ProtocolSendFailed *) | Cancelled (* the caller's timeout *).
Inductive outcome := Completed | Failed | Abandoned | LockTimeout.

(* the TCS-wide lock: None = free, Some z = held by zone z *)
Definition lockst := option nat.

(* _obtain_lock: free or already ours -> ours; held by another zone -> spin 3 min, TimeoutError *)
Definition obtain (l : lockst) (z : nat) : option lockst :=
  match l with
  | None => Some (Some z)
  | Some z' => if Nat.eqb z z' then Some (Some z) else None
  end.

(* run the awaits of the body until one faults *)
Fixpoint body (faults : list fault) : outcome :=
  match faults with
  | [] => Completed
  | Proceed :: t => body t
  | Raises :: _ => Failed
  | Cancelled :: _ => Abandoned
  end.

(* one transfer of zone z whose body has the given awaits (version query, fragment exchanges...) *)
Definition transfer (fixed : bool) (l : lockst) (z : nat) (faults : list fault) : lockst * outcome :=
  match obtain l z with
  | None => (l, LockTimeout)
  | Some l1 =>
      match body faults with
      | Completed => (None, Completed)                       (* _release_lock() at the end *)
      | o => (if fixed then None else l1, o)                 (* finally: _release_lock()  /  (before) nothing *)
      end
  end.

(* a history of transfers (zone, faults) *)
Fixpoint transfers (fixed : bool) (l : lockst) (hist : list (nat * list fault)) : lockst * list outcome :=
  match hist with
  | [] => (l, [])
  | (z, fs) :: t => let '(l1, o) := transfer fixed l z fs in
                    let '(l2, os) := transfers fixed l1 t in (l2, o :: os)
  end.

(* ---- version consistency of what is assembled (fragments tagged with the version they belong to) ---- *)
(* the integrity idealisation: a full set decodes iff all its fragments belong to one version *)
Definition single_version (vs : list nat) : option nat :=
  match vs with
  | [] => None
  | v :: t => if forallb (Nat.eqb v) t then Some v else None
  end.

(* the payload set: slot k holds the version of the fragment stored there *)
Definition vset := list (option nat).
Fixpoint set_slot (n : nat) (x : option nat) (l : vset) : vset :=
  match n, l with
  | O, _ :: t => x :: t
  | S n', a :: t => a :: set_slot n' x t
  | _, [] => []
  end.
Definition vfull (ps : vset) : bool := forallb (fun o => match o with Some _ => true | None => false end) ps.
Definition versions (ps : vset) : list nat := flat_map (fun o => match o with Some v => [v] | None => [] end) ps.
Definition vinit (total k v : nat) : vset := set_slot k (Some v) (repeat None total).

(* _update_payload_set on a fragment (slot k, of total, belonging to version v): another total
   starts a new set; a complete set is decoded at once (also a new one-fragment set) *)
Definition vupdate (ps : vset) (total k v : nat) : vset * option nat :=
  let ps1 := if Nat.eqb total (length ps) then set_slot k (Some v) ps else vinit total k v in
  if negb (vfull ps1) then (ps1, None)
  else match single_version (versions ps1) with
       | Some w => (ps1, Some w)
       | None => (vinit total k v, None)      (* zlib.error: start over with this fragment *)
       end.

Fixpoint vfeed (ps : vset) (last : option nat) (frs : list (nat * nat * nat)) : vset * option nat :=
  match frs with
  | [] => (ps, last)
  | (total, k, v) :: t => let '(ps', r) := vupdate ps total k v in
                          vfeed ps' (match r with Some w => Some w | None => last end) t
  end.

(* ---- the fetch loop of _get_schedule against a controller that holds version v in [total]
   fragments throughout: forget slot 0, then request the first missing fragment until a
   schedule is assembled.  Stuck = no slot is missing and no schedule (StopIteration). ---- *)
Fixpoint first_none (ps : vset) : option nat :=
  match ps with
  | [] => None
  | None :: _ => Some 0
  | Some _ :: t => match first_none t with Some k => Some (S k) | None => None end
  end.

Inductive fres := Got (w exchanges : nat) | Stuck | OutOfFuel.

Fixpoint fetch_loop (fuel : nat) (ps : vset) (total v n : nat) : fres :=
  match fuel with
  | O => OutOfFuel
  | S f =>
      match first_none ps with
      | None => Stuck
      | Some k => let '(ps', r) := vupdate ps total k v in
                  match r with Some w => Got w (S n) | None => fetch_loop f ps' total v (S n) end
      end
  end.

Definition fetch (ps : vset) (total v : nat) : fres :=
  fetch_loop (2 * total) (set_slot 0 None ps) total v 0.

(* ---- what reaches a zone's Schedule through the dispatcher (Schedule._handle_msg): a fragment of some version, or a 0404 payload that carries
   none -- the controller's acknowledgement of a schedule WRITE (this gateway's or another's, overheard).  Only fragments are stored, and not
   while this zone itself holds the lock (its own transfer processes its replies itself). ---- *)
Inductive heard := HFrag (total k v : nat) | HAck (total k : nat).
Definition hear (st : vset * option nat) (e : bool (* the lock is this zone's *) * heard) : vset * option nat :=
  let '(ps, last) := st in
  match e with
  | (false, HFrag total k v) => let '(ps', r) := vupdate ps total k v in (ps', match r with Some w => Some w | None => last end)
  | _ => (ps, last)
  end.
Definition hear_all (st : vset * option nat) (es : list (bool * heard)) : vset * option nat := fold_left hear es st.
Definition is_frag (e : bool * heard) : bool := match e with (false, HFrag _ _ _) => true | _ => false end.
Definition frag_of (e : bool * heard) : list (nat * nat * nat) := match e with (false, HFrag t k v) => [(t, k, v)] | _ => [] end.
