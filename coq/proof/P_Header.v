From Coq Require Import ZArith String Ascii List Bool Lia.
From RV Require Import Py PyStr GenTables M_Header.
Import ListNotations.
Open Scope Z_scope.

Lemma addr_eqb_eq a b : addr_eqb a b = true <-> a = b.
Proof.
  destruct a as [a1 a2], b as [b1 b2]; unfold addr_eqb; cbn. split.
  - intros H. apply andb_prop in H as [H1 H2]. apply Z.eqb_eq in H1, H2. congruence.
  - intros H. injection H as -> ->. rewrite !Z.eqb_refl. reflexivity.
Qed.
Lemma addr_eqb_sym a b : addr_eqb a b = addr_eqb b a.
Proof. unfold addr_eqb. rewrite (Z.eqb_sym (fst a)), (Z.eqb_sym (snd a)). reflexivity. Qed.
Lemma verb_eqb_eq a b : verb_eqb a b = true <-> a = b.
Proof. destruct a, b; cbn; split; intros H; try discriminate; reflexivity. Qed.

Lemma hok_inv a b c d a' b' c' d' : HOk (mkHdr a b c d) = HOk (mkHdr a' b' c' d') -> a = a' /\ b = b' /\ c = c' /\ d = d'.
Proof. intros H. inversion H. auto. Qed.

(* ---- everything a header needs to know of the addresses ---- *)
Definition same_addr_features (f g : frame) : Prop :=
  fst (f_src f) = fst (f_src g) /\ fst (f_dst f) = fst (f_dst g) /\
  addr_eqb (f_src f) (f_dst f) = addr_eqb (f_src g) (f_dst g) /\
  addr_eqb (f_dst f) NON_DEV = addr_eqb (f_dst g) NON_DEV.

Lemma has_array_congr f g : f_verb f = f_verb g -> f_code f = f_code g -> f_payload f = f_payload g ->
  same_addr_features f g -> has_array f = has_array g.
Proof.
  intros Hv Hc Hp (H1 & H2 & H3 & H4). unfold has_array, f_len.
  rewrite (addr_eqb_sym (f_dst f) (f_src f)), (addr_eqb_sym (f_dst g) (f_src g)).
  rewrite Hv, Hc, Hp, H1, H3, H4. reflexivity.
Qed.
Lemma has_ctl_congr f g : f_code f = f_code g -> f_payload f = f_payload g -> same_addr_features f g -> has_ctl f = has_ctl g.
Proof.
  intros Hc Hp (H1 & H2 & H3 & H4). unfold has_ctl.
  rewrite (addr_eqb_sym (f_dst f) (f_src f)), (addr_eqb_sym (f_dst g) (f_src g)).
  rewrite Hc, Hp, H1, H2, H3, H4. reflexivity.
Qed.
Lemma pkt_idx_congr f g : f_verb f = f_verb g -> f_code f = f_code g -> f_payload f = f_payload g ->
  same_addr_features f g -> pkt_idx f = pkt_idx g.
Proof.
  intros Hv Hc Hp Hs. unfold pkt_idx, p2.
  rewrite (has_array_congr f g Hv Hc Hp Hs), (has_ctl_congr f g Hc Hp Hs).
  destruct Hs as (H1 & _). rewrite Hv, Hc, Hp, H1. reflexivity.
Qed.
Lemma ctx_congr f g : f_verb f = f_verb g -> f_code f = f_code g -> f_payload f = f_payload g ->
  same_addr_features f g -> ctx f = ctx g.
Proof. intros Hv Hc Hp Hs. unfold ctx. rewrite (pkt_idx_congr f g Hv Hc Hp Hs), Hc, Hp. reflexivity. Qed.

(* ---- the echo: the gateway substitutes its real id for the placeholder (same device type) ---- *)
Theorem echo_recognised : forall f gw, (f_verb f = VRQ \/ f_verb f = VW) ->
  f_src f <> f_dst f -> gw <> f_dst f -> fst gw = fst (f_src f) ->
  header (echo_of f gw) = header f /\ (f_code f <> C_1FC9 -> rx_header (echo_of f gw) = rx_header f).
Proof.
  intros f gw Hv Hne Hgw Ht.
  assert (E1 : addr_eqb (f_src f) (f_dst f) = false) by (destruct (addr_eqb (f_src f) (f_dst f)) eqn:E; [apply addr_eqb_eq in E; contradiction | reflexivity]).
  assert (E2 : addr_eqb gw (f_dst f) = false) by (destruct (addr_eqb gw (f_dst f)) eqn:E; [apply addr_eqb_eq in E; contradiction | reflexivity]).
  assert (Hs : same_addr_features (echo_of f gw) f) by (unfold same_addr_features, echo_of; cbn; rewrite E1, E2; auto).
  assert (Hc : ctx (echo_of f gw) = ctx f) by (apply ctx_congr; try reflexivity; exact Hs).
  unfold header, rx_header, with_ctx. rewrite Hc. unfold echo_of; cbn [f_code f_verb f_src f_dst]. rewrite E1, E2.
  split; [destruct Hv as [-> | ->]; cbn; reflexivity|].
  intros H9. apply Z.eqb_neq in H9. rewrite H9. destruct Hv as [-> | ->]; cbn; reflexivity.
Qed.

(* ---- nothing else is taken for the reply: whatever is recognised as the reply to f has f's code, the reply verb,
        comes from the addressed device and carries f's context ---- *)
Theorem only_the_reply_matches : forall f g h, f_code f <> C_1FC9 ->
  rx_header f = HOk h -> header g = HOk h ->
  f_code g = f_code f /\ h_verb h = reply_verb (f_verb f) /\ f_verb g = reply_verb (f_verb f) /\
  h_dev h = f_dst f /\
  (match ctx g, ctx f with CStr a, CStr b => a = b | CNo, CNo => True | _, _ => False end).
Proof.
  intros f g h Hc Hr Hg. unfold rx_header in Hr. apply Z.eqb_neq in Hc. rewrite Hc in Hr.
  destruct (verb_eqb (f_verb f) VI || verb_eqb (f_verb f) VRP || addr_eqb (f_src f) (f_dst f)) eqn:E; [discriminate|].
  apply orb_false_iff in E as [E E3]. apply orb_false_iff in E as [E1 E2].
  assert (Hrv : (if verb_eqb (f_verb f) VRQ then VRP else VI) = reply_verb (f_verb f)) by (destruct (f_verb f); cbn in *; try discriminate; reflexivity).
  rewrite Hrv in Hr. unfold with_ctx in Hr.
  unfold header in Hg.
  destruct (f_code g =? C_1FC9) eqn:Eg.
  - (* a 1FC9 packet has code 1FC9 in its header *)
    apply Z.eqb_eq in Eg. apply Z.eqb_neq in Hc.
    destruct (ctx f); try discriminate; injection Hr as <-; injection Hg as Hcode; cbn in Hcode; congruence.
  - assert (Hw : exists v d, with_ctx g v d = HOk h /\ v = f_verb g /\
                   (d = f_src g \/ d = f_dst g)).
    { destruct (verb_eqb (f_verb g) VI || verb_eqb (f_verb g) VRP || addr_eqb (f_src g) (f_dst g)); eauto 6. }
    destruct Hw as (v & d & Hw & -> & Hd). unfold with_ctx in Hw.
    destruct (ctx f) as [a| |] eqn:Ef; try discriminate; destruct (ctx g) as [b| |] eqn:Eg2; try discriminate;
      injection Hr as <-; apply hok_inv in Hw as (H1 & H2 & H3 & H4); cbn [h_verb h_dev];
      repeat split; auto; try congruence.
Qed.

(* ... and nothing else is taken for the echo *)
Theorem only_the_echo_matches : forall f g h, f_code f <> C_1FC9 -> f_code g <> C_1FC9 ->
  header f = HOk h -> header g = HOk h ->
  f_code g = f_code f /\ f_verb g = f_verb f /\
  (match ctx g, ctx f with CStr a, CStr b => a = b | CNo, CNo => True | _, _ => False end).
Proof.
  intros f g h Hc Hc' Hf Hg. unfold header in *. apply Z.eqb_neq in Hc, Hc'. rewrite Hc in Hf. rewrite Hc' in Hg.
  assert (Hwf : exists d, with_ctx f (f_verb f) d = HOk h) by (destruct (verb_eqb (f_verb f) VI || verb_eqb (f_verb f) VRP || addr_eqb (f_src f) (f_dst f)); eauto).
  assert (Hwg : exists d, with_ctx g (f_verb g) d = HOk h) by (destruct (verb_eqb (f_verb g) VI || verb_eqb (f_verb g) VRP || addr_eqb (f_src g) (f_dst g)); eauto).
  destruct Hwf as (d1 & H1). destruct Hwg as (d2 & H2). unfold with_ctx in *.
  destruct (ctx f) as [a| |]; try discriminate; destruct (ctx g) as [b| |]; try discriminate;
    injection H1 as <-; apply hok_inv in H2 as (E1 & E2 & E3 & E4); repeat split; auto; congruence.
Qed.

(* ---- the reply ---- *)
(* the positions of a payload that carry the context, per code: a proper reply repeats them *)
Definition agree (c : Z) (p p' : str) : Prop :=
  if (c =? C_0005) || (c =? C_000C) then slice 0 4 p = slice 0 4 p'
  else if c =? C_0404 then slice 0 2 p = slice 0 2 p' /\ slice 2 4 p = slice 2 4 p' /\ slice 10 12 p = slice 10 12 p'
  else if (c =? C_0418) || (c =? C_3220) then slice 4 6 p = slice 4 6 p'
  else slice 0 1 p = slice 0 1 p' /\ slice 0 2 p = slice 0 2 p'.

Record request (f : frame) (gw : addr) : Prop := mkRequest {
  rq_verb : f_verb f = VRQ \/ f_verb f = VW;
  rq_src : fst (f_src f) = DEVTYPE_HGI;          (* sent by a gateway (18:xxxxxx, e.g. the 18:000730 placeholder) ... *)
  rq_gw : fst gw = DEVTYPE_HGI;                  (* ... and answered to the gateway's real id *)
  rq_ne : f_src f <> f_dst f;
  rq_gne : gw <> f_dst f;
  rq_dst : fst (f_dst f) <> DEVTYPE_DTS /\ fst (f_dst f) <> DEVTYPE_DT2 /\ f_dst f <> NON_DEV;
  rq_code : f_code f <> C_1FC9 /\ ~ (f_code f = C_0009 /\ fst (f_dst f) = DEVTYPE_OTB) }.

Lemma neq_eqb a b : a <> b -> addr_eqb a b = false.
Proof. intros H. destruct (addr_eqb a b) eqn:E; [apply addr_eqb_eq in E; contradiction | reflexivity]. Qed.

Lemma has_ctl_reply f gw p' : request f gw -> has_ctl (reply_of f gw p') = has_ctl f.
Proof.
  intros [Hv Hs Hg Hne Hgne (Hd1 & Hd2 & Hd3) _]. unfold has_ctl, reply_of; cbn [f_src f_dst f_code f_payload].
  rewrite Hs, Hg.
  replace (memz DEVTYPE_HGI [DEVTYPE_CTL; DEVTYPE_UFC; DEVTYPE_PRG]) with false by reflexivity.
  rewrite orb_false_r, orb_false_l.
  destruct (memz (fst (f_dst f)) [DEVTYPE_CTL; DEVTYPE_UFC; DEVTYPE_PRG]); [reflexivity|].
  rewrite (neq_eqb gw (f_dst f) Hgne), (addr_eqb_sym (f_dst f) (f_src f)), (neq_eqb _ _ Hne), (neq_eqb _ _ Hd3).
  assert (Eg : addr_eqb gw NON_DEV = false).
  { unfold addr_eqb. rewrite Hg. reflexivity. }
  rewrite Eg.
  assert (Ed : memz (fst (f_dst f)) [DEVTYPE_DTS; DEVTYPE_DT2] = false).
  { unfold memz. cbn [existsb]. apply Z.eqb_neq in Hd1, Hd2. rewrite (Z.eqb_sym (fst (f_dst f))) in Hd1, Hd2.
    rewrite Z.eqb_sym, Hd1. rewrite (Z.eqb_sym (fst (f_dst f)) DEVTYPE_DT2), Hd2. reflexivity. }
  rewrite Ed. replace (memz DEVTYPE_HGI [DEVTYPE_DTS; DEVTYPE_DT2]) with false by reflexivity. reflexivity.
Qed.

Lemma has_array_request f gw : request f gw -> has_array f = Some false.
Proof.
  intros [Hv _ _ _ _ _ (Hc & _)]. unfold has_array. apply Z.eqb_neq in Hc. rewrite Hc.
  destruct (find _ CODES_WITH_ARRAYS) as [q|]; [|reflexivity]. destruct Hv as [-> | ->]; reflexivity.
Qed.

(* a proper reply (it repeats the context positions and is not itself an array) carries the request's context *)
Lemma ctx_reply f gw p' : request f gw -> agree (f_code f) (f_payload f) p' ->
  has_array (reply_of f gw p') = Some false ->
  ctx (reply_of f gw p') = ctx f \/ ctx (reply_of f gw p') = CRaise \/ ctx f = CRaise.
Proof.
  intros Hr Ha Harr. pose proof (has_ctl_reply f gw p' Hr) as Hctl. pose proof (has_array_request f gw Hr) as Harq.
  destruct Hr as [Hv Hs Hg Hne Hgne (Hd1 & Hd2 & Hd3) (Hc & H9)].
  unfold ctx, agree in *. cbn [reply_of f_code f_payload] in *.
  destruct ((f_code f =? C_0005) || (f_code f =? C_000C)) eqn:E1; [left; rewrite Ha; reflexivity|].
  apply orb_false_iff in E1 as [E05 E0C].
  unfold pkt_idx, p2. cbn [reply_of f_code f_payload f_src f_dst f_verb]. rewrite E05, E0C.
  rewrite Hs. replace (DEVTYPE_HGI =? DEVTYPE_OTB) with false by reflexivity. rewrite andb_false_r.
  assert (E9 : (f_code f =? C_0009) && (fst (f_dst f) =? DEVTYPE_OTB) = false).
  { destruct (f_code f =? C_0009) eqn:A; [|reflexivity]. destruct (fst (f_dst f) =? DEVTYPE_OTB) eqn:B; [|reflexivity].
    apply Z.eqb_eq in A, B. exfalso. apply H9. split; assumption. }
  rewrite E9.
  destruct (f_code f =? C_0404) eqn:E04.
  { destruct Ha as (A1 & A2 & A3). rewrite <- A1, <- A2, <- A3. left. reflexivity. }
  destruct ((f_code f =? C_0418) || (f_code f =? C_3220)) eqn:E18.
  { apply orb_true_iff in E18. destruct (f_code f =? C_0418) eqn:E418.
    - rewrite <- Ha. left; reflexivity.
    - destruct E18 as [E18|E18]; [discriminate|]. rewrite E18.
      destruct (f_code f =? C_1100) eqn:E11; [apply Z.eqb_eq in E11, E18; rewrite E11 in E18; discriminate|].
      rewrite <- Ha. left; reflexivity. }
  apply orb_false_iff in E18 as [E418 E3220]. rewrite E418, E3220.
  destruct Ha as (A1 & A2). rewrite <- A1, <- A2.
  destruct (f_code f =? C_1100); [left; reflexivity|].
  destruct (memz (f_code f) CODE_IDX_ARE_COMPLEX); [right; left; reflexivity|].
  destruct (memz (f_code f) CODE_IDX_ARE_NONE).
  { destruct (existsb _ SCHEMA_STARTS_00 && negb (str_eqb (slice 0 2 (f_payload f)) (lit "00"))) eqn:X;
      destruct (existsb (fun q => (fst q =? f_code f) && (snd q =? verb_idx (f_verb f))) SCHEMA_STARTS_00 && negb (str_eqb (slice 0 2 (f_payload f)) (lit "00"))) eqn:Y; auto. }
  rewrite Harr, Harq, Hctl. left. reflexivity.
Qed.

(* the proper reply from the addressed device is recognised as the reply to the request *)
Theorem reply_recognised : forall f gw p' h h', request f gw -> agree (f_code f) (f_payload f) p' ->
  has_array (reply_of f gw p') = Some false ->
  rx_header f = HOk h -> header (reply_of f gw p') = HOk h' -> h' = h.
Proof.
  intros f gw p' h h' Hr Ha Harr Hrx Hh. pose proof (ctx_reply f gw p' Hr Ha Harr) as Hc.
  destruct Hr as [Hv Hs Hg Hne Hgne Hd (Hc9 & _)].
  unfold rx_header in Hrx. unfold header in Hh. cbn [reply_of f_code f_verb f_src f_dst] in Hh.
  apply Z.eqb_neq in Hc9. rewrite Hc9 in Hrx, Hh. rewrite (neq_eqb _ _ Hne) in Hrx.
  assert (Hv1 : verb_eqb (f_verb f) VI || verb_eqb (f_verb f) VRP || false = false) by (destruct Hv as [-> | ->]; reflexivity).
  rewrite Hv1 in Hrx.
  assert (Hv2 : verb_eqb (reply_verb (f_verb f)) VI || verb_eqb (reply_verb (f_verb f)) VRP || addr_eqb (f_dst f) gw = true) by (destruct Hv as [-> | ->]; reflexivity).
  rewrite Hv2 in Hh.
  assert (Hv3 : (if verb_eqb (f_verb f) VRQ then VRP else VI) = reply_verb (f_verb f)) by (destruct Hv as [-> | ->]; reflexivity).
  rewrite Hv3 in Hrx. unfold with_ctx in *. cbn [reply_of f_code] in Hh.
  destruct Hc as [Hc | [Hc | Hc]].
  - rewrite Hc in Hh. destruct (ctx f); try discriminate; congruence.
  - rewrite Hc in Hh. discriminate.
  - rewrite Hc in Hrx. discriminate.
Qed.

(* ---- where the pairing does NOT hold (known findings): a request to a DTS92-type thermostat (type 12/22), and RQ|1FC9 ---- *)
Definition rq_to_dts : frame := mkFrame VRQ (18, 730) (22, 123456) 4 (lit "0000").        (* RQ --- 18:000730 22:123456 0004 002 0000 *)
Theorem dts_reply_refuted :
  rx_header rq_to_dts = HOk (mkHdr 4 VRP (22, 123456) (Some (lit "00"))) /\
  header (reply_of rq_to_dts (18, 111111) (lit "00004C6976696E6720526F6F6D000000000000000000")) = HOk (mkHdr 4 VRP (22, 123456) None).
Proof. vm_compute. split; reflexivity. Qed.
Theorem rq_1fc9_refuted : rx_header (mkFrame VRQ (18, 730) (1, 145038) C_1FC9 (lit "00")) = HNone.
Proof. vm_compute. reflexivity. Qed.

(* non-vacuity: a request that meets the hypotheses, its echo and its reply *)
Definition rq_example : frame := mkFrame VRQ (18, 730) (1, 145038) 9033 (lit "03").         (* RQ --- 18:000730 01:145038 2349 001 03 *)
Example rq_example_ok : request rq_example (18, 111111) /\
  agree 9033 (lit "03") (lit "0307D000FFFFFF") /\ has_array (reply_of rq_example (18, 111111) (lit "0307D000FFFFFF")) = Some false /\
  rx_header rq_example = HOk (mkHdr 9033 VRP (1, 145038) (Some (lit "03"))) /\
  header (reply_of rq_example (18, 111111) (lit "0307D000FFFFFF")) = HOk (mkHdr 9033 VRP (1, 145038) (Some (lit "03"))) /\
  header (reply_of rq_example (18, 111111) (lit "0407D000FFFFFF")) = HOk (mkHdr 9033 VRP (1, 145038) (Some (lit "04"))).
Proof.
  split; [constructor; cbn; try (left; reflexivity); try reflexivity; try discriminate; repeat split; try discriminate; intros [H _]; discriminate|].
  vm_compute. repeat split; reflexivity.
Qed.
