import asyncio, logging, sys, datetime as dt
sys.path.insert(0, __import__('os').path.dirname(__file__))
logging.disable(logging.CRITICAL)
from vloop import VLoop
from ramses_rf.binding_fsm import BindContext
from ramses_tx.command import Command
from ramses_tx.message import Message
from ramses_tx.packet import Packet
class Dev:
    id="01:111111"
    async def _async_send_cmd(self, cmd, priority=None, qos=None):
        self.ctx.sent_cmd(cmd)
        p=Packet._from_cmd(cmd)
        return p
async def main(loop):
    errs=[]
    loop.set_exception_handler(lambda l,c: errs.append((loop.time(), repr(c.get('exception')))))
    d=Dev(); ctx=BindContext(d); d.ctx=ctx
    offer=Message._from_cmd(Command.put_bind(" I","07:222222",["1260"],dst_id="07:222222"))
    t=asyncio.create_task(ctx.wait_for_binding_request(["1260"]))
    await asyncio.sleep(0.5)
    # RF devices send each frame three times; two copies land in one read -> same iteration
    loop.call_soon(ctx.rcvd_msg, offer); loop.call_soon(ctx.rcvd_msg, offer)
    await asyncio.sleep(0.1)
    print("state after dup offers:", ctx.state, "errs", errs)
    confirm=Message._from_cmd(Command.put_bind(" I","07:222222",None,dst_id="01:111111"))
    loop.call_soon(ctx.rcvd_msg, confirm); loop.call_soon(ctx.rcvd_msg, confirm)
    try:
        r=await t; print("result ok", [str(x)[:40] if x else x for x in r])
    except BaseException as e: print("caller got", type(e).__name__, e)
    await asyncio.sleep(10)
    print("final", ctx.state, "is_binding", ctx.is_binding, "errs", errs)
loop=VLoop(); asyncio.set_event_loop(loop); loop.run_until_complete(main(loop))
