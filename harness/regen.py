"""tiny generator of strings matching a Python regex (subset used by ramses_tx)"""
import re._parser as sp, random
HEX="0123456789ABCDEF"
def gen(pattern, rnd, maxrep=4, mode="rand"):
    digits = {"lo": "lo", "hi": "hi", "rand-lo": "lo", "rand-hi": "hi"}.get(mode)
    struct = mode if mode in ("lo", "hi") else None
    alt = None
    if mode.startswith("min"):      # "min<k>-hi" / "min<k>-lo": every repeat at its minimum (at least once), the k-th alternative of every branch, extreme digits
        alt, digits, struct = int(mode[3:mode.index("-")]), mode[mode.index("-") + 1:], "min"
    def pick(items):
        if digits == "lo": return items[0]
        if digits == "hi": return items[-1]
        return rnd.choice(items)
    def g(p):
        out=[]
        for op,av in p:
            op=str(op)
            if op=="LITERAL": out.append(chr(av))
            elif op=="ANY": out.append(pick(HEX))
            elif op=="IN":
                items=[]
                for o,a in av:
                    o=str(o)
                    if o=="LITERAL": items.append(chr(a))
                    elif o=="RANGE": items.extend(chr(c) for c in range(a[0],a[1]+1))
                    elif o=="CATEGORY": items.extend("0123456789")
                    else: raise ValueError(o)
                out.append(pick(items))
            elif op=="SUBPATTERN": out.append(g(av[3]))
            elif op=="BRANCH": out.append(g(av[1][0] if struct=="lo" else av[1][-1] if struct=="hi" else av[1][alt % len(av[1])] if alt is not None else rnd.choice(av[1])))
            elif op in("MAX_REPEAT","MIN_REPEAT"):
                lo,hi,sub=av; hi=min(int(hi),lo+maxrep) if str(hi)!="MAXREPEAT" else lo+maxrep
                out.append("".join(g(sub) for _ in range(lo if struct=="lo" else hi if struct=="hi" else max(lo, 1) if struct=="min" and hi >= 1 and lo <= 1 and str(sub[0][0]) != "IN" else lo if struct=="min" else rnd.randint(lo,hi))))
            elif op=="AT": pass
            else: raise ValueError(op)
        return "".join(out)
    return g(sp.parse(pattern))
