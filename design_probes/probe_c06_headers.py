import logging, random, re, datetime as dt, collections, sys
sys.path.insert(0, __import__('os').path.dirname(__file__))
logging.disable(logging.CRITICAL)
from regen import gen
from ramses_tx.command import Command
from ramses_tx.packet import Packet
from ramses_tx.ramses import CODES_SCHEMA
from ramses_tx.address import HGI_DEVICE_ID
rnd=random.Random(5)
CTL="01:145038"; GW="18:111111"; D=dt.datetime(2026,1,1)
cmds=[Command.get_zone_name(CTL,"03"),Command.get_zone_config(CTL,"03"),Command.get_zone_mode(CTL,"03"),Command.get_zone_temp(CTL,"03"),
 Command.get_zone_window_state(CTL,"03"),Command.get_mix_valve_params(CTL,"03"),Command.get_dhw_params(CTL),Command.get_dhw_temp(CTL),Command.get_dhw_mode(CTL),
 Command.get_tpi_params(CTL),Command.get_tpi_params("13:111111"),Command.get_relay_demand("13:111111"),Command.get_schedule_version(CTL),Command.get_system_mode(CTL),
 Command.get_system_time(CTL),Command.get_system_language(CTL),Command.get_system_log_entry(CTL,5),Command.get_opentherm_data("10:123456",5),
 Command.get_schedule_fragment(CTL,"03",2,3),Command.get_schedule_fragment(CTL,"HW",1,0),
 Command.from_attrs("RQ",CTL,"0005","0008"),Command.from_attrs("RQ",CTL,"000C","0308"),Command.from_attrs("RQ",CTL,"000C","000D"),Command.from_attrs("RQ",CTL,"000C","010E"),Command.from_attrs("RQ",CTL,"000C","000F"),
 Command.set_zone_setpoint(CTL,"03",21.0),Command.set_zone_mode(CTL,"03",mode="permanent_override",setpoint=21.0),Command.set_zone_config(CTL,"03"),Command.set_zone_name(CTL,"03","abc"),
 Command.set_dhw_params(CTL),Command.set_dhw_mode(CTL,mode="follow_schedule"),Command.set_system_mode(CTL,"auto"),Command.set_system_time(CTL,D),Command.set_tpi_params(CTL,"FC"),
 Command.set_mix_valve_params(CTL,"03"),Command.set_schedule_fragment(CTL,"03",1,3,"AA"*41)]
for c in cmds:
    frame=str(c)
    echo=Packet.from_port(D,"000 "+frame.replace(HGI_DEVICE_ID,GW))
    echo_ok = (echo._hdr.replace(HGI_DEVICE_ID,GW)==c.tx_header.replace(HGI_DEVICE_ID,GW))
    rxh=c.rx_header
    rverb="RP" if c.verb=="RQ" else " I"
    rx=CODES_SCHEMA[c.code].get(rverb)
    hdrs=collections.Counter()
    exs=collections.Counter()
    if rx:
        for _ in range(300):
            pl=gen(rx,rnd)
            if len(pl)%2 or not (2<=len(pl)<=96): continue
            try:
                p=Packet.from_port(D,f"045 {rverb} --- {c.dst.id} {GW} --:------ {c.code} {len(pl)//2:03d} {pl}")
                hdrs[p._hdr]+=1
            except Exception as e:
                exs[type(e).__name__]+=1
    same=[h for h in hdrs if h==rxh]
    print(f"{c.verb}|{c.code} {c.payload[:14]:14s} echo_ok={echo_ok} rx={rxh}  n_hdrs={len(hdrs)} match={sum(hdrs[h] for h in same)}/{sum(hdrs.values())} e.g.{list(hdrs)[:3]} {dict(exs) if exs else ''}")
