(* C18 -- Schedule transfers end cleanly under faults.  Statements only. *)
From Coq Require Import List Bool Arith.
From RV Require Import M_Transfer P_Transfer.
From Coq Require Import ZArith.
From RV Require M_SchedCache P_SchedCache.
From RV Require M_LockWaiters P_LockWaiters.
Import ListNotations.

(* whatever faults hit a transfer (a failing exchange, the caller's timeout at any await), it never
   leaves the schedule lock held *)
Theorem C18_lock_released_at_exit : forall l z faults,
  (snd (transfer true l z faults) = LockTimeout /\ fst (transfer true l z faults) = l /\ exists z', l = Some z' /\ z' <> z) \/
  (snd (transfer true l z faults) <> LockTimeout /\ fst (transfer true l z faults) = None).
Proof. exact lock_released_at_exit. Qed.

(* after ANY history of transfers -- any zones, any faults -- the lock is free and no transfer ever
   had to wait for it: a failed or abandoned transfer leaves nothing behind *)
Theorem C18_others_proceed : forall hist,
  fst (transfers true None hist) = None /\ ~ In LockTimeout (snd (transfers true None hist)).
Proof. exact others_proceed. Qed.

(* a schedule is only ever assembled from a full set of fragments of ONE version, whatever
   fragments (any versions, totals, order, repeats) arrive -- under the idealisation that the
   compressed stream's checksum rejects a mixed set *)
Theorem C18_single_version : forall ps total k v ps' w,
  vupdate ps total k v = (ps', Some w) -> vfull ps' = true /\ Forall (fun x => x = w) (versions ps').
Proof. exact vupdate_single. Qed.
Theorem C18_never_mixed : forall frs ps last w,
  (last = None \/ exists vs, last = single_version vs) ->
  snd (vfeed ps last frs) = Some w -> exists vs, single_version vs = Some w.
Proof. exact never_mixed. Qed.

(* an undisturbed fetch (the controller holds one version in [total] fragments throughout) always
   ends with THAT version, within 2 * total exchanges, whatever stale fragments -- of earlier
   versions, of other totals, left by failed, abandoned or overtaken transfers -- the zone held *)
Theorem C18_undisturbed_fetch_completes : forall ps total v, ps <> [] -> 1 <= total ->
  exists n, fetch ps total v = Got v n /\ n <= 2 * total.
Proof. exact fetch_completes. Qed.
Theorem C18_fetch_examples :
  fetch [Some 1; Some 1; Some 1] 3 2 = Got 2 3 /\ fetch [Some 1; Some 1; Some 1] 1 2 = Got 2 1 /\
  fetch [None] 4 7 = Got 7 4 /\ fetch [Some 1; Some 1; None] 3 3 = Got 3 4.
Proof. exact fetch_examples. Qed.

(* regression witness: the fetch before the repair leaked the lock *)
Theorem C18_lock_leak_refuted :
  transfers false None [(0, [Proceed; Raises]); (1, [Proceed; Proceed; Proceed])] = (Some 0, [Failed; LockTimeout]).
Proof. exact lock_leak_refuted. Qed.
Theorem C18_lock_leak_repaired :
  transfers true None [(0, [Proceed; Raises]); (1, [Proceed; Proceed; Proceed])] = (None, [Failed; Completed]).
Proof. exact lock_leak_repaired. Qed.

(* what a zone's Schedule OVERHEARS (Schedule._handle_msg): acknowledgements of schedule writes -- its own gateway's or another's -- and fragments
   arriving while its own transfer holds the lock change neither the fragment set nor the schedule held ... *)
Theorem C18_acknowledgements_change_nothing : forall es st, (forall e, In e es -> is_frag e = false) -> hear_all st es = st.
Proof. exact hear_non_fragments. Qed.
(* ... and hearing ANY traffic is feeding the reassembly exactly the fragments among it, in order: nothing but a fragment ever enters the set
   (so the version bookkeeping theorems above apply to whatever is overheard) *)
Theorem C18_only_fragments_are_stored : forall es ps last, hear_all (ps, last) es = vfeed ps last (flat_map frag_of es).
Proof. exact hear_is_vfeed. Qed.

(* "ends with the controller's schedule or an error; a transfer that fails leaves nothing behind", for the schedule the zone itself remembers
   (M_SchedCache: Schedule._full_schedule / _sched_ver / _global_ver and the system's cached change counter): AFTER ANY HISTORY of fetches and
   WRITES that fail at any exchange (before the controller has the whole set; after it has committed, the last reply lost; at the version query
   that follows), changes made on the controller by others, and overheard counters -- a forced fetch that returns, returns the schedule the
   controller holds ... *)
Theorem C18_forced_fetch_is_current : forall ops c ios g r,
  let s := fst (M_SchedCache.run false M_SchedCache.init ops) in
  snd (M_SchedCache.fetch true c ios g s) = M_SchedCache.Returned r -> r = Some (M_SchedCache.csched s).
Proof. exact P_SchedCache.forced_fetch_is_current. Qed.
(* ... because in every reachable state the zone's readings of the change counter never run ahead of the controller's, and whenever its version
   says "current" the schedule it remembers IS the controller's *)
Theorem C18_cache_invariant : forall ops, P_SchedCache.Inv (fst (M_SchedCache.run false M_SchedCache.init ops)).
Proof. intros ops. apply P_SchedCache.run_inv, P_SchedCache.Inv_init. Qed.
(* the slip "remember the new schedule BEFORE sending it": fetch, a write that fails early, a forced fetch -- the zone reports the schedule that
   never reached the controller (2 while the controller holds 1); the code as it is reports the controller's *)
Theorem C18_early_assignment_refuted :
  snd (M_SchedCache.run true M_SchedCache.init P_SchedCache.slip_ops) =
    [M_SchedCache.Returned (Some 1%Z); M_SchedCache.Raised; M_SchedCache.Returned (Some 2%Z)] /\
  M_SchedCache.csched (fst (M_SchedCache.run true M_SchedCache.init P_SchedCache.slip_ops)) = 1%Z /\
  snd (M_SchedCache.run false M_SchedCache.init P_SchedCache.slip_ops) =
    [M_SchedCache.Returned (Some 1%Z); M_SchedCache.Raised; M_SchedCache.Returned (Some 1%Z)].
Proof. exact P_SchedCache.early_assignment_refuted. Qed.

(* SEVERAL zones' transfers at once (M_LockWaiters: the polling loop of _obtain_lock, `await _obtain_lock` and THEN `try ... finally _release_lock`,
   re-checked in the source on every run): for EVERY interleaving of starts, polls, fragment exchanges and ends -- completions, failures and callers
   giving up, while waiting for the lock or while holding it -- every fragment is exchanged while the lock is held by its own zone ... *)
Theorem C18_exchanges_under_own_lock : forall es z h,
  In (z, h) (M_LockWaiters.exch (M_LockWaiters.run false M_LockWaiters.init es)) -> h = Some z.
Proof. exact P_LockWaiters.exchanges_under_own_lock. Qed.
(* ... at most one transfer holds the lock ... *)
Theorem C18_one_holder : forall es z z',
  M_LockWaiters.ts (M_LockWaiters.run false M_LockWaiters.init es) z = M_LockWaiters.THolding ->
  M_LockWaiters.ts (M_LockWaiters.run false M_LockWaiters.init es) z' = M_LockWaiters.THolding -> z = z'.
Proof. exact P_LockWaiters.one_holder. Qed.
(* ... and a transfer that ends while still waiting "leaves nothing behind": the lock and every other transfer are as they were *)
Theorem C18_waiter_ending_releases_nothing : forall s z,
  M_LockWaiters.ts s z = M_LockWaiters.TWaiting ->
  M_LockWaiters.lock (M_LockWaiters.step false s (M_LockWaiters.EEnd z)) = M_LockWaiters.lock s /\
  forall k, k <> z -> M_LockWaiters.ts (M_LockWaiters.step false s (M_LockWaiters.EEnd z)) k = M_LockWaiters.ts s k.
Proof. exact P_LockWaiters.waiter_ending_releases_nothing. Qed.
(* the slip "obtain the lock INSIDE the try": a waiter that gives up frees the running transfer's lock, the next waiter starts at once and the
   running transfer's next fragment is exchanged under another zone's lock; the code as it is keeps the lock where it was *)
Theorem C18_lock_inside_try_refuted :
  M_LockWaiters.exch (M_LockWaiters.run true M_LockWaiters.init P_LockWaiters.slip_events) = [(0, Some 0); (0, Some 2); (2, Some 2)] /\
  M_LockWaiters.exch (M_LockWaiters.run false M_LockWaiters.init P_LockWaiters.slip_events) = [(0, Some 0); (0, Some 0)].
Proof. exact P_LockWaiters.lock_inside_try_refuted. Qed.
