(* C19 -- the fault-log view.  Statements only. *)
From Coq Require Import ZArith List Bool Lia.
From RV Require Import GenConsts M_Faultlog P_Faultlog P_FaultlogDepth P_FaultlogClean.
Import ListNotations.
Open Scope Z_scope.

(* no entry the controller never reported: for ANY history of processed messages *)
Theorem C19_no_invented : forall evs s v,
  In v (vals (fl_map (run evs s))) -> In v (vals (fl_map s)) \/ exists idx, In (FEntry idx v) evs.
Proof. exact no_invented. Qed.

(* reading the view never raises (every index maps to a stored entry), after any history *)
Theorem C19_views_total : forall evs, view (run evs finit) <> None.
Proof. exact views_total. Qed.
Theorem C19_log_is_map_values : forall evs v,
  In v (fl_log (run evs finit)) <-> In v (vals (fl_map (run evs finit))).
Proof. exact log_is_map_values. Qed.
Theorem C19_keys_unique : forall evs, NoDup (keys (fl_map (run evs finit))).
Proof. exact keys_unique. Qed.

(* read-through, partial: from an EMPTY view (the full statement quantifies over any prior belief) *)
Theorem C19_fresh_read_through_partial : forall L, sorted_desc L -> forall n, (n <= length L)%nat ->
  fl_map (run (map (rp L) (seq 0 n)) finit) = pmap 0 (firstn n L).
Proof. exact fresh_read_through. Qed.

(* push-down, partial: when the view is the first entries of the log (no gaps), an
   announcement of a newer entry moves every known entry down by one *)
Theorem C19_announcement_pushes_down_partial : forall l d,
  (forall v, In v l -> v < d) -> Z.of_nat (length l) <= MAXIDX ->
  insert_into_map (pmap 0 l) 0 (Some d) = (0, d) :: pmap 1 l.
Proof. exact announce_pushes_down. Qed.

(* ---- against a controller log of the property's depth: 64 slots, 00..3F (LOG_DEPTH is the
   property's constant; MAXIDX is regenerated from FaultLog._MAX_LOG_IDX on every run) ---- *)
Theorem C19_cutoff_is_last_slot : MAXIDX + 1 = LOG_DEPTH.
Proof. exact cutoff_is_last_slot. Qed.

(* whatever is heard, in any order, with any losses: no entry at an index the log does not have *)
Theorem C19_view_within_log : forall evs, (forall e, In e evs -> idx_of e < LOG_DEPTH) ->
  forall k, In k (keys (fl_map (run evs finit))) -> k < LOG_DEPTH.
Proof. exact view_within_log. Qed.

(* push-down at full strength for a completely known log of ANY length up to the full depth: the
   view equals the controller's new log; only the entry that was in the last slot drops off *)
Theorem C19_announcement_at_full_depth : forall l d, (forall v, In v l -> v < d) ->
  insert_into_map (pmap 0 l) 0 (Some d) = pmap 0 (firstn (Z.to_nat LOG_DEPTH) (d :: l)).
Proof. exact announce_at_full_depth. Qed.

(* ---- the positive clauses at full strength, for every history without loss: controller (log of at
   most 64 entries, newest first) and library driven together; KNew d = a new entry arrives and its
   announcement is delivered, KRead i = the reply for index i (the entry, or "no entry") is delivered,
   with i not beyond the position already reached.  Whatever the interleaving -- re-reads, partial and
   complete read-throughs, entries arriving between reads, the log filling up and entries dropping
   off its end -- the view is exactly the controller's log down to the position reached ---- *)
Theorem C19_clean_histories_track : forall ops st', krun ops kinit = Some st' ->
  fl_map (k_s st') = pmap 0 (firstn (k_n st') (k_log st')) /\ (k_n st' <= length (k_log st') <= DEPTH)%nat.
Proof. exact clean_histories_track. Qed.

(* ... and reading on from the position reached to the end of the log reaches the whole log: after a
   complete read-through the view EQUALS the controller's log *)
Theorem C19_read_through_completes : forall k st, tracks st -> (k_n st + k = length (k_log st))%nat ->
  (length (k_log st) < DEPTH)%nat ->
  exists st', krun (map KRead (seq (k_n st) (S k))) st = Some st' /\ k_log st' = k_log st /\ k_n st' = length (k_log st).
Proof. exact read_through_depth. Qed.

Theorem C19_clean_history_example :
  option_map (fun st => (k_log st, fl_map (k_s st), k_n st))
    (krun [KNew 1; KNew 2; KRead 0; KRead 1; KRead 2; KNew 3; KRead 1; KNew 4; KRead 3; KRead 4] kinit)
  = Some ([4; 3; 2; 1], [(0, 4); (1, 3); (2, 2); (3, 1)], 4%nat).
Proof. exact clean_history_example. Qed.

(* the full statements are false of the code (witnesses replayed on the implementation) *)
Theorem C19_no_duplicates_refuted : exists ops, no_dup_values (fl_map (snd (crun ops))) = false.
Proof. exact no_duplicates_refuted. Qed.
Theorem C19_pushdown_refuted :
  exists ops, belief_correct (crun ops) = true /\ fl_map (snd (crun ops)) <> [] /\
              belief_correct (cstep (crun ops) (CNew true)) = false.
Proof. exact pushdown_refuted. Qed.

(* the full read-through statement (any prior belief reachable from a real controller) is false *)
Theorem C19_read_through_refuted :
  exists ops, let st := crun ops in
              let log := fst st in
              let s' := run (map (rp log) (seq 0 (S (length log)))) (snd st) in
              fl_map s' <> pmap 0 log.
Proof. exact read_through_refuted. Qed.

Example C19_nonvacuous :
  sorted_desc [5; 3; 1] /\ fl_map (run (map (rp [5; 3; 1]) (seq 0 3)) finit) = [(0, 5); (1, 3); (2, 1)] /\
  insert_into_map [(0, 5); (1, 3)] 0 (Some 7) = [(0, 7); (1, 5); (2, 3)].
Proof.
  split; [|split; vm_compute; reflexivity].
  apply sorted_desc_cons; [apply sorted_desc_cons; [apply sorted_desc_cons; [apply sorted_desc_nil|intros v []]|]|].
  - intros v [<-|[]]. lia.
  - intros v [<-|[<-|[]]]; lia.
Qed.

(* "after a complete read-through ... the view equals the controller's log": the read-through loop (FaultLog.get_faultlog from the top, limit 64)
   asks for every slot down to the first empty one -- slot 3F, the last one of a full log, included *)
Theorem C19_read_through_asks_every_slot : forall len, get_faultlog_asks len 0 64 = seq 0 (Nat.min 64 (S len)).
Proof. exact read_through_asks_every_slot. Qed.
Theorem C19_full_log_read_to_the_last_slot : forall len, (64 <= len)%nat ->
  In 63%nat (get_faultlog_asks len 0 64) /\ length (get_faultlog_asks len 0 64) = 64%nat.
Proof. exact full_log_read_to_the_last_slot. Qed.
