(* C06 -- Request and reply correlate: echo/reply headers match, distinct contexts differ.  Statements only. *)
From Coq Require Import ZArith String List Bool.
From RV Require Import PyStr GenTables M_Header P_Header.
Import ListNotations.
Open Scope Z_scope.

(* the echo of a request or write -- the same frame with whatever id (of the same device type) the gateway puts in
   place of the sender -- has the request's header, and expects the same reply *)
Theorem C06_echo_recognised : forall f gw, (f_verb f = VRQ \/ f_verb f = VW) ->
  f_src f <> f_dst f -> gw <> f_dst f -> fst gw = fst (f_src f) ->
  header (echo_of f gw) = header f /\ (f_code f <> C_1FC9 -> rx_header (echo_of f gw) = rx_header f).
Proof. exact echo_recognised. Qed.

(* the proper reply -- from the addressed device to the gateway, the reply verb, the same code, repeating the
   context positions, not an array -- has exactly the header the request expects, for every code, payload, gateway
   id and destination (other than a type 12/22 thermostat, 1FC9, and 0009 to an OpenTherm bridge) *)
Theorem C06_reply_recognised : forall f gw p' h h', request f gw -> agree (f_code f) (f_payload f) p' ->
  has_array (reply_of f gw p') = Some false ->
  rx_header f = HOk h -> header (reply_of f gw p') = HOk h' -> h' = h.
Proof. exact reply_recognised. Qed.

(* whatever packet has the header a request expects has the request's code, the reply verb, comes from the addressed
   device and carries the request's context: a packet differing in code, verb, responding device or context is never
   taken for the reply *)
Theorem C06_only_the_reply_matches : forall f g h, f_code f <> C_1FC9 ->
  rx_header f = HOk h -> header g = HOk h ->
  f_code g = f_code f /\ h_verb h = reply_verb (f_verb f) /\ f_verb g = reply_verb (f_verb f) /\ h_dev h = f_dst f /\
  (match ctx g, ctx f with CStr a, CStr b => a = b | CNo, CNo => True | _, _ => False end).
Proof. exact only_the_reply_matches. Qed.

(* ... and whatever has the request's own header has its code, verb and context *)
Theorem C06_only_the_echo_matches : forall f g h, f_code f <> C_1FC9 -> f_code g <> C_1FC9 ->
  header f = HOk h -> header g = HOk h ->
  f_code g = f_code f /\ f_verb g = f_verb f /\
  (match ctx g, ctx f with CStr a, CStr b => a = b | CNo, CNo => True | _, _ => False end).
Proof. exact only_the_echo_matches. Qed.

(* where the pairing fails (known findings), by computed witnesses: the reply of a type-22 thermostat carries no
   context although the request expects one; RQ|1FC9 expects no reply at all *)
Theorem C06_dts_reply_refuted :
  rx_header rq_to_dts = HOk (mkHdr 4 VRP (22, 123456) (Some (lit "00"))) /\
  header (reply_of rq_to_dts (18, 111111) (lit "00004C6976696E6720526F6F6D000000000000000000")) = HOk (mkHdr 4 VRP (22, 123456) None).
Proof. exact dts_reply_refuted. Qed.
Theorem C06_rq_1fc9_refuted : rx_header (mkFrame VRQ (18, 730) (1, 145038) C_1FC9 (lit "00")) = HNone.
Proof. exact rq_1fc9_refuted. Qed.
