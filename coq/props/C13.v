(* C13 -- No traffic can break the gateway: the engine part.  Statements only. *)
From Coq Require Import List Bool Arith.
From Coq Require Import ZArith.
From Coq Require Sorting.Sorted.
From RV Require Import M_Engine P_Engine.
From RV Require M_TxRate P_TxRate.
Import ListNotations.

(* taking a snapshot or restoring one -- whether its body succeeds or raises -- leaves every engine
   variable (handler, sending and discovery switches, writing flag, the transport's reading flag, saved tuple) exactly as before *)
Theorem C13_snapshot_leaves_engine : forall e o, up e -> snapshot_op o = true ->
  fst (step true e o) = e /\ snd (step true e o) <> RuntimeErr.
Proof. exact snapshot_leaves_engine. Qed.

(* ... for any sequence of such operations, in any mix of successes and failures *)
Theorem C13_snapshots_leave_engine : forall ops e, up e -> forallb snapshot_op ops = true ->
  fst (run true e ops) = e.
Proof. exact snapshots_leave_engine. Qed.

(* ... and the next packet of the transport's source is taken and handled by the handler that was there before *)
Theorem C13_still_receiving : forall ops e h, up e -> handler e = Some h -> forallb snapshot_op ops = true ->
  snd (run true e (ops ++ [Rx])) = snd (run true e ops) ++ [Handled h].
Proof. exact still_receiving. Qed.

(* a snapshot asked for while a client has the engine paused is refused and changes nothing *)
Theorem C13_snapshot_when_paused : forall g e o, saved e <> None -> snapshot_op o = true ->
  step g e o = (e, RuntimeErr).
Proof. exact snapshot_when_paused. Qed.

(* whatever clients do (snapshots, restores, their own pause/resume, packets; any failures) the engine is up,
   or paused with the state of an up engine saved: one resume away from running, never stuck *)
Theorem C13_engine_invariant : forall ops e, Inv e -> Inv (fst (run true e ops)).
Proof. exact run_inv. Qed.
Theorem C13_never_stuck : forall ops e, Inv e ->
  up (fst (run true e ops)) \/ up (fst (step true (fst (run true e ops)) Resume)).
Proof. exact never_stuck. Qed.

(* regression witnesses: get_state()/restore without try/finally (before 5e7f144) *)
Theorem C13_unguarded_refuted :
  run false up_example [GetState true; Rx; GetState false] =
  (mkEng None true true true (Some (Some 7, false, false)) true true, [BodyRaised; Dropped; RuntimeErr]).
Proof. exact unguarded_refuted. Qed.
Theorem C13_guarded_repaired :
  run true up_example [GetState true; Rx; GetState false] = (up_example, [BodyRaised; Handled 7; Done]).
Proof. exact guarded_repaired. Qed.

(* a _resume() that resumes reading only when sending is enabled: a snapshot in the middle of a replayed log (sending disabled) leaves the
   transport paused and the rest of the log is dropped; the engine as it is takes it *)
Theorem C13_merged_guard_refuted :
  up replaying /\ rd_paused (fst (resume_merged (fst (pause replaying)))) = true /\
  snd (step true (fst (resume_merged (fst (pause replaying)))) Rx) = Dropped /\
  snd (run true replaying [GetState false; Rx]) = [Done; Handled 7].
Proof. exact merged_guard_refuted. Qed.

(* a view of the LIVE gateway: the transmit rate in Gateway.status (M_TxRate = _FullTransport._report_transmit_rate, also evaluated inside every
   write).  For EVERY history of transmits a positive time apart, read at ANY later moment -- minutes of silence included -- it is a number *)
Theorem C13_tx_rate_total : forall now ts, Sorted.StronglySorted Z.lt ts -> M_TxRate.raises (M_TxRate.report now ts) = false.
Proof. exact P_TxRate.report_total. Qed.
(* the slip "leave early on the number of ALL tracked transmits": IndexError after 301 s of silence, ZeroDivisionError at the next write *)
Theorem C13_tx_rate_early_exit_refuted :
  M_TxRate.report_slip 302000000 [0; 1000000]%Z = M_TxRate.RaisesIndex /\
  M_TxRate.report_slip 302000000 [0; 1000000; 302000000]%Z = M_TxRate.RaisesZeroDivision /\
  M_TxRate.report 302000000 [0; 1000000]%Z = M_TxRate.Count 0 /\ M_TxRate.report 302000000 [0; 1000000; 302000000]%Z = M_TxRate.Count 1.
Proof. exact P_TxRate.early_exit_before_window_refuted. Qed.
