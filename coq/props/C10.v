(* C10 -- Device filters are sound and complete.  Statements only. *)
From Coq Require Import ZArith List Bool.
From RV Require Import Py M_Filter P_Filter.
Import ListNotations.
Open Scope Z_scope.

(* a block-listed source or destination never passes, receiving or sending,
   for every configuration (lists may overlap, any active gateway, enforced or not) *)
Theorem C10_blocked_never_passes : forall c sending src dst,
  In src (f_exclude c) \/ In dst (f_exclude c) -> wanted c sending src dst = false.
Proof. exact blocked_never_passes. Qed.

(* with the known list enforced, any id that is neither listed, nor the active gateway,
   nor broadcast/null (nor, when sending, the 18:000730 placeholder) is dropped *)
Theorem C10_unlisted_dropped : forall c sending src dst x,
  f_enforce c = true -> (x = src \/ x = dst) -> ~ allowed c sending x -> wanted c sending src dst = false.
Proof. exact unlisted_dropped. Qed.

(* filtering never over-blocks *)
Theorem C10_allowed_always_passes : forall c sending src dst,
  (forall x, x = src \/ x = dst -> ~ In x (f_exclude c) /\ (f_enforce c = true -> allowed c sending x)) ->
  wanted c sending src dst = true.
Proof. exact allowed_always_passes. Qed.

Theorem C10_wanted_iff : forall c sending src dst,
  wanted c sending src dst = true <->
  (forall x, x = src \/ x = dst -> ~ In x (f_exclude c) /\ (f_enforce c = true -> allowed c sending x)).
Proof. exact wanted_iff. Qed.

Theorem C10_active_gateway_never_blocked : forall c dev x,
  f_active (set_active c dev) = Some x -> ~ In x (f_exclude c).
Proof. exact set_active_not_blocked. Qed.

Theorem C10_enforce_needs_known_list : forall e, select_mode e [] = false.
Proof. exact enforce_needs_known_list. Qed.

(* gateway stage: no device for a blocked id, none for an unlisted id when enforced ... *)
Theorem C10_no_device_for_blocked : forall g u dev,
  In dev (g_exclude g) -> fst (check_filter_lists g u dev) = false.
Proof. exact check_blocked. Qed.
Theorem C10_no_device_for_unlisted : forall g u dev,
  g_enforce g = true -> ~ In dev (g_include g) -> g_hgi g <> Some dev ->
  fst (check_filter_lists g u dev) = false.
Proof. exact check_unlisted. Qed.
(* ... and after ANY history of look-ups an allowed id is still accepted *)
Theorem C10_allowed_after_any_history_partial : forall g devs dev,
  ~ In dev initial_unwanted ->
  ~ In dev (g_exclude g) -> (g_enforce g = true -> In dev (g_include g) \/ g_hgi g = Some dev) ->
  fst (check_filter_lists g (fold_left (fun u d => snd (check_filter_lists g u d)) devs initial_unwanted) dev) = true.
Proof. exact allowed_after_any_history. Qed.
(* partial: the full statement (without the first hypothesis) is false of the code, because the
   memo is initialised with the hard-coded id 01:000001 (KNOWN_FINDINGS.json) *)
Theorem C10_hardcoded_unwanted_refuted :
  exists g dev, ~ In dev (g_exclude g) /\ g_enforce g = false /\
                fst (check_filter_lists g initial_unwanted dev) = false.
Proof. exact hardcoded_unwanted_refuted. Qed.

Example C10_nonvacuous :
  let c := {| f_exclude := [4000002]; f_include := [1000001; 18111111]; f_enforce := true; f_active := Some 18111111 |} in
  wanted c false 1000001 18111111 = true /\ wanted c false 4000002 1000001 = false /\
  wanted c false 13000003 1000001 = false /\ wanted c true HGI_ID 1000001 = true /\ wanted c false HGI_ID 1000001 = false.
Proof. vm_compute. repeat split. Qed.
