(* M_Frame: Frame.__init__ / Packet.__init__ / Packet.from_file / _partition /
   _ReadTransport._frame_read / transport._str / _normalise / PortTransport._read_ready.bytes_read
   of ramses_tx (C01, C02).  Strings are ASCII (list ascii). *)
From Coq Require Import ZArith Ascii String List Bool.
From RV Require Import Py PyStr Regex GenRegex GenTables.
Import ListNotations.
Open Scope Z_scope.

(* ---------------------------------------------------------------- text helpers *)
Definition is_space (c : ascii) : bool :=
  let n := nat_of_ascii c in
  Nat.eqb n 32 || (Nat.leb 9 n && Nat.leb n 13) || (Nat.leb 28 n && Nat.leb n 31).
Fixpoint lstrip (s : str) : str :=
  match s with c :: t => if is_space c then lstrip t else s | [] => [] end.
Definition strip (s : str) : str := rev (lstrip (rev (lstrip s))).

(* s.partition(c): (before, found, after) *)
Fixpoint partition_at (c : ascii) (s : str) : str * bool * str :=
  match s with
  | [] => ([], false, [])
  | x :: t => if Ascii.eqb x c then ([], true, t)
              else let '(a, f, b) := partition_at c t in (x :: a, f, b)
  end.

(* Packet._partition: frame [< hint] [* err] [# comment] *)
Definition pkt_partition (line : str) : str * str * str :=
  let '(frag, _, comment) := partition_at "#"%char line in
  let '(frag2, _, err) := partition_at "*"%char frag in
  let '(pkt, _, _) := partition_at "<"%char frag2 in
  (strip pkt, strip err, strip comment).

(* ---------------------------------------------------------------- addresses *)
Definition NON_DEV : str := lit "--:------".
Definition ALL_DEV : str := lit "63:262142".
Definition is_non (a : str) : bool := str_eqb a NON_DEV.
Definition is_all (a : str) : bool := str_eqb a ALL_DEV.
Definition atype (a : str) : str := firstn 2 a.

Record addrs := { a_src : str; a_dst : str; a0 : str; a1 : str; a2 : str }.

(* Address.is_valid: "--:------" or ^[0-9]{2}:[0-9]{6}$ *)
Definition is_digit (c : ascii) : bool := let n := nat_of_ascii c in Nat.leb 48 n && Nat.leb n 57.
Definition valid_addr (a : str) : bool :=
  is_non a ||
  match a with
  | [d0; d1; c; n0; n1; n2; n3; n4; n5] =>
      is_digit d0 && is_digit d1 && Ascii.eqb c ":"%char &&
      is_digit n0 && is_digit n1 && is_digit n2 && is_digit n3 && is_digit n4 && is_digit n5
  | _ => false
  end.

(* address.pkt_addrs on three 9-char fields *)
Definition pkt_addrs (x0 x1 x2 : str) : result addrs :=
  if negb (valid_addr x0 && valid_addr x1 && valid_addr x2) then Raise PacketInvalid else
  let s1 := negb (is_non x0 || is_all x0) && is_non x1 && negb (is_non x2) in
  let s2 := negb (is_non x0 || is_all x0) && negb (is_non x1 || str_eqb x1 x0) && is_non x2 in
  let s3 := negb (is_non x2 || is_all x2) && is_non x0 && is_non x1 in
  if negb (s1 || s2 || s3) then Raise PacketInvalid
  else
    match filter (fun a => negb (str_eqb (atype a) (lit "--"))) [x0; x1; x2] with
    | [] => Raise OtherExn   (* IndexError: unreachable (proved: pkt_addrs_never_other) *)
    | s :: rest =>
        let d := match rest with d :: _ => d | [] => NON_DEV end in
        Ok {| a_src := (if str_eqb s d then d else s); a_dst := d; a0 := x0; a1 := x1; a2 := x2 |}
    end.

(* ---------------------------------------------------------------- frames *)
Record frame := {
  f_verb : str; f_seqn : str; f_addrs : addrs; f_code : str; f_len : str; f_payload : str
}.

Definition mk_frame (s : str) : result frame :=
  if negb (matches COMMAND_RE s) then Raise PacketInvalid
  else
    match pkt_addrs (slice 7 16 s) (slice 17 26 s) (slice 27 36 s) with
    | Raise e => Raise e
    | Ok ad =>
        let payload := from 46 s in
        match int10 (slice 42 45 s) with
        | None => Raise ValueError   (* unreachable after the regex *)
        | Some n =>
            if negb (Z.of_nat (length payload) =? n * 2) then Raise PacketInvalid
            else Ok {| f_verb := slice 0 2 s; f_seqn := slice 3 6 s; f_addrs := ad;
                       f_code := slice 37 41 s; f_len := slice 42 45 s; f_payload := payload |}
        end
    end.

(* Frame.__repr__ *)
Definition sp : str := lit " ".
Definition print_frame (f : frame) : str :=
  f_verb f ++ sp ++ f_seqn f ++ sp ++ a0 (f_addrs f) ++ sp ++ a1 (f_addrs f) ++ sp ++ a2 (f_addrs f)
  ++ sp ++ f_code f ++ sp ++ f_len f ++ sp ++ f_payload f.

Definition code_of (f : frame) : Z := match int16 (f_code f) with Some z => z | None => -1 end.
Definition flen (f : frame) : Z := Z.of_nat (length (f_payload f)) / 2.
Definition verb_is (f : frame) (v : string) : bool := str_eqb (f_verb f) (lit v).

Fixpoint assoc (k : Z) (l : list (Z * Z)) : option Z :=
  match l with [] => None | (k', v) :: t => if k =? k' then Some v else assoc k t end.
Definition memz (x : Z) (l : list Z) : bool := existsb (Z.eqb x) l.

Definition type_is (a : str) (t : Z) : bool := match int10 (atype a) with Some z => z =? t | None => false end.

(* Frame._has_array, with its three assertions *)
Definition has_array (f : frame) : result bool :=
  let src := a_src (f_addrs f) in
  let dst := a_dst (f_addrs f) in
  let code := code_of f in
  if code =? 0x1FC9 then Ok (negb (verb_is f "RQ"))
  else
    let r :=
      match assoc code CODES_WITH_ARRAYS with
      | None => false
      | Some el =>
          if negb (verb_is f " I") then false
          else if negb (flen f =? el) then (0 <? flen f / el) && (flen f mod el =? 0)
          else if ((code =? 0x22C9) || (code =? 0x3150)) && type_is src DEVTYPE_UFC && str_eqb dst src
                  && negb (str_eqb (firstn 1 (f_payload f)) (lit "F")) then true
          else false
      end in
    if negb r then Ok false
    else
      match assoc code CODES_WITH_ARRAYS with
      | None => Ok false
      | Some el =>
          if negb (flen f mod el =? 0) then Raise AssertionError
          else if negb (type_is src DEVTYPE_DTS || type_is src DEVTYPE_DT2 || str_eqb src dst) then Raise AssertionError
          else if negb (negb (type_is src DEVTYPE_DTS || type_is src DEVTYPE_DT2) || is_non dst) then Raise AssertionError
          else Ok true
      end.

(* packet.pkt_lifespan: microseconds *)
Definition pkt_lifespan (f : frame) : result Z :=
  let code := code_of f in
  if verb_is f "RQ" || verb_is f " W" then Ok PKT_TD_SECS_000_us
  else if (code =? 0x0005) || (code =? 0x000C) then Ok PKT_TD_DAYS_001_us
  else if code =? 0x0006 then Ok PKT_TD_MINS_060_us
  else if code =? 0x0404 then Ok PKT_TD_DAYS_001_us
  else
    do arr000A <- (if code =? 0x000A then has_array f else Ok false);
    if arr000A then Ok PKT_TD_MINS_060_us
    else if code =? 0x10E0 then Ok PKT_TD_DAYS_001_us
    else if code =? 0x1F09 then Ok (if verb_is f " I" then PKT_TD_SECS_360_us else PKT_TD_SECS_000_us)
    else if (code =? 0x1FC9) && verb_is f "RP" then Ok PKT_TD_DAYS_001_us
    else
      do arr <- (if (code =? 0x2309) || (code =? 0x30C9) then has_array f else Ok false);
      if arr then Ok PKT_TD_SECS_360_us
      else if code =? 0x3220 then
        match int16 (slice 4 6 (f_payload f)) with
        | None => Raise ValueError     (* int('', 16) on a payload shorter than 3 bytes *)
        | Some id =>
            if memz id OT_SCHEMA_IDS then Ok OT_SCHEMA_us
            else if memz id OT_PARAMS_IDS then Ok OT_PARAMS_us
            else if memz id OT_STATUS_IDS then Ok OT_STATUS_us
            else Ok OT_STATUS_us
        end
      else match assoc code LIFESPAN_TABLE with Some us => Ok us | None => Ok PKT_TD_MINS_060_us end.

(* ---------------------------------------------------------------- packets *)
Record packet := { p_frame : frame; p_rssi : str; p_lifespan : Z; p_comment : str }.

(* Packet.__init__(dtm, "RSS frame", err_msg=, comment=).  The AssertionError of the
   array-shape checks is mapped to PacketInvalid (repaired; it used to escape). *)
Definition mk_packet (line err_msg comment : str) : result packet :=
  do f <- mk_frame (from 4 line);
  match pkt_lifespan f with
  | Raise AssertionError => Raise PacketInvalid
  | Raise e => Raise e
  | Ok ls =>
      match err_msg with
      | _ :: _ => Raise PacketInvalid        (* Packet._validate: error_text *)
      | [] => Ok {| p_frame := f; p_rssi := firstn 3 line; p_lifespan := ls; p_comment := comment |}
      end
  end.

Definition mk_packet_old (line err_msg comment : str) : result packet :=
  do f <- mk_frame (from 4 line);
  do ls <- pkt_lifespan f;
  match err_msg with
  | _ :: _ => Raise PacketInvalid
  | [] => Ok {| p_frame := f; p_rssi := firstn 3 line; p_lifespan := ls; p_comment := comment |}
  end.

(* Packet.from_file(dtm_str, line); [dtm_ok] = datetime.fromisoformat(dtm_str) succeeds *)
Definition from_file (dtm_ok : bool) (line : str) : result packet :=
  let '(frame, err, comment) := pkt_partition line in
  match frame with
  | [] => Raise ValueError
  | _ => if dtm_ok then mk_packet frame err comment else Raise ValueError
  end.

(* _ReadTransport._frame_read: what happens to one line *)
Inductive outcome := Deliver (p : packet) | Drop | Escape (e : exn).

Definition frame_read (dtm_ok : bool) (line : str) : outcome :=
  match strip line with
  | [] => Drop
  | _ =>
      match from_file dtm_ok line with
      | Ok p => Deliver p
      | Raise ValueError => Drop
      | Raise PacketInvalid => Drop
      | Raise e => Escape e
      end
  end.

(* a reader loop: an escaping exception ends the loop (FileTransport: connection_lost;
   PortTransport: the rest of the read is abandoned) *)
Fixpoint read_all (lines : list (bool * str)) : list packet * option exn :=
  match lines with
  | [] => ([], None)
  | (ok, l) :: t =>
      match frame_read ok l with
      | Deliver p => let '(ps, e) := read_all t in (p :: ps, e)
      | Drop => read_all t
      | Escape e => ([], Some e)
      end
  end.

Definition delivered_of (x : bool * str) : option packet :=
  match frame_read (fst x) (snd x) with Deliver p => Some p | _ => None end.
Fixpoint filter_map {A B} (f : A -> option B) (l : list A) : list B :=
  match l with [] => [] | x :: t => match f x with Some y => y :: filter_map f t | None => filter_map f t end end.

(* ---------------------------------------------------------------- the serial byte stream *)
(* bytes are 0..255 *)
Definition CR : Z := 13.
Definition LF : Z := 10.

Definition cons_first (x : Z) (r : list (list Z) * list Z) : list (list Z) * list Z :=
  match r with
  | ([], t) => ([], x :: t)
  | (l :: ls, t) => ((x :: l) :: ls, t)
  end.

(* bytes.split(b"\r\n"): (complete lines, unterminated tail) *)
Fixpoint bsplit (s : list Z) : list (list Z) * list Z :=
  match s with
  | [] => ([], [])
  | x :: s' =>
      match s' with
      | y :: s'' =>
          if (x =? CR) && (y =? LF)
          then let (ls, t) := bsplit s'' in ([] :: ls, t)
          else cons_first x (bsplit s')
      | [] => ([], [x])
      end
  end.

(* PortTransport._read_ready.bytes_read: buffer -> data -> (new buffer, lines) *)
Definition feed (buf data : list Z) : list Z * list (list Z) :=
  let (ls, t) := bsplit (buf ++ data) in (t, ls).

Fixpoint feed_all (buf : list Z) (chunks : list (list Z)) : list Z * list (list Z) :=
  match chunks with
  | [] => (buf, [])
  | c :: cs => let (b1, l1) := feed buf c in
               let (b2, l2) := feed_all b1 cs in (b2, l1 ++ l2)
  end.

(* transport._str: strict ASCII decode (else ""), keep string.printable *)
Definition printable_byte (b : Z) : bool :=
  ((32 <=? b) && (b <=? 126)) || ((9 <=? b) && (b <=? 13)).
Definition str_of_bytes (line : list Z) : str :=
  if forallb (fun b => (0 <=? b) && (b <? 128)) line
  then map (fun b => ascii_of_nat (Z.to_nat b)) (filter printable_byte line)
  else [].

(* re.sub("\r\r", "\r", s): non-overlapping, left to right *)
Fixpoint sub_crcr (s : str) : str :=
  match s with
  | a :: ((b :: t) as rest) =>
      if Ascii.eqb a "013"%char && Ascii.eqb b "013"%char then "013"%char :: sub_crcr t
      else a :: sub_crcr rest
  | _ => s
  end.

Definition ends_with (suffix s : str) : bool :=
  str_eqb (skipn (length s - length suffix) s) suffix && Nat.leb (length suffix) (length s).

(* transport._normalise *)
Definition normalise (line0 : str) : str :=
  let line := sub_crcr line0 in
  let line :=
    if str_eqb (firstn 4 line) (lit " 000") then skipn 1 line
    else if existsb (str_eqb (firstn 2 line)) [lit " I"; lit "RQ"; lit "RP"; lit " W"] then []
    else line in
  let mid := slice 10 14 line in
  let line :=
    if (str_eqb mid (lit " 08:") || str_eqb mid (lit " 31:")) && ends_with (lit "* Checksum error") line
    then firstn (length line - 17) line ++ lit " # Checksum error (ignored)"
    else line in
  strip line.

(* the lines (already normalised text) a serial port hands to _frame_read for a sequence of reads;
   each complete line keeps its CR LF, as the code does (line + b"\r\n") *)
Definition serial_lines (chunks : list (list Z)) : list str :=
  map (fun l => normalise (str_of_bytes (l ++ [CR; LF]))) (snd (feed_all [] chunks)).

(* ---------------------------------------------------------------- commands (C02) *)
Definition join_sp (parts : list str) : str :=
  match parts with [] => [] | p :: ps => p ++ flat_map (fun x => sp ++ x) ps end.

(* Command._from_attrs: the frame text it assembles, then Command(frame) = Frame.__init__ *)
Definition norm_verb (v : str) : str :=
  if str_eqb v (lit "I") then lit " I" else if str_eqb v (lit "W") then lit " W" else v.

Definition attrs_text (verb seqn x0 x1 x2 code payload : str) : str :=
  join_sp [norm_verb verb; seqn; x0; x1; x2; code; decN 3 (Z.of_nat (length payload) / 2); payload].

Definition cmd_from_attrs (verb seqn x0 x1 x2 code payload : str) : result frame :=
  match pkt_addrs x0 x1 x2 with
  | Raise e => Raise e
  | Ok _ => mk_frame (attrs_text verb seqn x0 x1 x2 code payload)
  end.

(* Command.from_cli after tokenisation (cmd_str.upper().split(); verb, [seqn], ..., code, payload popped): the address tokens that are left are
   completed to the three address fields -- one token: a request from the gateway's placeholder to that device (the test `verb == " I"` of the
   source can never hold for a token, which has no space; it is modelled as written); two equal tokens: a device announcing itself; two
   different ones: source and destination; three: taken as they are.  The payload is cut to 48 characters. *)
Definition HGI_ADDR : str := lit "18:000730".
Definition cli_addrs (verb : str) (parts : list str) : option (str * str * str) :=
  match parts with
  | [a] => if str_eqb verb (lit " I") then Some (NON_DEV, NON_DEV, a) else Some (HGI_ADDR, a, NON_DEV)
  | [a; b] => if str_eqb a b then Some (a, NON_DEV, b) else Some (a, b, NON_DEV)
  | [a; b; c] => Some (a, b, c)
  | _ => None
  end.
Definition cmd_from_cli (verb seqn : str) (parts : list str) (code payload : str) : result frame :=
  match cli_addrs verb parts with
  | None => Raise PacketInvalid      (* CommandInvalid *)
  | Some (x0, x1, x2) => cmd_from_attrs verb seqn x0 x1 x2 code (firstn 48 payload)
  end.

(* ... and the tokenisation itself: toks = cmd_str.upper().split().  The second token is the sequence number unless it looks like a device id
   (DEVICE_ID_REGEX.ANY = ^[0-9]{2}:[0-9]{6}$ -- so a frame whose FIRST address is the null address needs its sequence number spelt out);
   the last two tokens are code and payload *)
Definition is_dev_id (s : str) : bool :=
  match s with
  | [a; b; c; d; e; f; g; h; i] =>
      is_digit a && is_digit b && Ascii.eqb c ":"%char && is_digit d && is_digit e && is_digit f && is_digit g && is_digit h && is_digit i
  | _ => false
  end.
Definition cmd_from_cli_toks (toks : list str) : result frame :=
  if (length toks <? 4)%nat then Raise PacketInvalid      (* CommandInvalid: not parseable *)
  else match toks with
       | verb :: first :: rest =>
           let '(seqn, r2) := if is_dev_id first then (lit "---", first :: rest) else (first, rest) in
           match rev r2 with
           | payload :: code :: parts_rev => cmd_from_cli verb seqn (rev parts_rev) code payload
           | _ => Raise OtherExn                           (* IndexError: pop from an empty list *)
           end
       | _ => Raise PacketInvalid
       end.

(* ---------------------------------------------------------------- the packet log (C02) *)
(* PKT_LOG_FMT + BANDW_SUFFIX as _Logger.makeRecord fills them:
   asctime ++ " RSS frame" ++ [" < msg"] ++ [" * err"] ++ [" # comment"] *)
Definition opt_part (tag : string) (s : str) : str := match s with [] => [] | _ => lit tag ++ s end.
Definition log_line (asctime rssi frame msg err comment : str) : str :=
  asctime ++ sp ++ rssi ++ sp ++ frame ++ opt_part " < " msg ++ opt_part " * " err ++ opt_part " # " comment.

(* FileTransport._reader on one line of a log file: (timestamp text, outcome) *)
Definition replay_line (dtm_ok : bool) (line0 : str) : option (str * outcome) :=
  let line := strip line0 in
  match line with
  | [] => None
  | c :: _ => if Ascii.eqb c "#"%char then None
              else Some (firstn 26 line, frame_read dtm_ok (skipn 27 line))
  end.
