(* C08 -- Transmission discipline.  Statements only. *)
From Coq Require Import ZArith List Bool Arith.
From RV Require Import GenConsts M_Qos P_Qos P_QosQueue P_QosSlot.
Import ListNotations.
Open Scope Z_scope.

(* in EVERY reachable world (any events, tie policy, transport behaviour, number of steps):
   transmit count <= limit, a current command has limit >= 1, back-off exponent <= 3 *)
Theorem C08_tx_count_le_limit : forall cmds plan lifo fuel evs,
  Inv (fst (run cmds plan lifo fuel (world0 evs))).
Proof. exact reachable_inv. Qed.

(* the limit is 1 + min(max_retries, MAX_RETRY_LIMIT), with MAX_RETRY_LIMIT re-read from the source *)
Theorem C08_limit_formula : forall cmds w k w1,
  snd (dequeue w (que (cx w))) = Some k -> w1 = fst (dequeue w (que (cx w))) ->
  txl (cx (set_cur w1 (Some k) (Some k) 0 (S (Nat.min (max_retries (cmds k)) MAX_RETRY)))) =
  S (Nat.min (max_retries (cmds k)) MAX_RETRY).
Proof. exact limit_formula. Qed.

(* the wait armed for an attempt is base * 2^m with m <= 3: doubling, at most 8x *)
Theorem C08_backoff_delay_bound : forall w t w',
  Inv w -> exp_start w t = Ok w' -> aget EDone t (exps w) = ENotStarted ->
  exists m, (m <= MULT_CAP)%nat /\
            timers w' = timers w ++ [(now w + (match state (cx w) with WantEcho => ECHO_TO | _ => RPLY_TO end) * 2 ^ Z.of_nat m, seq w, CbExpTimer t)].
Proof. exact backoff_delay_bound. Qed.

(* exactly 1 + min(max_retries, 3) transmissions when nothing answers and the timeout allows it *)
Theorem C08_retry_ladder :
  fst (fst (simulate (cmd_a 5 20000000) silent false 5000 [(0, ConnMade); (15625, Call 0%nat)])) =
  [Write 15625 0%nat; Write (15625 + ECHO_TO) 0%nat; Write (15625 + 3 * ECHO_TO) 0%nat; Write (15625 + 7 * ECHO_TO) 0%nat;
   Done (15625 + 15 * ECHO_TO) 0%nat ErrSendFailed].
Proof. exact retry_ladder. Qed.

(* "the wait doubling (up to 8x) after each unanswered attempt" holds ACROSS commands: five single-attempt commands 10 s apart, all unanswered *)
Theorem C08_backoff_across_commands :
  fst (fst (simulate (cmd_a 0 20000000) silent false 5000
              [(0, ConnMade); (15625, Call 0%nat); (10015625, Call 1%nat); (20015625, Call 2%nat); (30015625, Call 3%nat); (40015625, Call 4%nat)])) =
  [Write 15625 0%nat; Done (15625 + ECHO_TO) 0%nat ErrSendFailed;
   Write 10015625 1%nat; Done (10015625 + 2 * ECHO_TO) 1%nat ErrSendFailed;
   Write 20015625 2%nat; Done (20015625 + 4 * ECHO_TO) 2%nat ErrSendFailed;
   Write 30015625 3%nat; Done (30015625 + 8 * ECHO_TO) 3%nat ErrSendFailed;
   Write 40015625 4%nat; Done (40015625 + 8 * ECHO_TO) 4%nat ErrSendFailed].
Proof. exact backoff_across_commands. Qed.

(* "never transmitted after its caller was answered" is false of the code (KNOWN_FINDINGS.json) *)
Theorem C08_tx_after_answer_refuted :
  exists evs, let tr := fst (fst (simulate (cmd_a 0 20000000) slow false 5000 evs)) in
              match done_time 0%nat tr, write_times 0%nat tr with
              | Some td, tw :: _ => td <? tw
              | _, _ => false end = true.
Proof. exact tx_after_answer_reachable. Qed.

(* priority, then first come first served: in EVERY reachable world (any events, tie policy, transport behaviour, number of steps, assertion
   crashes included) the send buffer is in (priority, arrival stamp) order and no two entries share a stamp ... *)
Theorem C08_queue_ordered : forall cmds plan lifo fuel evs, Qinv (fst (run cmds plan lifo fuel (world0 evs))).
Proof. exact queue_ordered. Qed.

(* ... and the command that starts next is the first entry whose caller has not gone: everything still waiting behind it has a worse
   priority, or the same priority and a later arrival *)
Theorem C08_next_is_least_pending : forall w k, Qinv w -> snd (dequeue w (que (cx w))) = Some k ->
  exists pre p s rest, que (cx w) = pre ++ (p, s, k) :: rest /\
    Forall (fun e => fut_done (fut_of w (snd e)) = true) pre /\ fut_done (fut_of w k) = false /\
    Forall (qlt (p, s, k)) rest.
Proof. exact next_is_least_pending. Qed.

(* a computed run: a default-priority command arriving after a low-priority one overtakes it *)
Theorem C08_priority_then_arrival_witness :
  write_order (fst (fst (simulate cmd_p echo_later false 5000
     [(0, ConnMade); (15625, Call 0%nat); (31250, Call 1%nat); (46875, Call 2%nat)]))) = [0%nat; 2%nat; 1%nat].
Proof. exact priority_then_arrival. Qed.

(* the caps are the ones the property states: 1 + min(max_retries, 3) transmissions, waits doubling up to 8x *)
Theorem C08_caps_as_stated : MAX_RETRY = 3%nat /\ 2 ^ Z.of_nat MULT_CAP = 8.
Proof. split; reflexivity. Qed.

(* ONE IN FLIGHT: in EVERY reachable world (any events, tie policy, transport behaviour, number of steps, assertion crashes included), while the
   command holding the FSM's slot has not had its caller answered (result, error or cancellation), NO next step of the machine gives the slot
   to another command, and the command being transmitted / awaited is the holder or nothing ... *)
Theorem C08_one_in_flight : forall cmds plan lifo fuel evs w' f,
  let w := fst (run cmds plan lifo fuel (world0 evs)) in
  curfut (cx w) = Some f -> fut_done (fut_of w f) = false -> step cmds plan lifo w = Some w' ->
  curfut (cx w') = Some f /\ (cur (cx w') = None \/ cur (cx w') = Some f).
Proof. exact one_in_flight. Qed.
(* ... in every reachable world the command being worked on is the slot's holder ... *)
Theorem C08_current_is_holder : forall cmds plan lifo fuel evs,
  let w := fst (run cmds plan lifo fuel (world0 evs)) in cur (cx w) = None \/ cur (cx w) = curfut (cx w).
Proof. exact current_is_holder. Qed.
(* ... the premises are met (command 0 unanswered in the slot, command 1 waiting in the buffer, the machine has a next step), and the slot
   does change hands once the holder has been answered *)
Theorem C08_one_in_flight_nonvacuous :
  let w := fst (run two_cmds echo_soon false 22 (world0 [(0, ConnMade); (1000, Call 0%nat); (2000, Call 1%nat)])) in
  curfut (cx w) = Some 0%nat /\ fut_done (fut_of w 0%nat) = false /\ (exists w', step two_cmds echo_soon false w = Some w') /\
  length (que (cx w)) = 1%nat.
Proof. exact one_in_flight_nonvacuous. Qed.
Theorem C08_slot_changes_hands : exists a b, (a < b)%nat /\ holder_after a = Some 0%nat /\ holder_after b = Some 1%nat.
Proof. exact slot_changes_hands. Qed.
