(* M_SyncAvoid -- transport.avoid_system_syncs: a write is held while the start of a controller's sync cycle, as announced by its last I|1F09
   (heard at `dtm`, `remaining` seconds ahead: due = dtm + remaining), is imminent.  Times in microseconds; the window constants are re-read
   from the source (GenConsts).  Definitions only. *)
From Coq Require Import ZArith List Bool.
From RV Require Import GenConsts.
Import ListNotations.
Open Scope Z_scope.

(* is_imminent(p): SYNC_WINDOW_LOWER < (due - now) < SYNC_WINDOW_UPPER *)
Definition imminent (due now : Z) : bool := (SYNC_WINDOW_LOWER_us <? due - now) && (due - now <? SYNC_WINDOW_UPPER_us).
(* the slip: "no lower bound" *)
Definition imminent_one_sided (due now : Z) : bool := due - now <? SYNC_WINDOW_UPPER_us.

Definition any_imminent (dues : list Z) (now : Z) : bool := existsb (fun d => imminent d now) dues.

(* while any(is_imminent(p) ...): await sleep(SYNC_WAIT_SHORT) -- the instant the loop is left (fuel = iterations allowed) *)
Fixpoint hold (fuel : nat) (dues : list Z) (now : Z) : Z :=
  match fuel with
  | O => now
  | S f => if any_imminent dues now then hold f dues (now + SYNC_WAIT_SHORT_us) else now
  end.
