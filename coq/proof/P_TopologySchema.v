(* the zone keys of the printed schema against the validator's key regex (regenerated from ramses_rf/schemas.py) *)
From Coq Require Import ZArith List Bool Arith Lia.
From RV Require Import Py PyStr Regex GenRegex M_Topology P_Topology.
Import ListNotations.
Local Open Scope nat_scope.

(* the key under which zone i is printed: zone.idx, two upper-case hex digits *)
Definition zone_key (i : nat) : str := hexN 2 (Z.of_nat i).
Definition key_ok (i : nat) : bool := matches ZONE_IDX_RE (zone_key i).

Definition LIMIT : nat := Z.to_nat MAX_ZONES_MAX.   (* the largest max_zones the configuration validator admits *)

Lemma key_ok_table : forallb (fun i => implb (i <? LIMIT) (key_ok i)) (seq 0 256) = true.
Proof. vm_compute. reflexivity. Qed.

Lemma key_ok_below_limit : forall i, i < LIMIT -> i < 256 -> key_ok i = true.
Proof.
  intros i Hl Hi. pose proof key_ok_table as T. rewrite forallb_forall in T.
  specialize (T i). cbv beta in T. assert (Hin : In i (seq 0 256)) by (apply in_seq; lia).
  apply T in Hin. apply Nat.ltb_lt in Hl. rewrite Hl in Hin. exact Hin.
Qed.

Lemma limit_small : LIMIT <= 256.
Proof. vm_compute. repeat constructor. Qed.

(* for every max_zones the configuration validator admits, every zone that can ever exist prints a key the
   schema validator accepts *)
Theorem zone_keys_valid : forall ops mz z, mz <= LIMIT ->
  In z (zones (fst (run (init mz) ops))) -> key_ok (snd z) = true.
Proof.
  intros ops mz z Hmz Hz. pose proof (zones_bounded ops mz z Hz) as Hb. pose proof limit_small.
  apply key_ok_below_limit; lia.
Qed.

(* the zones of one controller are distinct and below max_zones, so there are at most max_zones of them: the
   validator's limit on the size of the zones dict (regenerated) is respected for every admitted max_zones *)
Lemma step_nodup : forall s o s' r, NoDup (zones s) -> step s o = (s', r) -> NoDup (zones s').
Proof.
  assert (G : forall s c i s', NoDup (zones s) -> get_htg_zone s c i = Some s' -> NoDup (zones s')).
  { intros s c i s' Hn H. unfold get_htg_zone in H. destruct (has_zone s c i) eqn:Eh; [injection H as <-; exact Hn|].
    destruct (i <? max_zones s); [|discriminate]. injection H as <-. cbn. constructor; [|exact Hn].
    intros Hin. unfold has_zone in Eh. assert (existsb (fun z => (fst z =? c) && (snd z =? i)) (zones s) = true).
    { apply existsb_exists. exists (c, i). split; [exact Hin|]. cbn. rewrite !Nat.eqb_refl. reflexivity. }
    congruence. }
  intros s [d t g k b|c i] s' r Hn H.
  - destruct (step_set_parent s d t g k b s' r H) as (s1 & x & Er & Hcase).
    assert (Hn1 : NoDup (zones s1)).
    { unfold resolve in Er. destruct g as [c|c i|c|u].
      - destruct (match t with TUfc => CFF | _ => k end) as [|i| | | |]; try (injection Er as <- _; exact Hn).
        + destruct (i <? max_zones s); [|injection Er as <- _; exact Hn].
          destruct (get_htg_zone s c i) as [s2|] eqn:Eg; injection Er as <- _; [exact (G s c i s2 Hn Eg) | exact Hn].
        + injection Er as <- _. unfold get_dhw_zone. destruct (has_dhw s c); exact Hn.
        + injection Er as <- _. unfold get_dhw_zone. destruct (has_dhw s c); exact Hn.
      - injection Er as <- _; exact Hn.
      - injection Er as <- _; exact Hn.
      - destruct (match t with TUfc => CFF | _ => k end); injection Er as <- _; exact Hn. }
    destruct Hcase as [[_ ->]|(_ & p & k1 & s2 & _ & _ & _ & _ & _ & Ha & ->)]; [exact Hn1|].
    destruct (add_child_frame _ _ _ _ _ _ _ _ Ha) as (_ & Fz & _). cbn [commit zones]. rewrite Fz. exact Hn1.
  - cbn [step] in H. destruct (get_htg_zone s c i) as [s1|] eqn:Eg; injection H as <- _; [exact (G s c i s1 Hn Eg) | exact Hn].
Qed.

Lemma run_nodup : forall ops s, NoDup (zones s) -> NoDup (zones (fst (run s ops))).
Proof.
  induction ops as [|o ops IH]; intros s Hn; [exact Hn|].
  rewrite run_cons. cbn [fst]. apply IH. destruct (step s o) as [s1 r] eqn:E. exact (step_nodup s o s1 r Hn E).
Qed.

Definition zones_of (s : st) (c : nat) : list nat := map snd (filter (fun z => fst z =? c) (zones s)).

Lemma nodup_zones_of : forall l c, NoDup l -> NoDup (map snd (filter (fun z : nat * nat => fst z =? c) l)).
Proof.
  induction l as [|[a b] l IH]; intros c Hn; cbn; [constructor|].
  inversion Hn as [|x y Hnin Hn']; subst. destruct (a =? c) eqn:E; [|apply IH; exact Hn'].
  cbn. constructor; [|apply IH; exact Hn'].
  intros Hin. apply in_map_iff in Hin as ([a' b'] & Hb & Hf). cbn in Hb; subst b'.
  apply filter_In in Hf as [Hf1 Hf2]. cbn in Hf2. apply Nat.eqb_eq in E, Hf2. subst. contradiction.
Qed.

Theorem zones_count : forall ops mz c, length (zones_of (fst (run (init mz) ops)) c) <= mz.
Proof.
  intros ops mz c. set (s := fst (run (init mz) ops)).
  assert (Hn : NoDup (zones_of s c)) by (apply nodup_zones_of, run_nodup; constructor).
  assert (Hi : incl (zones_of s c) (seq 0 mz)).
  { intros i Hin. apply in_map_iff in Hin as ([a b] & Hb & Hf). cbn in Hb; subst b. apply filter_In in Hf as [Hf _].
    pose proof (zones_bounded ops mz (a, i) Hf) as Hb. cbn in Hb. apply in_seq. lia. }
  pose proof (NoDup_incl_length Hn Hi) as Hl. rewrite seq_length in Hl. exact Hl.
Qed.

Theorem zones_dict_fits : forall ops mz c, mz <= LIMIT ->
  (LIMIT <=? Z.to_nat ZONES_MAX_LEN) = true /\ length (zones_of (fst (run (init mz) ops)) c) <= Z.to_nat ZONES_MAX_LEN.
Proof.
  intros ops mz c Hmz. assert (Hl : (LIMIT <=? Z.to_nat ZONES_MAX_LEN) = true) by (vm_compute; reflexivity).
  split; [exact Hl|]. apply Nat.leb_le in Hl. pose proof (zones_count ops mz c). lia.
Qed.

(* regression witness: with the key regex ^0[0-9AB]$ (before the repair) zone 0C, which max_zones = 16 allows, was rejected *)
Definition OLD_ZONE_IDX_RE : re := Cat (Cls [(48,48)]%nat) (Cls [(48,57); (65,65); (66,66)]%nat).
Theorem zone_keys_old_refuted :
  exists ops z, In z (zones (fst (run (init 16) ops))) /\ matches OLD_ZONE_IDX_RE (zone_key (snd z)) = false
                /\ key_ok (snd z) = true.
Proof.
  exists [GetZone 1 12], (1, 12). split; [left; reflexivity | split; vm_compute; reflexivity].
Qed.
