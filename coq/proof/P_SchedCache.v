(* P_SchedCache: whatever fails, the zone never believes in a schedule the controller does not hold while its version says "current". *)
From Coq Require Import ZArith List Bool Lia.
From RV Require Import M_SchedCache.
Import ListNotations.
Open Scope Z_scope.

(* the readings of the change counter never run ahead of the controller; and when the zone's version says its cached schedule is current
   (the controller's counter has not moved past it), the cached schedule IS the controller's *)
Definition Inv (s : st) : Prop :=
  0 <= sver s /\ sver s <= cver s /\ gver s <= cver s /\ tver s <= cver s /\ csched s < nextid s /\
  (forall c, cache s = Some c -> cver s <= sver s -> c = csched s).

Lemma version_inv force c ios s s' did ios' : Inv s -> version force c ios s = Some (s', did, ios') ->
  Inv s' /\ cache s' = cache s /\ sver s' = sver s /\ csched s' = csched s /\ cver s' = cver s /\ nextid s' = nextid s /\
  (did = true -> gver s' = cver s) /\ (force = true -> did = true).
Proof.
  intros (A & B & C & D & E & F). unfold version.
  destruct (negb force && c) eqn:Ec.
  - intros [= <- <- <-]. unfold Inv. cbn. split; [|repeat split; try lia; intros; try discriminate].
    + repeat split; try lia. exact F.
    + subst force. discriminate.
  - assert (G : forall x, Some (mkSt (cache s) (sver s) (cver s) (cver s) (csched s) (cver s) (nextid s), true, x) = Some (s', did, ios') ->
                Inv s' /\ cache s' = cache s /\ sver s' = sver s /\ csched s' = csched s /\ cver s' = cver s /\ nextid s' = nextid s /\
                (did = true -> gver s' = cver s) /\ (force = true -> did = true)).
    { intros x [= <- <- <-]. unfold Inv. cbn. split; [|repeat split; try lia]. repeat split; try lia. exact F. }
    destruct ios as [|[|] r]; [apply G|apply G|discriminate].
Qed.

Lemma is_dated_inv force c ios s s' dated did ios' : Inv s -> is_dated force c ios s = Some (s', dated, did, ios') ->
  Inv s' /\ cache s' = cache s /\ sver s' = sver s /\ csched s' = csched s /\ cver s' = cver s /\ nextid s' = nextid s /\
  (did = true -> gver s' = cver s) /\ (dated = false -> force = true -> cver s <= sver s).
Proof.
  intros I. unfold is_dated.
  destruct ((negb force && (sver s =? 0)) || ((0 <? gver s) && (sver s <? gver s))) eqn:E1.
  - intros [= <- <- <- <-]. split; [exact I|]. repeat split; try reflexivity; intros; discriminate.
  - destruct (version false c ios s) as [[[s1 d1] ios1]|] eqn:V1; [|discriminate].
    destruct (version_inv _ _ _ _ _ _ _ I V1) as (I1 & Q1 & Q2 & Q3 & Q4 & Q5 & Q6 & _).
    destruct (d1 || (sver s1 <? gver s1)) eqn:E2.
    + intros [= <- <- <- <-]. split; [exact I1|]. repeat split; try assumption.
      intros Hd Hf. apply Z.ltb_ge in Hd. apply orb_prop in E2 as [->|E2]; [rewrite Q6 in Hd by reflexivity; lia|].
      apply Z.ltb_lt in E2. lia.
    + apply orb_false_elim in E2 as [-> E2].
      destruct force.
      * destruct (version true false ios1 s1) as [[[s2 d2] ios2]|] eqn:V2; [|discriminate].
        destruct (version_inv _ _ _ _ _ _ _ I1 V2) as (I2 & R1 & R2 & R3 & R4 & R5 & R6 & R7).
        intros [= <- <- <- <-]. split; [exact I2|]. repeat split; try congruence.
        -- intros Hd. rewrite R6 by exact Hd. congruence.
        -- intros Hd _. apply Z.ltb_ge in Hd. rewrite R6 in Hd by (apply R7; reflexivity). lia.
      * intros [= <- <- <- <-]. split; [exact I1|]. repeat split; try assumption; intros; discriminate.
Qed.

Lemma Inv_set_cache_none s v : Inv s -> v = sver s -> Inv (set_cache s None v).
Proof. intros (A & B & C & D & E & F) ->. unfold Inv. cbn. repeat split; try lia. discriminate. Qed.

(* a fetch, whatever fails in it, keeps the invariant and leaves the controller alone; a FORCED fetch that returns, returns the controller's
   schedule *)
Theorem fetch_inv force c ios g s : Inv s ->
  Inv (fst (fetch force c ios g s)) /\ csched (fst (fetch force c ios g s)) = csched s /\ cver (fst (fetch force c ios g s)) = cver s /\
  (forall r, snd (fetch force c ios g s) = Returned r -> force = true -> r = Some (csched s)).
Proof.
  intros I. unfold fetch.
  destruct (is_dated force c ios s) as [[[[s1 dated] did] ios1]|] eqn:D; [|cbn; split; [exact I|]; repeat split; intros; discriminate].
  destruct (is_dated_inv _ _ _ _ _ _ _ _ I D) as (I1 & Q1 & Q2 & Q3 & Q4 & Q5 & Q6 & Q7).
  set (s2 := if dated then set_cache s1 None (sver s1) else s1).
  assert (I2 : Inv s2) by (subst s2; destruct dated; [apply Inv_set_cache_none; [exact I1|reflexivity]|exact I1]).
  assert (E2 : sver s2 = sver s /\ csched s2 = csched s /\ cver s2 = cver s /\ nextid s2 = nextid s /\ gver s2 = gver s1)
    by (subst s2; destruct dated; cbn; repeat split; congruence).
  destruct E2 as (E21 & E22 & E23 & E24 & E25).
  destruct (cache s2) as [cc|] eqn:C2.
  - cbn. split; [exact I2|]. repeat split; try assumption. intros r [= <-] Hf.
    assert (dated = false) as -> by (destruct dated; [subst s2; cbn in C2; discriminate|reflexivity]).
    destruct I2 as (_ & _ & _ & _ & _ & F2). f_equal. rewrite <- E22. apply (F2 cc C2). specialize (Q7 eq_refl Hf). lia.
  - destruct (if did then Some (s2, true, ios1) else version true false ios1 s2) as [[[s3 d3] ios3]|] eqn:V;
      [|cbn; split; [exact I2|]; repeat split; try assumption; intros; discriminate].
    assert (P3 : Inv s3 /\ sver s3 = sver s2 /\ csched s3 = csched s2 /\ cver s3 = cver s2 /\ nextid s3 = nextid s2 /\ gver s3 = cver s).
    { destruct did.
      - injection V as V' _ _. subst s3. split; [exact I2|]. repeat split; try reflexivity. rewrite E25. apply Q6. reflexivity.
      - destruct (version_inv _ _ _ _ _ _ _ I2 V) as (I3 & _ & R2 & R3 & R4 & R5 & R6 & R7). split; [exact I3|]. repeat split; try assumption.
        rewrite R6 by (apply R7; reflexivity). exact E23. }
    destruct P3 as (I3 & R2 & R3 & R4 & R5 & R6).
    destruct g; cbn.
    + split; [|repeat split; try congruence; intros r [= <-] _; congruence].
      destruct I3 as (A & B & C & Dd & E & F). unfold Inv. cbn. repeat split; try lia; try (intros c0 [= <-] _; reflexivity).
    + split; [exact I3|]. repeat split; try congruence; intros; discriminate.
Qed.

(* a write (the code as it is: the cache is assigned last), whatever fails in it, keeps the invariant *)
Theorem write_inv w v s : Inv s -> Inv (fst (write false w v s)).
Proof.
  intros (A & B & C & D & E & F). unfold write. cbn [negb]. destruct w.
  - unfold version. cbn. destruct v; cbn.
    + unfold Inv. cbn. repeat split; try lia; try (intros c [= <-] _; reflexivity).
    + unfold Inv. cbn. repeat split; try lia; try (intros c Hc Hv; lia).
  - unfold Inv. cbn. repeat split; try lia; try exact F.
  - unfold Inv. cbn. repeat split; try lia; try (intros c Hc Hv; lia).
Qed.

Theorem step_inv s o : Inv s -> Inv (fst (step false s o)).
Proof.
  intros I. destruct o as [f c ios g|w v| | |]; cbn [step].
  - apply fetch_inv, I.
  - apply write_inv, I.
  - destruct I as (A & B & C & D & E & F). unfold Inv. cbn. repeat split; try lia; try (intros c Hc Hv; lia).
  - destruct I as (A & B & C & D & E & F). unfold Inv. cbn. repeat split; try lia; try (intros c Hc Hv; lia).
  - destruct I as (A & B & C & D & E & F). unfold Inv. cbn. repeat split; try lia; try exact F.
Qed.

Theorem run_inv ops : forall s, Inv s -> Inv (fst (run false s ops)).
Proof.
  induction ops as [|o ops IH]; intros s I; [exact I|]. cbn [run].
  pose proof (step_inv s o I) as I1. destruct (step false s o) as [s1 x]. cbn in I1.
  specialize (IH s1 I1). destruct (run false s1 ops) as [s2 xs]. exact IH.
Qed.

Lemma Inv_init : Inv init.
Proof. unfold Inv, init. cbn. repeat split; try lia; try discriminate. Qed.

(* AFTER ANY HISTORY of fetches and writes failing wherever they like, changes on the controller and overheard counters: a forced fetch that
   returns, returns the schedule the controller holds *)
Theorem forced_fetch_is_current ops c ios g r :
  let s := fst (run false init ops) in
  snd (fetch true c ios g s) = Returned r -> r = Some (csched s).
Proof.
  intros s H. pose proof (run_inv ops init Inv_init) as I. fold s in I.
  destruct (fetch_inv true c ios g s I) as (_ & _ & _ & G). exact (G r H eq_refl).
Qed.

(* the slip: the cache assigned BEFORE the fragments are sent.  A fetch, a write that fails early, a forced fetch: the zone reports the schedule
   that never reached the controller; the code as it is reports the controller's *)
Definition slip_ops : list op := [OFetch false false [] true; OWrite WFailsEarly true; OFetch true false [] true].
Theorem early_assignment_refuted :
  snd (run true init slip_ops) = [Returned (Some 1); Raised; Returned (Some 2)] /\ csched (fst (run true init slip_ops)) = 1 /\
  snd (run false init slip_ops) = [Returned (Some 1); Raised; Returned (Some 1)].
Proof. repeat split; vm_compute; reflexivity. Qed.
