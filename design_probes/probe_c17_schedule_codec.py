import logging, random
logging.disable(logging.CRITICAL)
from ramses_rf.system.schedule import full_sched_to_fragz, fragz_to_full_sched, SCH_SCHEDULE_ZON_OUTER, SCH_SCHEDULE_DHW_OUTER
rnd=random.Random(11)
def sched(idx, dhw=False, grid=50, ndays=7, maxsp=6):
    days=[]
    for d in range(ndays):
        n=rnd.randint(1,maxsp); times=sorted(rnd.sample(range(288),n))
        sps=[]
        for t in times:
            tod=f"{t*5//60:02d}:{t*5%60:02d}"
            if dhw: sps.append({"time_of_day":tod,"enabled":rnd.random()<0.5})
            else: sps.append({"time_of_day":tod,"heat_setpoint":rnd.randrange(500,3501,grid)/100})
        days.append({"day_of_week":d,"switchpoints":sps})
    return {"zone_idx":idx,"schedule":days}
bad=0; maxfrag=0; nfr=[]
for i in range(3000):
    dhw = i%5==0
    s=sched("00" if dhw else f"{rnd.randint(0,11):02X}", dhw=dhw, grid=rnd.choice([50,10,1]), maxsp=rnd.choice([1,3,6,12]))
    (SCH_SCHEDULE_ZON_OUTER if not dhw else (lambda x:x))(s)
    fr=full_sched_to_fragz(s); maxfrag=max(maxfrag,max(len(f) for f in fr)); nfr.append(len(fr))
    back=fragz_to_full_sched(fr)
    if back!=s:
        bad+=1
        if bad<=3:
            for d1,d2 in zip(s["schedule"],back["schedule"]):
                for a,b in zip(d1["switchpoints"],d2["switchpoints"]):
                    if a!=b: print("DIFF",a,b); break
print("bad",bad,"maxfrag",maxfrag,"frags max",max(nfr))
# grid=50 only
bad=0
for i in range(2000):
    s=sched(f"{rnd.randint(0,11):02X}", grid=50, maxsp=8)
    if fragz_to_full_sched(full_sched_to_fragz(s))!=s: bad+=1
print("bad on 0.5 grid",bad)
# fewer than 7 days / days starting later
s={"zone_idx":"01","schedule":[{"day_of_week":2,"switchpoints":[{"time_of_day":"06:00","heat_setpoint":20.0}]}]}
print(SCH_SCHEDULE_ZON_OUTER(s) is not None, fragz_to_full_sched(full_sched_to_fragz(s)))
