"""C13 -- no traffic can break the gateway: views always answer, the engine keeps running.

Engine automaton in Coq (M_Engine) tied to the real Gateway._pause/_resume/get_state/_restore_cached_packets
by running operation sequences on both; the views, for which there is no model, are explored on the
implementation over histories derived from the recorded systems (delete/duplicate/reorder/splice/mutate)."""

from __future__ import annotations

import asyncio
import datetime as _dt
import itertools
import logging
import re

from .. import common, gw
from ..common import Ctx

THEOREMS = ["C13_snapshot_leaves_engine", "C13_snapshots_leave_engine", "C13_still_receiving", "C13_snapshot_when_paused",
            "C13_engine_invariant", "C13_never_stuck", "C13_unguarded_refuted", "C13_guarded_repaired", "C13_merged_guard_refuted", "C13_tx_rate_total", "C13_tx_rate_early_exit_refuted"]

PRELUDE = ("From Coq Require Import List Bool Arith.\nFrom RV Require Import M_Engine.\nImport ListNotations.\n"
           "Set Printing Width 1000000.\nSet Printing Depth 1000000.\n"
           "Definition b2n (b : bool) : nat := if b then 1 else 0.\n"
           "Definition oc (o : outcome) : nat := match o with Done => 1 | BodyRaised => 2 | RuntimeErr => 3 | Handled _ => 4 | Dropped => 5 end.\n"
           "Definition obs (e : eng) : list nat := [b2n (match saved e with Some _ => true | None => false end); "
           "b2n (match handler e with Some _ => true | None => false end); b2n (sending_off e); b2n (disc_off e); b2n (wr_paused e); b2n (rd_paused e)].\n"
           "Fixpoint trace (e : eng) (ops : list op) : list (list nat) := match ops with [] => [] | o :: r => "
           "let '(e1, x) := step true e o in (oc x :: obs e1) :: trace e1 r end.\n")

OPS = ["GetState false", "GetState true", "Restore false", "Restore true", "Pause", "Resume", "Rx"]
PROBE = "045  I --- 01:145038 --:------ 01:145038 30C9 003 0007D0"


async def engine_run(ops, writeable, disc_off, started=True):
    """Run an op sequence on a real Gateway; returns [[outcome, paused, handler, sending_off, disc_off, wr_paused, rd_paused], ...].
    started=False: a sending-enabled gateway that has not been started yet (no transport)."""
    from ramses_rf import Gateway  # noqa: PLC0415
    from ramses_tx.packet import Packet  # noqa: PLC0415
    from ramses_tx.protocol import protocol_factory  # noqa: PLC0415

    if started:
        gwy = await gw.make_gateway(["2026-01-01T12:00:00.000000 " + PROBE])
    else:
        gwy = Gateway("/dev/ttyVERIF", config={"disable_discovery": disc_off})
    gwy.config.disable_discovery = disc_off
    if writeable and started:  # the same engine code over a writeable protocol
        gwy._disable_sending = False
        gwy._protocol = protocol_factory(gwy._msg_handler, disable_sending=False, disable_qos=True)
    rows, t = [], _dt.datetime(2026, 1, 1, 13)

    class Boom:  # an entity whose message store cannot be read: makes the body of get_state() raise
        id = "63:262142"

        @property
        def _msg_db(self):
            raise ValueError("scripted failure inside the body")

    try:
        for op in ops:
            oc = 1
            try:
                if op.startswith("GetState"):
                    if op.endswith("true"):
                        gwy.devices.append(Boom())
                    gwy.get_state()
                elif op.startswith("Restore"):
                    t += _dt.timedelta(seconds=1)
                    pkts = {t.isoformat(timespec="microseconds"): PROBE}
                    pkts2 = {(t + _dt.timedelta(milliseconds=k)).isoformat(timespec="microseconds"): PROBE for k in range(1, 30)}
                    if not op.endswith("true"):
                        await gwy._restore_cached_packets(pkts)
                    elif len(rows) % 2:     # the body raises: no packet source (TransportSourceInvalid)
                        await gwy._restore_cached_packets(None)
                    else:                   # the body is cancelled at its await (the caller's timeout, a shutdown)
                        task = asyncio.ensure_future(gwy._restore_cached_packets({**pkts, **pkts2}))
                        await asyncio.sleep(0)
                        await asyncio.sleep(0)
                        task.cancel()
                        await task
                elif op == "Pause":
                    gwy._pause()
                elif op == "Resume":
                    gwy._resume()
                else:
                    t += _dt.timedelta(seconds=1)
                    pkt = Packet.from_port(t, PROBE)
                    gwy._protocol.pkt_received(pkt)
                    await gw.settle(4)
                    oc = 4 if (gwy._this_msg is not None and gwy._this_msg._pkt is pkt) else 5
            except RuntimeError:
                oc = 3
            except (Exception, asyncio.CancelledError):  # noqa: BLE001
                oc = 2
            finally:
                gwy.devices[:] = [d for d in gwy.devices if not isinstance(d, Boom)]
            o = gw.engine_obs(gwy)
            rows.append([oc, int(o["paused"]), int(o["handler"]), int(o["sending_disabled"]), int(o["discovery_disabled"]), int(o["pause_writing"]), int(o["reading_paused"])])
    finally:
        if gwy._engine_state is not None:
            gwy._resume()
        if started:
            await gwy.stop()
    return rows


def correspondence(ctx: Ctx, built: bool, thorough: bool):
    rng = ctx.rng
    seqs = [list(s) for n in (1, 2, 3) for s in itertools.product(OPS, repeat=n)] if thorough else \
           [list(s) for n in (1, 2) for s in itertools.product(OPS, repeat=n)]
    seqs += [[rng.choice(OPS) for _ in range(rng.randint(3, 9))] for _ in range(400 if thorough else 120)]
    cases, impl = [], []
    for ops in seqs:
        for writeable, disc, started in ((False, True, True), (True, False, True), (True, True, True), (True, False, False)):
            if not started and ("Rx" in ops or any(o.startswith("Restore") for o in ops)):
                continue          # before start() there is no transport to take a packet from, and a restore needs a running loop's transport factory
            rows, _ = gw.run_async(engine_run, ops, writeable, disc, started)
            impl.append(rows)
            # the property itself, on the implementation: a snapshot/restore of an up engine changes nothing
            prev = [0, 1, int(not writeable), int(disc), int(not writeable), 0]
            for op, row in zip(ops, rows):
                if op.split()[0] in ("GetState", "Restore") and prev[0] == 0 and row[1:] != prev:
                    what = "raising" if op.endswith("true") else "succeeding"
                    ctx.violation(f"engine-changed-by:{op.split()[0]}:{what}-body",
                                  f"{op.split()[0]} with a {what} body changed the engine (paused, handler, sending_off, discovery_off, writing_paused, reading_paused) from {prev} to {row[1:]}",
                                  {"ops": ops, "writeable": writeable, "discovery_disabled": disc, "started": started, "trace": rows}, "operation-sequence")
                    break
                if op.split()[0] in ("GetState", "Restore") and prev[0] == 1 and (row[1:] != prev or row[0] != 3):
                    ctx.violation(f"engine-changed-by:{op.split()[0]}:while-paused",
                                  f"{op.split()[0]} asked for while a client holds the engine paused must be refused (RuntimeError) and change nothing; outcome code {row[0]}, "
                                  f"engine (paused, handler, sending_off, discovery_off, writing_paused) {prev} -> {row[1:]}",
                                  {"ops": ops, "writeable": writeable, "discovery_disabled": disc, "trace": rows}, "operation-sequence")
                    break
                prev = row[1:]
            e0 = f"mkEng (Some 7) {str(not writeable).lower()} {str(disc).lower()} {str(not writeable).lower()} None {str(started).lower()} false"
            cases.append(f"trace ({e0}) [{'; '.join(ops)}]")
            ctx.case(("engine-ops", tuple(ops), writeable, disc, started), any("true" in o for o in ops), "engine-op-sequence")
    if not built:
        ctx.obligation("correspondence:engine-automaton", False, "correspondence", "model not built")
        return
    shards = {f"s{i}": PRELUDE + "".join(f"Eval vm_compute in ({c}).\n" for c in cases[i::8]) for i in range(8)}
    res = common.coq_eval("C13", shards, timeout=600)
    bad = []
    for i in range(8):
        rc, out = res[f"s{i}"]
        if rc:
            ctx.obligation("correspondence:engine-automaton", False, "correspondence", out[-400:])
            return
        rows = [eval(o.replace(";", ","), {"__builtins__": {}}) for o in re.findall(r"=\s*(\[.*?\])\s*:\s*list \(list nat\)", out, flags=re.S)]  # noqa: S307
        mine = list(zip(cases[i::8], impl[i::8]))
        if len(rows) != len(mine):
            ctx.obligation("correspondence:engine-automaton", False, "correspondence", f"{len(rows)} results for {len(mine)} cases")
            return
        bad += [(c, r, m) for (c, m), r in zip(mine, rows) if [list(x) for x in r] != m]
    ctx.obligation("correspondence:engine-automaton", not bad, "correspondence",
                   f"{len(bad)} of {len(cases)} differ; first: {bad[0][0]} model {bad[0][1]} implementation {bad[0][2]}" if bad else f"{len(cases)} op sequences agree")
    for c, r, m in bad[:3]:
        # does the implementation itself break the property on this sequence?  (a snapshot/restore changed the engine)
        ctx.log(f"engine correspondence differs: {c}\n   model {r}\n   impl  {m}")


async def probe_for(base, cfg):
    """A line of the system's own log that a gateway with this configuration handles (the still-receiving probe)."""
    from ramses_tx.packet import Packet  # noqa: PLC0415

    gwy = await gw.make_gateway(base[:1], cfg)
    try:
        for ln in base:
            if " I " not in ln[:40]:
                continue
            pkt = Packet.from_port(_dt.datetime(2030, 1, 1), ln[27:])
            gwy._protocol.pkt_received(pkt)
            await gw.settle(4)
            if gwy._this_msg is not None and gwy._this_msg._pkt is pkt:
                return ln[27:]
    finally:
        await gwy.stop()
    return None


async def history_trial(lines, cfg, eav, chunks, probe):
    """Replay a history (optionally in chunks through restore), reading every view and snapshotting at each point."""
    from ramses_tx.packet import Packet  # noqa: PLC0415

    out = {"views": 0, "bad": [], "points": 0}
    first = lines if chunks <= 1 else lines[:max(1, len(lines) // chunks)]
    try:
        gwy = await gw.make_gateway(first, cfg, enable_eavesdrop=eav)
    except Exception as err:  # noqa: BLE001
        out["bad"].append(("replay-raises", type(err).__name__, str(err)[:100]))
        return out
    rest = lines[len(first):]
    step = max(1, len(rest) // max(1, chunks - 1)) if rest else 1
    segs = [rest[i:i + step] for i in range(0, len(rest), step)] if chunks > 1 else []
    try:
        for seg in [None] + segs:
            if seg is not None:
                before = gw.engine_obs(gwy)
                try:
                    await gwy._restore_cached_packets({ln[:26]: ln[27:] for ln in seg})
                except Exception as err:  # noqa: BLE001
                    out["bad"].append(("restore-raises", type(err).__name__, str(err)[:100]))
                await gw.settle()
                if gw.engine_obs(gwy) != before:
                    out["bad"].append(("engine-changed-by-restore", repr(before), repr(gw.engine_obs(gwy))))
            out["points"] += 1
            n, bad = gw.read_views(gwy)
            out["views"] += n
            for name, v, cls, msg, where in bad:
                out["bad"].append((f"view-raises:{v}:{cls}:{where}", name, msg))
            # ... and once more after the loop has turned: whatever a read has deferred (purging expired messages) has now happened
            await gw.settle(6)
            n, bad2 = gw.read_views(gwy)
            out["views"] += n
            for name, v, cls, msg, where in bad2:
                if (name, v, cls, msg, where) not in bad:
                    out["bad"].append((f"view-raises:{v}:{cls}:{where}:on-a-second-read", name, msg))
            for inc in (False, True):
                before = gw.engine_obs(gwy)
                try:
                    gwy.get_state(include_expired=inc)
                except Exception as err:  # noqa: BLE001
                    import traceback  # noqa: PLC0415
                    tb = traceback.extract_tb(err.__traceback__)[-1]
                    out["bad"].append((f"get_state-raises:{type(err).__name__}:{tb.name}", f"include_expired={inc}", str(err)[:100]))
                if gw.engine_obs(gwy) != before:
                    out["bad"].append(("engine-changed-by-get_state", repr(before), repr(gw.engine_obs(gwy))))
        # still receiving: one more packet is handled
        t = _dt.datetime.fromisoformat(lines[-1][:26]) + _dt.timedelta(seconds=1)
        pkt = Packet.from_port(t, probe)
        gwy._protocol.pkt_received(pkt)
        await gw.settle(4)
        if not (gwy._this_msg is not None and gwy._this_msg._pkt is pkt):
            out["bad"].append(("packet-not-handled-afterwards", probe, ""))
        # time passes (the system keeps talking 45 minutes, then 26 hours later): what was stored expires; views are read, the loop turns,
        # views are read again
        for later in (_dt.timedelta(minutes=45), _dt.timedelta(hours=26)):
            t = t + later
            tr = gwy._transport
            if tr is not None:      # through the transport: its last packet is the gateway's clock
                tr._frame_read(t.isoformat(timespec="microseconds"), probe)
            else:
                gwy._protocol.pkt_received(Packet.from_port(t, probe))
            await gw.settle(4)
            if abs((gwy._dt_now() - t).total_seconds()) > 1:
                out["bad"].append(("harness:the-clock-did-not-advance", str(gwy._dt_now()), str(t)))
            seen = []
            for turn in ("after-time-passed", "after-time-passed:on-a-second-read"):
                out["points"] += 1
                n, bad = gw.read_views(gwy)
                out["views"] += n
                for name, v, cls, msg, where in bad:
                    if (name, v, cls, msg, where) not in seen:
                        out["bad"].append((f"view-raises:{v}:{cls}:{where}:{turn}", name, msg))
                seen += bad
                await gw.settle(6)
            try:
                gwy.get_state()
            except Exception as err:  # noqa: BLE001
                out["bad"].append((f"get_state-raises:{type(err).__name__}:after-time-passed", "", str(err)[:100]))
    finally:
        try:
            await gwy.stop()
        except Exception as err:  # noqa: BLE001
            out["bad"].append(("stop-raises", type(err).__name__, str(err)[:100]))
    return out


async def restored_into_empty(lines, cfg, own):
    bad = []
    try:
        gwy = await gw.make_gateway(own, cfg)
    except Exception as err:  # noqa: BLE001
        return [("replay-raises", type(err).__name__, str(err)[:100])]
    try:
        before = gw.engine_obs(gwy)
        try:
            await gwy._restore_cached_packets({ln[:26]: ln[27:] for ln in lines})
        except Exception as err:  # noqa: BLE001
            bad.append(("restore-raises", type(err).__name__, str(err)[:100]))
        await gw.settle()
        if gw.engine_obs(gwy) != before:
            bad.append(("engine-changed-by-restore", repr(before), repr(gw.engine_obs(gwy))))
        _, vb = gw.read_views(gwy)
        for nm, v, cls, msg, where in vb:
            bad.append((f"view-raises:{v}:{cls}:{where}:gateway-with-no-packets-of-its-own", nm, msg))
        for inc in (False, True):
            try:
                gwy.get_state(include_expired=inc)
            except Exception as err:  # noqa: BLE001
                bad.append((f"get_state-raises:{type(err).__name__}:gateway-with-no-packets-of-its-own", f"include_expired={inc}", str(err)[:100]))
    finally:
        try:
            await gwy.stop()
        except Exception:  # noqa: BLE001, S110
            pass
    return bad


async def mid_history(lines, cfg, k, what):
    """Replay a log through the file transport; at the k-th message handled, take a snapshot (get) or restore one (restore) from inside the
    running gateway; returns the number of messages handled in all (-1: the replay never finished)."""
    import io  # noqa: PLC0415
    import json  # noqa: PLC0415

    from ramses_rf import Gateway  # noqa: PLC0415

    cfg = json.loads(json.dumps(cfg or {}))
    cfg.setdefault("config", {}).update({"disable_discovery": True})
    seen = []
    gwy = Gateway(None, input_file=io.TextIOWrapper(io.BytesIO("".join(ln + "\n" for ln in lines).encode())), **cfg)

    def handler(msg):
        seen.append(msg)
        if len(seen) == k and what == "get":
            gwy.get_state()
        elif len(seen) == k and what == "restore":
            asyncio.ensure_future(gwy._restore_cached_packets({lines[0][:26]: lines[0][27:]}))

    gwy.add_msg_handler(handler)
    hung = False
    try:
        await asyncio.wait_for(gw.start(gwy, patience=20.0), 25)         # returns when the whole log has been read
        await gw.settle(60)
    except (asyncio.CancelledError, TimeoutError, Exception):  # noqa: BLE001
        hung = True
    try:
        await asyncio.wait_for(gwy.stop(), 2)
    except (asyncio.CancelledError, TimeoutError, Exception):  # noqa: BLE001
        pass
    return -1 if hung else len(seen)


async def foreign_trial(own, foreign, cfg, eav):
    """Does foreign traffic stop the gateway tracking its own system?  Zone temperatures after own(+foreign)+probe."""
    res = []
    ctl = None
    for ln in own:
        m = gw.LINE_RE.match(ln)
        if m and m.group(5).startswith("01:") and m.group(8) in ("30C9", "2309", "000A"):
            ctl = m.group(5)
            break
    if ctl is None:
        return None
    for lines in (own, gw.retime(sorted(own + foreign, key=lambda ln: ln[:26]))):
        t = _dt.datetime.fromisoformat(lines[-1][:26]) + _dt.timedelta(seconds=1)
        probe = f"{t.isoformat(timespec='microseconds')} 045  I --- {ctl} --:------ {ctl} 30C9 009 0007D101083402091D"
        gwy = await gw.make_gateway(lines + [probe], cfg, enable_eavesdrop=eav)
        tcs = next((s for s in gwy.systems if s.id == ctl), None)
        try:
            temps = None if tcs is None else {z.idx: z.temperature for z in tcs.zones if z.idx in ("00", "01", "02")}
        except Exception as err:  # noqa: BLE001
            temps = f"raises {type(err).__name__}"
        res.append(temps)
        await gwy.stop()
    return res


def run(ctx: Ctx) -> None:
    logging.disable(logging.CRITICAL)
    thorough = ctx.tier == "thorough"
    rng = ctx.rng
    ctx.rule = ("(a) engine op sequences (get_state / restore with a succeeding or raising body, a client's own pause/resume, a packet) on real "
                "Gateways over a read-only and a writeable protocol, compared step by step with the Coq automaton; (b) histories derived from the "
                "seven recorded systems by prefix/deletion (plus a sweep: every packet shape of every system regenerated from its schema regex in lowest/highest/random modes, appended to a clean prefix)/duplication/reordering/splicing/payload regeneration within the schema regex with extreme "
                "values, eavesdropping on/off, replayed whole or in chunks through restore, with every public view of every entity read and a snapshot "
                "taken (both include_expired settings) at each point, then one more packet fed; non-trivial = a raising body (a) or a derived "
                "(non-verbatim) history (b); distinct = by op sequence / by history text")
    ctx.assumptions += ["the views' code (several hundred properties over the entity classes) is not modelled: part (b) is exploration of the implementation, not proof",
                        "Message._expired totality is proved in C14's model (zero lifespans)",
                        "exceptions that message handlers raise into the loop's exception handler (they do not stop the gateway) are counted in the notes, not treated as violations"]
    built = ctx.build("C13", THEOREMS)
    correspondence(ctx, built, thorough)

    syss = gw.systems()
    n_hist = 2500 if thorough else 350
    loop_errs, kinds = {}, {}
    probes = {name: gw.run_async(probe_for, base, cfg)[0] for name, base, cfg in syss}
    ctx.obligation("harness:a-probe-packet-per-system", all(probes.values()), "harness", repr(probes))
    points = views = 0
    hists = [gw.derive(rng, syss) for _ in range(n_hist)]
    hists += gw.sweep_histories(rng, syss, gw.MODES if thorough else ("lo", "hi", "rand-hi"), 4 if thorough else 6)
    hists += gw.code_sweep_histories(rng, syss, gw.MODES if thorough else ("lo", "hi", "rand-hi"))
    hists += gw.ot_sweep_histories(rng, syss, per_hist=3 if thorough else 6)
    for i, (lines, kind, name, cfg) in enumerate(hists):
        eav = rng.random() < 0.5
        chunks = 1 if kind in ("shape-sweep", "code-sweep", "ot-sweep") else rng.choice([1, 1, 1, 4, 8])
        out, errs = gw.run_async(history_trial, lines, cfg, eav, chunks, probes[name])
        ctx.case(("history", "\n".join(lines), eav, chunks), kind != "none", f"history:{kind}")
        kinds[kind] = kinds.get(kind, 0) + 1
        points += out["points"]
        views += out["views"]
        for e in errs:
            k = e.split(":")[0]
            loop_errs[k] = loop_errs.get(k, 0) + 1
        for sig, a, b in out["bad"]:
            ctx.violation(sig, f"{sig} ({a}; {b}) after a {kind} history of system {name}",
                          {"system": name, "kind": kind, "eavesdrop": eav, "chunks": chunks, "detail": [a, b], "lines": lines}, "history")
    # a snapshot / restore in the MIDDLE of a log being replayed through the transport: the rest of the log still arrives
    for name, base, cfg in (syss if thorough else syss[:4]):
        lines = base[:60]
        n0, _ = gw.run_async(mid_history, lines, cfg, 0, "none")
        for what in ("get", "restore"):
            for k in sorted({1, max(1, (n0 or 2) // 2), max(1, (n0 or 2) - 1)}):
                n, _ = gw.run_async(mid_history, lines, cfg, k, what)
                ctx.case(("mid-history", name, k, what), True, "history:snapshot-while-replaying")
                if n0 is not None and n0 > 0 and n is not None and (n < n0):
                    ctx.violation(f"rest-of-the-log-not-received-after:{what}", f"{what} at message {k} of a log of system {name} being replayed: {n} messages handled, {n0} without it "
                                  "(-1: the replay never finished)", {"system": name, "k": k, "what": what, "handled": n, "handled_without": n0, "lines": lines}, "history")
    # a saved state restored into a gateway whose OWN log is empty (or holds only a corrupt line): it has a clock of its own only once it has read a
    # packet itself -- every view and the snapshot answer all the same
    for name, base, cfg in (syss if thorough else syss[:5]):
        for own in ([], ["2026-01-01T12:00:00.000000 045  I --- 01:145038 --:------ 01:145038 30C9 003 XX07D0"]):
            res, _ = gw.run_async(restored_into_empty, base[:80], cfg, own)
            ctx.case(("restore-into-empty", name, bool(own)), True, "history:restored-into-a-gateway-with-no-packets-of-its-own")
            for sig, a, b in res:
                ctx.violation(sig, f"{sig} ({a}; {b}) after restoring {min(80, len(base))} packets of system {name} into a gateway whose own log is " + ("one corrupt line" if own else "empty"),
                              {"system": name, "own_log": own, "detail": [a, b], "lines": base[:80]}, "history")
    # "still able to send" after traffic of ANOTHER system: a neighbour controller's sync announcement is heard once (its next one never); frames
    # offered for writing afterwards reach the port (the serial transport's own write path, on a virtual clock: see C11's sync_run)
    from . import c11 as _c11  # noqa: PLC0415
    for rem in (0.5, 0.0, 30.0):
        offers = [1.0 + rem + 0.3, 1.0 + rem + 5.0, 1.0 + rem + 200.0]
        try:
            res = _c11.sync_run([(1.0, "01:999999", rem)], offers)
        except Exception as err:  # noqa: BLE001
            ctx.violation(f"harness:sync-run-raises:{type(err).__name__}", str(err)[:200], {"remaining": rem}, "history")
            continue
        ctx.case(("foreign-sync", rem), True, "history:foreign-sync-announcement-then-send")
        for off, wr in res:
            if wr is None or wr - off > 1.0:
                ctx.violation("foreign-traffic-stops-sending", f"after a neighbour controller's I|1F09 (sync in {rem} s, never followed up) a frame offered at {off:.1f} s "
                              + ("never reached the port" if wr is None else f"reached the port {wr - off:.1f} s later"),
                              {"announcement": ["01:999999", 1.0, rem], "offered_at": off, "written_at": wr}, "history")
    # the gateway's status on a LIVE transport carries the transmit rate (tx_rate), computed from the times of the last (up to 99) transmits: for every
    # history of transmits and every later moment -- minutes of silence included -- reading it returns a number, and the next frame can still be
    # written (the same computation runs inside every write)
    import collections  # noqa: PLC0415

    import ramses_tx.transport as _tr  # noqa: PLC0415

    real_dt = _tr.dt
    t0 = real_dt(2026, 1, 1, 12)

    class Clock(real_dt):
        at = t0

        @classmethod
        def now(cls, tz=None):
            return cls.at

    _tr.dt = Clock
    tx_rows = []
    try:
        for k in range(60 if thorough else 24):
            n_tx = rng.choice([0, 1, 2, 2, 3, 5, 40, 99, 120])
            gaps = [rng.choice([0.05, 0.2, 1.0, 7.0, 60.0, 299.0, 301.0, 900.0]) for _ in range(n_tx)]
            quiet = rng.choice([0.0, 0.05, 10.0, 299.9, 300.0, 300.1, 301.0, 3600.0])
            tx = _tr.PortTransport.__new__(_tr.PortTransport)
            tx._transmit_times = collections.deque(maxlen=_tr._MAX_TRACKED_TRANSMITS) if hasattr(_tr, "_MAX_TRACKED_TRANSMITS") else collections.deque(maxlen=99)
            tx._extra = {}
            Clock.at = t0
            case = {"seconds_between_transmits": gaps, "then_quiet_for": quiet}
            ctx.case(("tx-rate", n_tx, tuple(gaps), quiet), n_tx > 1, "status:tx-rate-after-transmits-and-silence")
            try:
                for g in gaps:
                    Clock.at = Clock.at + _dt.timedelta(seconds=g)
                    tx._track_transmit_rate()
                Clock.at = Clock.at + _dt.timedelta(seconds=quiet)
                rate = tx.get_extra_info("tx_rate")
                us = lambda t: round((t - t0).total_seconds() * 1e6)  # noqa: E731
                tx_rows.append(([us(t) for t in tx._transmit_times], us(Clock.at), rate))
                if not isinstance(rate, int | float) or rate != rate or rate < 0:
                    ctx.violation("view-returns-no-number:status:_tx_rate", f"tx_rate is {rate!r}", case, "history")
                Clock.at = Clock.at + _dt.timedelta(seconds=0.05)      # (two transmits never carry the same timestamp here: writes are a gap apart)
                tx._track_transmit_rate()           # ... and the next write
                tx.get_extra_info("tx_rate")
            except Exception as err:  # noqa: BLE001
                ctx.violation(f"view-raises:status:_tx_rate:{type(err).__name__}", f"the transmit rate behind Gateway.status['_tx_rate'] (also computed inside every write) raises "
                              f"{type(err).__name__} after {n_tx} transmits and {quiet} s of silence", {**case, "error": repr(err)}, "history")
    finally:
        _tr.dt = real_dt
    if built and tx_rows:       # M_TxRate.report on the same transmit times and moments: the number of transmits in the window / the rate (to 0.01 per minute)
        src = ("From Coq Require Import ZArith List.\nFrom RV Require Import M_TxRate.\nImport ListNotations.\nOpen Scope Z_scope.\nSet Printing Width 1000000.\nSet Printing Depth 1000000.\n"
               "Definition sh (r : rate) : list Z := match r with Count n => [0; Z.of_nat n] | PerMinuteX100 q => [1; q] | _ => [9] end.\n")
        src += "".join(f"Eval vm_compute in (sh (report {now} [{'; '.join(map(str, ts))}])).\n" for ts, now, _ in tx_rows)
        rc, out = common.coq_eval("C13tx", {"t": src}, timeout=300)["t"]
        rows = [eval(o.replace(";", ","), {"__builtins__": {}}) for o in re.findall(r"=\s*(\[.*?\])\s*:\s*list Z", out, flags=re.S)]  # noqa: S307
        bad = []
        if rc or len(rows) != len(tx_rows):
            bad.append(f"rc={rc} {len(rows)} results for {len(tx_rows)}: {out[-200:]}")
        else:
            for (ts, now, rate), r in zip(tx_rows, rows):
                n_in = sum(1 for t in ts if t > now - 300_000_000)
                ok = (r == [0, n_in] and rate == n_in) if n_in <= 1 else (r[0] == 1 and abs(r[1] - rate * 100) <= 1.01)
                if not ok:
                    bad.append(f"{len(ts)} transmits, {n_in} in the window at {now}: model {r}, _report_transmit_rate() {rate}")
        ctx.obligation("correspondence:tx-rate", not bad, "correspondence", f"{len(bad)} of {len(tx_rows)} differ; first: {bad[0][:300]}" if bad else
                       f"{len(tx_rows)} histories of transmits and silences: the window count / the rate to 0.01 per minute agree")
    elif not built:
        ctx.obligation("correspondence:tx-rate", False, "correspondence", "model not built")
    # "still able to send", and the views afterwards: a zone fetches its schedule (the change counter is asked for, the fragments are read) through a
    # scripted controller whose replies come back to the caller -- with and without also being heard by the entities; every view is read at once
    from . import c18 as _c18  # noqa: PLC0415
    for dispatch in (False, True):
        for steps in ([("fetch", 0, 30)], [("fetch", 0, 30), ("bump", 0), ("probe", 0, 400)], [("fetch", 1, 30), ("set", 1, 30)]):
            try:
                o = _c18.episode({"seed": 7, "plan": {}, "steps": steps, "dispatch": dispatch})
            except Exception as err:  # noqa: BLE001
                ctx.violation(f"harness:schedule-episode-raises:{type(err).__name__}", str(err)[:200], {"steps": steps}, "history")
                continue
            ctx.case(("views-after-transfers", dispatch, repr(steps)), True, "views:after-schedule-transfers")
            for ent, view, exc_name, text, where in o.get("views_bad", []):
                ctx.violation(f"view-raises-after-a-schedule-transfer:{view}:{exc_name}:{where}", f"after {steps} (replies {'also heard by the entities' if dispatch else 'handed to the caller only'}) "
                              f"{ent}.{view} raises {exc_name}: {text}", {"steps": steps, "replies_dispatched": dispatch, "entity": ent, "view": view}, "history")
    # foreign traffic
    n_for = 60 if thorough else 12
    for i in range(n_for):
        a, b = rng.sample(syss, 2)
        ids = lambda lines: {x for ln in lines for x in re.findall(r"\b\d\d:\d{6}\b", ln[27:90]) if x[:2] not in ("18", "63")}  # noqa: E731
        if ids(a[1]) & ids(b[1]):   # two recordings of the same installation: not foreign to each other
            continue
        own = a[1][:rng.randint(min(30, len(a[1])), min(len(a[1]), 200))]
        foreign = b[1][:rng.randint(min(30, len(b[1])), min(len(b[1]), 200))]
        eav = rng.random() < 0.5
        res, _ = gw.run_async(foreign_trial, own, foreign, a[2], eav)
        ctx.case(("foreign", a[0], b[0], len(own), len(foreign), eav), True, "history:foreign-system-spliced")
        if res is None or res[0] is None:
            continue
        if res[0] != res[1]:
            ctx.violation("foreign-traffic-stops-tracking", f"zone temperatures of {a[0]} after its own traffic {res[0]} differ once traffic of {b[0]} is spliced in {res[1]}",
                          {"own": a[0], "foreign": b[0], "own_lines": own, "foreign_lines": foreign, "eavesdrop": eav, "temps": res}, "history")
    # ... and a neighbour's kit of a make the library has no schema for: structurally valid frames with codes it does not know, among the system's own
    for name, base, cfg in (syss if thorough else syss[:4]):
        own = base[:rng.randint(min(30, len(base)), min(len(base), 120))]
        t_first = _dt.datetime.fromisoformat(own[0][:26])
        span = max(1.0, (_dt.datetime.fromisoformat(own[-1][:26]) - t_first).total_seconds())
        foreign = []
        for k in range(8):
            t = t_first + _dt.timedelta(seconds=span * (k + 1) / 10, microseconds=7 * k + 1)
            code = rng.choice(["4E99", "7FFE", "0F00", "2EEE", "4E01"])
            frame = rng.choice([f" I --- 32:155617 --:------ 32:155617 {code} 003 000102", f"RP --- 32:155617 18:000730 --:------ {code} 002 00C8", f" I --- 29:123456 63:262142 --:------ {code} 004 00010203"])
            foreign.append(f"{t.isoformat(timespec='microseconds')} 045 {frame}")
        eav = rng.random() < 0.5
        try:
            res, _ = gw.run_async(foreign_trial, own, foreign, cfg, eav)
        except Exception as err:  # noqa: BLE001
            ctx.violation(f"foreign-traffic-stops-the-replay:{type(err).__name__}", f"a log of system {name} with frames of unknown codes spliced in cannot be replayed: {type(err).__name__}: {err}"[:300],
                          {"own": name, "own_lines": own, "foreign_lines": foreign, "eavesdrop": eav}, "history")
            continue
        ctx.case(("foreign-unknown-codes", name, len(own), eav), True, "history:unknown-codes-spliced")
        if res is not None and res[0] is not None and res[0] != res[1]:
            ctx.violation("foreign-traffic-stops-tracking:unknown-codes", f"zone temperatures of {name} after its own traffic {res[0]} differ once frames of unknown codes are spliced in {res[1]}",
                          {"own": name, "own_lines": own, "foreign_lines": foreign, "eavesdrop": eav, "temps": res}, "history")
    ctx.extra["history_points_snapshotted"] = points
    ctx.extra["views_read"] = views
    ctx.notes.append(f"exceptions raised by message handlers into the loop's exception handler (gateway kept running): {loop_errs}")


def replay(case: dict) -> int:
    print(case.get("signature"), str(case.get("case"))[:2000])
    return 0
