import asyncio, logging, io, json, glob, os, sys
logging.disable(logging.CRITICAL)
from ramses_rf import Gateway
from ramses_rf.helpers import shrink
async def from_log(path, cfg):
    gwy=Gateway(None, input_file=open(path), **cfg)
    await gwy.start(); return gwy
async def fresh(cfg):
    gwy=Gateway(None, input_file=io.TextIOWrapper(io.BytesIO(b"")), **cfg)
    await gwy.start(); return gwy
async def main():
    for d in sorted(glob.glob("/repo/tests/tests/systems/*")):
        cfg={}
        if os.path.exists(d+"/config.json"): cfg=json.load(open(d+"/config.json"))
        cfg.setdefault("config",{})["disable_discovery"]=True
        try:
            g=await from_log(d+"/packet.log", cfg)
        except Exception as e:
            print(os.path.basename(d),"LOAD FAIL",type(e).__name__,e); continue
        for inc in (False,True):
            try:
                sch1,p1=g.get_state(include_expired=inc)
            except Exception as e:
                print(os.path.basename(d),"get_state RAISES",type(e).__name__,e); break
            g2=await fresh(cfg)
            await g2._restore_cached_packets(p1)
            for _ in range(10): await asyncio.sleep(0)
            sch2,p2=g2.get_state(include_expired=inc)
            # note: clock of g2 = last packet restored
            same_p = p1==p2
            same_s = shrink(sch1)==shrink(sch2)
            print(os.path.basename(d), "inc_expired",inc, "n1",len(p1),"n2",len(p2),"pkts_same",same_p,"schema_same",same_s)
            if not same_p:
                lost=[k for k in p1 if k not in p2]; extra=[k for k in p2 if k not in p1]
                print("   lost",len(lost),[p1[k][:70] for k in lost[:3]]," extra",len(extra))
            if not same_s:
                print("   schema1",json.dumps(shrink(sch1))[:300]); print("   schema2",json.dumps(shrink(sch2))[:300])
            await g2.stop()
        await g.stop()
asyncio.run(main())
