(* C20 -- Binding handshakes: every wait ends cleanly.  Statements only. *)
From Coq Require Import List Bool Arith ZArith.
From RV Require Import GenConsts M_Bind P_Bind M_BindAttempts P_BindAttempts.
Local Open Scope nat_scope.
Import ListNotations.

(* for EVERY history (any instants, any events in any order, repeats, with or without a state timer):
   a wait that ended, ended with the awaited message and the context advanced, or with
   BindingFlowFailed and the context in DevHasFailedBinding (not binding: a new attempt can start) *)
Theorem C20_wait_ends_cleanly : forall hst instants o,
  b_w (fst (run true hst instants)) = Done o ->
  (o = OkMsg /\ b_ctx (fst (run true hst instants)) = CNext) \/
  (o = FlowFailed /\ b_ctx (fst (run true hst instants)) = CFailed).
Proof. exact wait_ends_cleanly. Qed.

Theorem C20_invariant_everywhere : forall hst instants, inv (fst (run true hst instants)) = true.
Proof. exact run_inv. Qed.

(* the wait is over in the very instant its timer fires *)
Theorem C20_wait_timer_ends : forall s e1 e2,
  inv s = true -> b_wtimer s = true ->
  exists o, b_w (wake true (fst (step true (fst (step true (fst (step true s e1)) EWaitTimer)) e2))) = Done o.
Proof. exact wait_timer_ends. Qed.

(* a repeated copy of the awaited packet does not change the state (it only logs an exception) *)
Theorem C20_duplicate_match_is_noop : forall s, b_fut s <> FPending -> fst (step true s EMatch) = s.
Proof. exact duplicate_match_is_noop. Qed.

(* regression witness: the code before the repair *)
Theorem C20_old_timeout_refuted :
  let r := run false true [[EStart]; [EWaitTimer]; [EStateTimer]] in
  b_w (fst r) = Done InvalidState /\ b_ctx (fst r) = CWaiting /\ snd r = 1.
Proof. exact old_timeout_refuted. Qed.
Theorem C20_now_timeout_clean :
  let r := run true true [[EStart]; [EWaitTimer]; [EStateTimer]] in
  b_w (fst r) = Done FlowFailed /\ b_ctx (fst r) = CFailed /\ snd r = 0.
Proof. exact now_timeout_clean. Qed.

(* no event sequence whatever -- repeats of the awaited packet in the same instant, packets after a timer,
   both timers together -- leaves an exception in the event loop *)
Theorem C20_no_loop_exceptions : forall hst instants, snd (run true hst instants) = 0.
Proof. exact no_loop_exceptions. Qed.
(* regression witness: before c876120 a second copy of the awaited packet in the same instant raised InvalidStateError into the loop *)
Theorem C20_old_repeat_refuted : snd (run false true [[EStart]; [EMatch; EMatch]]) = 1.
Proof. exact old_repeat_refuted. Qed.

(* a packet is recognised as at most one phase of the handshake: unrelated binding traffic (a third party's
   offer, self-addressed or broadcast) is never taken for the accept or the confirm one is waiting for *)
Theorem C20_phases_exclusive : forall c v d p q, is_phase c v d p = true -> is_phase c v d q = true -> p = q.
Proof. exact phases_exclusive. Qed.
Theorem C20_offer_is_not_confirm : forall c v d, is_phase c v d Tender = true -> is_phase c v d Affirm = false.
Proof. exact offer_is_not_confirm. Qed.

(* ---- several attempts on one context: an attempt can be abandoned (its caller gives up, a send raises) and retried ---- *)
(* no abandoned state object ever keeps an armed timer, for every history of waits, abandons, retries and timers *)
Theorem C20_abandon_leaves_no_timer : forall hst instants, c_stale (arun true hst instants) = 0.
Proof. exact abandon_leaves_no_timer. Qed.
(* an abandoned attempt leaves the device not binding: a new attempt can start *)
Theorem C20_abandon_ends_binding : forall cf c, binding (c_cur (astep cf c AAbandon)) = false.
Proof. exact abandon_ends_binding. Qed.
(* after ANY history on the context, once the device is not binding, a new attempt -- with whatever old timers coming due
   during it -- evolves exactly as a first attempt on a fresh context does (so all the single-wait theorems above apply to it) *)
Theorem C20_retry_is_fresh : forall hst0 h1 hst i0 h2,
  binding (c_cur (arun true hst0 h1)) = false ->
  c_cur (afold true (arun true hst0 h1) ((ANew hst :: lift i0) :: map lift h2)) = fst (run true hst (strip i0 :: map strip h2)).
Proof. exact retry_is_fresh. Qed.
(* witness: were the state replaced before its timer is looked up, an attempt given up at once would fail its successor *)
Theorem C20_wrong_abandon_order_refuted :
  b_ctx (c_cur (arun false true h_retry)) = CFailed /\ b_w (c_cur (arun false true h_retry)) <> Done OkMsg /\ c_exn (arun false true h_retry) = 1.
Proof. exact wrong_order_refuted. Qed.
Theorem C20_right_abandon_order_witness :
  b_ctx (c_cur (arun true true h_retry)) = CNext /\ b_w (c_cur (arun true true h_retry)) = Done OkMsg /\ c_exn (arun true true h_retry) = 0.
Proof. exact right_order_witness. Qed.

(* a reply that overtakes the end of the send (the echo of the previous frame was lost, the send is being retried): the awaited packet, repeats
   of it and unrelated packets arrive BEFORE the role coroutine reaches its await; when it does, the wait ends at once with that packet *)
Theorem C20_early_match_not_lost : forall hst others, (forall e, In e others -> e = EOther \/ e = EMatch) ->
  b_w (fst (run true hst [EMatch :: others; [EStart]])) = Done OkMsg /\ b_ctx (fst (run true hst [EMatch :: others; [EStart]])) = CNext.
Proof. exact early_match_not_lost. Qed.

(* "within its stated waits": the waits the context methods default to and the state methods fall back to (re-read from the source on every
   run) are the stated ones -- a respondent listens 5 s for an offer and, once its accept is sent, 3 s for the confirm (3 s more for optional
   addenda); a supplicant waits 5 s for the accept *)
Theorem C20_waits_as_stated :
  BIND_OFFER_WAIT_us = 5000000%Z /\ BIND_CONFIRM_WAIT_us = 3000000%Z /\ BIND_ADDENDA_WAIT_us = 3000000%Z /\ BIND_ACCEPT_WAIT_us = 5000000%Z /\
  BIND_TENDER_WAIT_TIME_us = 5000000%Z /\ BIND_AFFIRM_WAIT_TIME_us = 3000000%Z /\ BIND_RATIFY_WAIT_TIME_us = 3000000%Z /\ BIND_ACCEPT_WAIT_TIME_us = 5000000%Z.
Proof. repeat split; reflexivity. Qed.
