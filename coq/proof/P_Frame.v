From Coq Require Import ZArith Ascii String List Bool Arith Lia.
From RV Require Import Py PyStr Regex GenRegex GenTables M_Frame.
Import ListNotations.
Open Scope Z_scope.

(* ================================================================ chunking independence *)
Lemma bsplit_unfold2 x y s :
  bsplit (x :: y :: s) =
  if (x =? CR) && (y =? LF) then let (ls, t) := bsplit s in ([] :: ls, t)
  else cons_first x (bsplit (y :: s)).
Proof. reflexivity. Qed.

Lemma bsplit_nil_tail : forall n s, (length s <= n)%nat -> fst (bsplit s) = [] -> snd (bsplit s) = s.
Proof.
  induction n as [|n IH]; intros s Hl H.
  - destruct s; [reflexivity | simpl in Hl; lia].
  - destruct s as [|x s]; [reflexivity|]. destruct s as [|y s]; [reflexivity|].
    rewrite bsplit_unfold2 in *.
    destruct ((x =? CR) && (y =? LF)).
    + destruct (bsplit s); discriminate.
    + assert (Hl' : (length (y :: s) <= n)%nat) by (simpl in *; lia).
      specialize (IH (y :: s) Hl').
      destruct (bsplit (y :: s)) as [l t]. destruct l; cbn [cons_first fst snd] in *; [|discriminate].
      rewrite IH; reflexivity.
Qed.

Lemma bsplit_app_len : forall n a b, (length a <= n)%nat ->
  bsplit (a ++ b) =
  let (la, ta) := bsplit a in let (lb, tb) := bsplit (ta ++ b) in (la ++ lb, tb).
Proof.
  induction n as [|n IH]; intros a b Hlen.
  - destruct a; [|simpl in Hlen; lia]. simpl. destruct (bsplit b); reflexivity.
  - destruct a as [|x a]; [simpl; destruct (bsplit b); reflexivity|].
    destruct a as [|y a].
    + simpl (bsplit [x]). cbn [app]. destruct (bsplit (x :: b)); reflexivity.
    + cbn [app]. rewrite !bsplit_unfold2.
      destruct ((x =? CR) && (y =? LF)) eqn:E.
      * assert (Hl' : (length a <= n)%nat) by (simpl in Hlen; lia).
        specialize (IH a b Hl').
        destruct (bsplit a) as [la ta]. rewrite IH.
        destruct (bsplit (ta ++ b)) as [lb tb]. reflexivity.
      * assert (Hl' : (length (y :: a) <= n)%nat) by (simpl in Hlen; simpl; lia).
        pose proof (IH (y :: a) b Hl') as IH1.
        cbn [app] in IH1. rewrite IH1.
        pose proof (bsplit_nil_tail n (y :: a) Hl') as Hnil.
        destruct (bsplit (y :: a)) as [la ta].
        destruct la as [|l la]; cbn [cons_first app fst snd] in *.
        -- rewrite (Hnil eq_refl). cbn [app]. rewrite bsplit_unfold2, E.
           destruct (bsplit (y :: a ++ b)) as [lb tb]. destruct lb; reflexivity.
        -- destruct (bsplit (ta ++ b)); reflexivity.
Qed.

Lemma bsplit_app a b :
  bsplit (a ++ b) =
  let (la, ta) := bsplit a in let (lb, tb) := bsplit (ta ++ b) in (la ++ lb, tb).
Proof. apply (bsplit_app_len (length a)); lia. Qed.

Lemma bsplit_tail_idem : forall n s, (length s <= n)%nat -> bsplit (snd (bsplit s)) = ([], snd (bsplit s)).
Proof.
  induction n as [|n IH]; intros s Hl.
  - destruct s; [reflexivity | simpl in Hl; lia].
  - destruct s as [|x s]; [reflexivity|]. destruct s as [|y s]; [reflexivity|].
    rewrite bsplit_unfold2. destruct ((x =? CR) && (y =? LF)) eqn:E.
    + assert (Hl' : (length s <= n)%nat) by (simpl in Hl; lia). specialize (IH s Hl').
      destruct (bsplit s); exact IH.
    + assert (Hl' : (length (y :: s) <= n)%nat) by (simpl in *; lia).
      pose proof (IH (y :: s) Hl') as IH1. pose proof (bsplit_nil_tail n (y :: s) Hl') as Hn.
      destruct (bsplit (y :: s)) as [l t]. destruct l; cbn [cons_first fst snd] in *.
      * rewrite (Hn eq_refl) in *. rewrite bsplit_unfold2, E.
        rewrite IH1. reflexivity.
      * exact IH1.
Qed.

(* however the operating system cuts the byte stream into reads (any partition, cuts between
   CR and LF, one-byte reads, empty reads), the lines and the carried tail are the same *)
Theorem chunking_independent : forall chunks buf,
  bsplit buf = ([], buf) ->
  feed_all buf chunks = feed buf (concat chunks).
Proof.
  induction chunks as [|c cs IH]; intros buf Hb.
  - unfold feed. cbn [feed_all concat]. rewrite app_nil_r, Hb. reflexivity.
  - cbn [feed_all concat]. unfold feed at 1.
    destruct (bsplit (buf ++ c)) as [l1 b1] eqn:E1.
    assert (Hb1 : bsplit b1 = ([], b1)).
    { pose proof (bsplit_tail_idem (length (buf ++ c)) (buf ++ c) (le_n _)) as H.
      rewrite E1 in H. exact H. }
    rewrite (IH b1 Hb1). unfold feed.
    rewrite app_assoc, (bsplit_app (buf ++ c) (concat cs)), E1.
    destruct (bsplit (b1 ++ concat cs)); reflexivity.
Qed.

Corollary serial_lines_depend_only_on_bytes c1 c2 :
  concat c1 = concat c2 -> serial_lines c1 = serial_lines c2.
Proof.
  intros H. unfold serial_lines.
  rewrite (chunking_independent c1 [] eq_refl), (chunking_independent c2 [] eq_refl), H. reflexivity.
Qed.

(* ================================================================ reception is total *)
Definition fenced (e : exn) : bool := match e with PacketInvalid | ValueError => true | _ => false end.

Lemma str_eqb_false a b : str_eqb a b = false -> a <> b.
Proof. intros H E. subst. rewrite str_eqb_refl in H. discriminate. Qed.

(* a valid address field has type "--" exactly when it is the null address *)
Lemma valid_type_dash a : valid_addr a = true -> str_eqb (atype a) (lit "--") = is_non a.
Proof.
  unfold valid_addr. destruct (is_non a) eqn:E.
  - intros _. unfold is_non in E. apply str_eqb_eq in E. subst. reflexivity.
  - cbn [orb]. destruct a as [|d0 [|d1 [|c [|n0 [|n1 [|n2 [|n3 [|n4 [|n5 [|x t]]]]]]]]]]; try discriminate.
    intros H. repeat (apply andb_true_iff in H as [H ?]).
    unfold atype. cbn [firstn]. unfold str_eqb.
    destruct (list_eq_dec ascii_dec [d0; d1] (lit "--")) as [Eq|]; [|reflexivity].
    injection Eq as -> _. discriminate.
Qed.

Lemma pkt_addrs_never_other x0 x1 x2 e : pkt_addrs x0 x1 x2 = Raise e -> e = PacketInvalid.
Proof.
  unfold pkt_addrs.
  destruct (valid_addr x0 && valid_addr x1 && valid_addr x2) eqn:V; cbn [negb]; [|intros [= <-]; reflexivity].
  apply andb_true_iff in V as [V V2]. apply andb_true_iff in V as [V0 V1].
  match goal with |- (if negb ?c then _ else _) = _ -> _ => destruct c eqn:S end; cbn [negb]; [|intros [= <-]; reflexivity].
  cbn [filter]. rewrite !valid_type_dash by assumption.
  destruct (is_non x0) eqn:N0; cbn [negb].
  - destruct (is_non x1) eqn:N1; cbn [negb].
    + destruct (is_non x2) eqn:N2; cbn [negb]; [|discriminate].
      (* all three null: no shape holds *)
      exfalso. cbn in S. rewrite ?andb_false_r in S. discriminate.
    + discriminate.
  - discriminate.
Qed.

Lemma mk_frame_raises s e : mk_frame s = Raise e -> fenced e = true.
Proof.
  unfold mk_frame. destruct (negb (matches COMMAND_RE s)); [intros [= <-]; reflexivity|].
  destruct (pkt_addrs _ _ _) as [ad|e'] eqn:E.
  - destruct (int10 _) as [n|]; [|intros [= <-]; reflexivity].
    destruct (negb _); [intros [= <-]; reflexivity|discriminate].
  - intros [= <-]. rewrite (pkt_addrs_never_other _ _ _ _ E). reflexivity.
Qed.

Lemma has_array_raises f e : has_array f = Raise e -> e = AssertionError.
Proof.
  unfold has_array. destruct (code_of f =? 0x1FC9); [discriminate|].
  match goal with |- (if negb ?r then _ else _) = _ -> _ => destruct r end; cbn [negb]; [|discriminate].
  destruct (assoc _ _) as [el|]; [|discriminate].
  destruct (negb (flen f mod el =? 0)); [intros [= <-]; reflexivity|].
  destruct (negb (_ || _ || _)); [intros [= <-]; reflexivity|].
  destruct (negb (negb _ || _)); [intros [= <-]; reflexivity|discriminate].
Qed.

Lemma pkt_lifespan_raises f e : pkt_lifespan f = Raise e -> e = AssertionError \/ e = ValueError.
Proof.
  unfold pkt_lifespan.
  destruct (verb_is f "RQ" || verb_is f " W"); [discriminate|].
  destruct ((code_of f =? 0x0005) || (code_of f =? 0x000C)); [discriminate|].
  destruct (code_of f =? 0x0006); [discriminate|].
  destruct (code_of f =? 0x0404); [discriminate|].
  unfold bind.
  destruct (if code_of f =? 0x000A then has_array f else Ok false) as [b1|e1] eqn:E1.
  2:{ intros [= <-]. left. destruct (code_of f =? 0x000A); [eapply has_array_raises, E1|discriminate]. }
  destruct b1; [discriminate|].
  destruct (code_of f =? 0x10E0); [discriminate|].
  destruct (code_of f =? 0x1F09); [discriminate|].
  destruct ((code_of f =? 0x1FC9) && verb_is f "RP"); [discriminate|].
  destruct (if (code_of f =? 0x2309) || (code_of f =? 0x30C9) then has_array f else Ok false) as [b2|e2] eqn:E2.
  2:{ intros [= <-]. left. destruct ((code_of f =? 0x2309) || (code_of f =? 0x30C9)); [eapply has_array_raises, E2|discriminate]. }
  destruct b2; [discriminate|].
  destruct (code_of f =? 0x3220).
  - destruct (int16 _) as [id|]; [|intros [= <-]; right; reflexivity].
    destruct (memz id OT_SCHEMA_IDS); [discriminate|]. destruct (memz id OT_PARAMS_IDS); [discriminate|].
    destruct (memz id OT_STATUS_IDS); discriminate.
  - destruct (assoc _ _); discriminate.
Qed.

(* the packet constructor rejects only through PacketInvalid or ValueError *)
Theorem ctor_total line err comment e : mk_packet line err comment = Raise e -> fenced e = true.
Proof.
  unfold mk_packet, bind. destruct (mk_frame (from 4 line)) as [f|e'] eqn:E.
  2:{ intros [= <-]. eapply mk_frame_raises, E. }
  destruct (pkt_lifespan f) as [ls|e'] eqn:L.
  - destruct err; [discriminate|intros [= <-]; reflexivity].
  - destruct (pkt_lifespan_raises _ _ L) as [-> | ->]; intros [= <-]; reflexivity.
Qed.

Theorem from_file_total ok line e : from_file ok line = Raise e -> fenced e = true.
Proof.
  unfold from_file. destruct (pkt_partition line) as [[fr er] co].
  destruct fr as [|c fr]; [intros [= <-]; reflexivity|].
  destruct ok; [apply ctor_total|intros [= <-]; reflexivity].
Qed.

(* no line of text -- any ASCII string at all -- makes an exception escape the receive path *)
Theorem frame_read_never_escapes ok line e : frame_read ok line <> Escape e.
Proof.
  unfold frame_read. destruct (strip line); [discriminate|].
  destruct (from_file ok line) as [p|e'] eqn:E; [discriminate|].
  pose proof (from_file_total _ _ _ E) as F.
  destruct e'; try discriminate F; discriminate.
Qed.

(* hence the reader is a filter-map over the lines: a rejected line, blank line or gateway
   chatter never prevents the lines that follow from being delivered *)
Theorem reader_is_filter_map lines : read_all lines = (filter_map delivered_of lines, None).
Proof.
  induction lines as [|[ok l] t IH]; cbn [read_all filter_map]; [reflexivity|].
  unfold delivered_of at 1. cbn [fst snd].
  destruct (frame_read ok l) as [p| |e] eqn:E.
  - rewrite IH. reflexivity.
  - exact IH.
  - exfalso. eapply frame_read_never_escapes, E.
Qed.

Lemma filter_map_app {A B} (f : A -> option B) l1 l2 : filter_map f (l1 ++ l2) = filter_map f l1 ++ filter_map f l2.
Proof. induction l1 as [|x l1 IH]; cbn [app filter_map]; [reflexivity|]. destruct (f x); rewrite IH; reflexivity. Qed.

Corollary bad_line_does_not_stop_stream l1 bad l2 :
  delivered_of bad = None ->
  fst (read_all (l1 ++ bad :: l2)) = fst (read_all l1) ++ fst (read_all l2).
Proof.
  intros Hb. rewrite !reader_is_filter_map. cbn [fst].
  rewrite filter_map_app. cbn [filter_map]. rewrite Hb. reflexivity.
Qed.

(* before the repair the AssertionError of the array-shape check escaped *)
Definition bad_array_line : str :=
  lit "045  I --- 04:000001 --:------ 01:000002 30C9 006 000000010000".
Theorem ctor_total_old_refuted : mk_packet_old bad_array_line [] [] = Raise AssertionError.
Proof. vm_compute. reflexivity. Qed.
Theorem ctor_now_rejects_it : mk_packet bad_array_line [] [] = Raise PacketInvalid.
Proof. vm_compute. reflexivity. Qed.

