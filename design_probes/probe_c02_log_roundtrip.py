import logging, random, io, os, tempfile, asyncio, sys, datetime as dt
sys.path.insert(0, __import__('os').path.dirname(__file__))
from regen import gen
from ramses_tx.logger import set_pkt_logging
from ramses_tx.packet import Packet, PKT_LOGGER
from ramses_tx.command import Command
from ramses_tx import exceptions as exc
logging.getLogger().setLevel(logging.CRITICAL)
rnd=random.Random(7)
fn=tempfile.mktemp(suffix=".log")
set_pkt_logging(PKT_LOGGER, file_name=fn)
def addr(): return f"{rnd.randint(0,63):02d}:{rnd.randint(0,262143):06d}"
def frame():
    verb=rnd.choice([" I","RQ","RP"," W"]); seqn=rnd.choice(["---",f"{rnd.randint(0,255):03d}"])
    a,b=addr(),addr()
    shape=rnd.choice([0,1,2])
    addrs=[f"{a} --:------ {rnd.choice([a,b])}", f"{a} {b} --:------", f"--:------ --:------ {a}"][shape]
    code="".join(rnd.choice("0123456789ABCDEF") for _ in range(4)); n=rnd.choice([1,2,3,24,47,48])
    pl="".join(rnd.choice("0123456789ABCDEF") for _ in range(2*n))
    return f"{verb} {seqn} {addrs} {code} {n:03d} {pl}"
sent=[]
t0=dt.datetime(2026,3,1,1,2,3,456789)
nbad=0
for i in range(2000):
    f=frame(); rssi=rnd.choice(["---","...","045","000","099"])
    d=t0+dt.timedelta(microseconds=rnd.randint(0,10**10))
    # command round trip
    try:
        c=Command(f); assert str(c)==f, (str(c),f)
    except exc.CommandInvalid: pass
    line=f"{rssi} {f}"+rnd.choice([""," # a comment"," * an err msg"," < hint"])
    try:
        p=Packet.from_port(d, line)
        assert str(p)==f
        sent.append((d,rssi,f,line))
    except (exc.PacketInvalid, ValueError) as e:
        sent.append((d,rssi,f,line,"INVALID"))
    except AssertionError as e:
        nbad+=1
for h in PKT_LOGGER.handlers: h.flush()
lines=open(fn).read().splitlines()
print("log lines",len(lines),"sent",len(sent),"assertion escapes",nbad)
print(lines[0]); print(lines[1]); 
# replay
ok=0; mism=0
j=1
for s in sent:
    l=lines[j]; j+=1
    d,rssi,f=s[0],s[1],s[2]
    dtm,rest=l[:26],l[27:]
    try:
        p=Packet.from_file(dtm,rest)
        good = (str(p)==f and p._rssi==rssi); TS=globals().setdefault("TS",[0,0]); TS[0]+= (p.dtm==d); TS[1]+=1
        if len(s)==5: good=False
    except (exc.PacketInvalid,ValueError):
        good = len(s)==5
    if good: ok+=1
    else:
        mism+=1
        if mism<5: print("MISMATCH", s, "|", l)
print("ok",ok,"mismatch",mism,"same-dtm",TS)
os.remove(fn)
