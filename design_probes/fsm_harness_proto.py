"""probe: run a timed scenario against the real PortProtocol/ProtocolContext on VLoop"""
import asyncio, logging, sys, datetime as _dt, gc
sys.path.insert(0, __import__('os').path.dirname(__file__))
logging.disable(logging.CRITICAL)
from vloop import VLoop, VLoopLIFO
from ramses_tx.protocol import PortProtocol
from ramses_tx.command import Command
from ramses_tx.packet import Packet
from ramses_tx.typing import QosParams
from ramses_tx.const import Priority
from ramses_tx import exceptions as exc
import ramses_tx.protocol_fsm as fsm
EPOCH=_dt.datetime(2026,1,1,12)
GW="18:111111"
class VDT(_dt.datetime):
    _loop=None; _tick=0
    @classmethod
    def now(cls, tz=None):
        cls._tick+=1; return EPOCH+_dt.timedelta(seconds=cls._loop.time(), microseconds=cls._tick)
fsm.dt=VDT
class FakeTransport:
    def __init__(self, loop, auto_echo=None, fail_writes=()):
        self.loop=loop; self.writes=[]; self.extra={'active_gwy':GW,'is_evofw3':True}; self.auto_echo=auto_echo; self.fail=set(fail_writes); self.proto=None
    def get_extra_info(self,k,d=None): return self.extra.get(k,d)
    async def write_frame(self, frame, disable_tx_limits=False):
        n=len(self.writes); self.writes.append((self.loop.time(), frame))
        if n in self.fail: raise exc.TransportError("write failed")
        if self.auto_echo is not None:
            self.loop.call_later(self.auto_echo, self.rx, "000 "+frame.replace("18:000730",GW))
    def rx(self, line):
        self.proto.pkt_received(Packet.from_port(VDT.now(), line))
def run(scn, lifo=False, auto_echo=None, fail_writes=(), horizon=40.0):
    loop=(VLoopLIFO if lifo else VLoop)(); asyncio.set_event_loop(loop); VDT._loop=loop; VDT._tick=0
    trace=[]; errs=[]
    loop.set_exception_handler(lambda l,c: errs.append((round(l.time(),4), type(c.get('exception')).__name__, str(c.get('exception'))[:60])))
    async def main():
        proto=PortProtocol(lambda m: None); tr=FakeTransport(loop, auto_echo, fail_writes); tr.proto=proto
        async def caller(i, cmd, prio, qos):
            t0=loop.time()
            try:
                p=await proto.send_cmd(cmd, priority=prio, qos=qos); trace.append((round(loop.time(),4),"done",i,"OK",str(p)[:3]+str(p)[40:]))
            except Exception as e: trace.append((round(loop.time(),4),"done",i,type(e).__name__))
        for t,ev in scn:
            if ev[0]=="made": loop.call_at(t, lambda: proto.connection_made(tr, ramses=True))
            elif ev[0]=="lost": loop.call_at(t, lambda: proto.connection_lost(None))
            elif ev[0]=="call":
                _,i,cmd,prio,qos=ev; loop.call_at(t, lambda i=i,cmd=cmd,prio=prio,qos=qos: loop.create_task(caller(i,cmd,prio,qos)))
            elif ev[0]=="rx": loop.call_at(t, tr.rx, ev[1])
        await asyncio.sleep(horizon)
        gc.collect(); await asyncio.sleep(0)
        return proto, tr
    proto,tr=loop.run_until_complete(main())
    w=[(round(t,4), f[:2], f[41:45], f[50:]) for t,f in tr.writes]
    return {"writes":w, "trace":trace, "errs":errs, "state":type(proto._context.state).__name__, "qsize":proto._context._que.qsize()}
