From Coq Require Import ZArith String Ascii List Bool Lia.
From RV Require Import Py PyStr Regex GenRegex GenTables M_Command.
Import ListNotations.
Open Scope Z_scope.

Lemma in_zr n x : 0 <= x < Z.of_nat n -> In x (zrange n 0).
Proof. intros H. apply in_zrange. lia. Qed.

(* ---- zone getters ---- *)
Definition ok_opt (verb code : Z) (o : option str) : bool := match o with Some p => payload_ok verb code p | None => true end.
Lemma getters_all : forallb (fun g => forallb (fun i =>
    match getter_payload g i with
    | Some p => (if i <=? 15 then payload_ok V_RQ (getter_code g) p && (match int16 (slice 0 2 p) with Some z => z =? i | None => false end) else true)
    | None => (15 <? i) && negb ((i =? 0xF9) || (i =? 0xFA) || (i =? 0xFC))
    end && registered V_RQ (getter_code g) (getter_name g)) (zrange 256 0)) valid_getters = true.
Proof. vm_compute. reflexivity. Qed.
Theorem zone_getters : forall g i p, In g valid_getters -> 0 <= i < 16 -> getter_payload g i = Some p ->
  payload_ok V_RQ (getter_code g) p = true /\ registered V_RQ (getter_code g) (getter_name g) = true /\ int16 (slice 0 2 p) = Some i.
Proof.
  intros g i p Hg Hi Hp. pose proof (proj1 (forallb_forall _ _) getters_all g Hg) as A. cbv beta in A.
  pose proof (proj1 (forallb_forall _ _) A i (in_zr 256 i ltac:(lia))) as B. cbv beta in B. rewrite Hp in B.
  apply andb_prop in B as [B B2]. assert (E : (i <=? 15) = true) by (apply Z.leb_le; lia). rewrite E in B.
  apply andb_prop in B as [B1 B3]. repeat split; auto.
  destruct (int16 (slice 0 2 p)) as [z|]; [apply Z.eqb_eq in B3; congruence | discriminate].
Qed.
(* every index 0..255 other than a zone or one of the three domain ids is refused; a zone is never refused *)
Theorem zone_getters_refuse : forall g i, In g valid_getters -> 0 <= i < 256 ->
  (getter_payload g i = None <-> (15 < i /\ i <> 0xF9 /\ i <> 0xFA /\ i <> 0xFC)).
Proof.
  intros g i Hg Hi. unfold getter_payload, check_idx.
  destruct (((0 <=? i) && (i <=? 15)) || (i =? 249) || (i =? 250) || (i =? 252)) eqn:E; split; intros H; try discriminate.
  - exfalso. destruct H as (H1 & H2 & H3 & H4).
    repeat (apply orb_true_iff in E as [E|E]); try (apply Z.eqb_eq in E; contradiction).
    apply andb_prop in E as [_ E]. apply Z.leb_le in E. lia.
  - apply orb_false_iff in E as [E E4]. apply orb_false_iff in E as [E E3]. apply orb_false_iff in E as [E E2].
    apply Z.eqb_neq in E2, E3, E4. apply andb_false_iff in E as [E|E]; apply Z.leb_gt in E; repeat split; auto; lia.
  - reflexivity.
Qed.
(* ... but a domain id is let through to the zone getters, whose regex rejects it (known finding) *)
Theorem getter_domain_id_refuted : exists p, getter_payload GZoneConfig 0xFC = Some p /\ payload_ok V_RQ (getter_code GZoneConfig) p = false.
Proof. eexists. split; vm_compute; reflexivity. Qed.
Theorem mix_valve_refuted : forall i p, getter_payload GMixValve i = Some p -> payload_ok V_RQ (getter_code GMixValve) p = false.
Proof. intros i p _. reflexivity. Qed.

(* ---- set_zone_setpoint: every index 0..15 and EVERY setpoint word (no sweep: the regex is '0' + five hex digits) ---- *)
Definition HEXC : re := Cls [(48,57); (65,70)]%nat.
Lemma hexc_spec c : is_hex_upper c = true -> lang HEXC [c].
Proof.
  intros H. apply LChr. unfold in_ranges, is_hex_upper in *. cbn [existsb fst snd].
  set (n := nat_of_ascii c) in *. apply orb_true_iff in H. apply orb_true_iff.
  destruct H as [H|H]; apply andb_prop in H as [H1 H2]; apply Z.leb_le in H1, H2; [left | right; apply orb_true_iff; left];
    apply andb_true_intro; split; apply Nat.leb_le; lia.
Qed.
Lemma pow_hex : forall s, forallb is_hex_upper s = true -> lang (pow (List.length s) HEXC) s.
Proof.
  induction s as [|c s IH]; intros H; [constructor|]. cbn in H. apply andb_prop in H as [Hc Hs].
  cbn [List.length pow]. change (c :: s) with ([c] ++ s). constructor; [apply hexc_spec; exact Hc | apply IH; exact Hs].
Qed.
Lemma rx_2309_w_shape : RX_2309_3_p = Emp /\ RX_2309_3_f = Cat (Cls [(48,48)]%nat) (rep 5 5 HEXC).
Proof. split; reflexivity. Qed.
Lemma idx_head : forallb (fun idx => match hexN 2 idx with c :: d :: [] => Ascii.eqb c "0"%char && is_hex_upper d | _ => false end) (zrange 16 0) = true.
Proof. vm_compute. reflexivity. Qed.
Lemma find_2309_w : find (fun r => let '(c, v, _, _) := r in (c =? 0x2309) && (v =? V_W)) PAYLOAD_REGEXES = Some (0x2309, V_W, RX_2309_3_p, RX_2309_3_f).
Proof. vm_compute. reflexivity. Qed.

Theorem set_zone_setpoint : forall idx k, 0 <= idx < 16 ->
  payload_ok V_W 0x2309 (setpoint_payload idx k) = true /\ int16 (slice 2 6 (setpoint_payload idx k)) = Some (k mod 65536).
Proof.
  intros idx k Hi. unfold setpoint_payload. assert (Hw : 0 <= k mod 65536 < 65536) by (apply Z.mod_pos_bound; lia).
  pose proof (proj1 (forallb_forall _ _) idx_head idx (in_zr 16 idx Hi)) as A. cbv beta in A.
  destruct (hexN 2 idx) as [|c [|d [|e r]]] eqn:E; try discriminate. apply andb_prop in A as [Ac Ad].
  apply Ascii.eqb_eq in Ac. subst c. split.
  - unfold payload_ok. rewrite find_2309_w. destruct rx_2309_w_shape as [-> ->].
    apply orb_true_iff; right. apply matches_correct.
    change (("0"%char :: d :: nil) ++ hexN 4 (k mod 65536)) with (["0"%char] ++ (d :: hexN 4 (k mod 65536))).
    constructor; [apply LChr; reflexivity|].
    unfold rep. replace (d :: hexN 4 (k mod 65536)) with ((d :: hexN 4 (k mod 65536)) ++ []) by apply app_nil_r.
    constructor; [|cbn; constructor].
    assert (L : List.length (d :: hexN 4 (k mod 65536)) = 5%nat) by (cbn [List.length]; rewrite hexN_length; reflexivity).
    rewrite <- L. apply pow_hex. cbn [forallb]. rewrite Ad, hexN_all_hex. reflexivity.
  - assert (S : slice 2 6 (("0"%char :: d :: nil) ++ hexN 4 (k mod 65536)) = hexN 4 (k mod 65536)).
    { unfold slice. cbn [app skipn]. replace (6 - 2)%nat with (List.length (hexN 4 (k mod 65536))) by (rewrite hexN_length; reflexivity). apply firstn_all. }
    rewrite S. apply int16_hexN; [lia | cbn; lia].
Qed.

(* ---- get_system_log_entry: the 64 entries are valid, anything else is refused ---- *)
Lemma log_all : forallb (fun i => match log_entry_payload i with Some p => (i <=? 63) && payload_ok V_RQ 0x0418 p | None => 63 <? i end) (zrange 300 0) = true.
Proof. vm_compute. reflexivity. Qed.
Theorem log_entry_valid : forall i p, log_entry_payload i = Some p -> 0 <= i < 64 /\ payload_ok V_RQ 0x0418 p = true.
Proof.
  intros i p H. unfold log_entry_payload in H. destruct ((0 <=? i) && (i <=? 63)) eqn:E; [|discriminate].
  apply andb_prop in E as [E1 E2]. apply Z.leb_le in E1, E2. split; [lia|].
  pose proof (proj1 (forallb_forall _ _) log_all i (in_zr 300 i ltac:(lia))) as A. cbv beta in A.
  unfold log_entry_payload in A. assert (E : (0 <=? i) && (i <=? 63) = true) by (apply andb_true_intro; split; apply Z.leb_le; lia).
  rewrite E in A. injection H as <-. apply andb_prop in A as [_ A]. exact A.
Qed.
(* regression witness: before the repair index 64 was built all the same, and the decoder's regex rejects it *)
Theorem log_entry_refuted : payload_ok V_RQ 0x0418 (hexN 6 64) = false.
Proof. vm_compute. reflexivity. Qed.

(* ---- get_opentherm_data: all 256 ids ---- *)
Lemma ot_all : forallb (fun i => payload_ok V_RQ 0x3220 (opentherm_payload i)
                                 && (match int16 (slice 4 6 (opentherm_payload i)) with Some z => z =? i | None => false end)) (zrange 256 0) = true.
Proof. vm_compute. reflexivity. Qed.
Theorem opentherm_valid : forall i, 0 <= i < 256 ->
  payload_ok V_RQ 0x3220 (opentherm_payload i) = true /\ int16 (slice 4 6 (opentherm_payload i)) = Some i.
Proof.
  intros i Hi. pose proof (proj1 (forallb_forall _ _) ot_all i (in_zr 256 i Hi)) as B. cbv beta in B.
  apply andb_prop in B as [B1 B2]. split; [exact B1|].
  destruct (int16 (slice 4 6 (opentherm_payload i))) as [z|]; [apply Z.eqb_eq in B2; congruence | discriminate].
Qed.

(* ---- get_schedule_fragment: every accepted (zone, fragment, total) up to 16 x 32 x 32 ---- *)
Lemma frag_all : forallb (fun idx => forallb (fun fn => forallb (fun tot =>
    match fragment_request idx fn tot with Some p => payload_ok V_RQ 0x0404 p | None => true end) (zrange 32 0)) (zrange 32 0)) (zrange 16 0) = true.
Proof. vm_compute. reflexivity. Qed.
Theorem fragment_request_valid : forall idx fn tot p, 0 <= idx < 16 -> 0 <= fn < 32 -> 0 <= tot < 32 ->
  fragment_request idx fn tot = Some p -> payload_ok V_RQ 0x0404 p = true.
Proof.
  intros idx fn tot p H1 H2 H3 Hp.
  pose proof (proj1 (forallb_forall _ _) frag_all idx (in_zr 16 idx H1)) as A. cbv beta in A.
  pose proof (proj1 (forallb_forall _ _) A fn (in_zr 32 fn H2)) as B. cbv beta in B.
  pose proof (proj1 (forallb_forall _ _) B tot (in_zr 32 tot H3)) as C. cbv beta in C. rewrite Hp in C. exact C.
Qed.

(* ---- the other modelled builders are registered under the verb/code they build ---- *)
Theorem registered_all :
  registered V_W 0x2309 "set_zone_setpoint" = true /\ registered V_RQ 0x0418 "get_system_log_entry" = true /\
  registered V_RQ 0x3220 "get_opentherm_data" = true /\ registered V_RQ 0x0404 "get_schedule_fragment" = true.
Proof. vm_compute. repeat split; reflexivity. Qed.

(* ---------------------------------------------------------------- the getters with a fixed payload *)
Lemma fg_all : forallb (fun g => forallb (fun i => match fgetter_payload g i with
    | Some p => payload_ok V_RQ (fg_code g) p && registered V_RQ (fg_code g) (fg_name g) | None => false end) [0; 1]) all_fgetters = true.
Proof. vm_compute. reflexivity. Qed.
Lemma fg_in g : In g all_fgetters.  Proof. destruct g; cbn; tauto. Qed.
Theorem fixed_getters_valid : forall g i, 0 <= i <= 1 -> exists p, fgetter_payload g i = Some p /\
  payload_ok V_RQ (fg_code g) p = true /\ registered V_RQ (fg_code g) (fg_name g) = true.
Proof.
  intros g i Hi. pose proof fg_all as H. rewrite forallb_forall in H. specialize (H g (fg_in g)). rewrite forallb_forall in H.
  assert (Hin : In i [0; 1]) by (cbn; lia). specialize (H i Hin).
  destruct (fgetter_payload g i) as [p|]; [|discriminate]. apply andb_prop in H. destruct H as [H1 H2]. exists p. auto.
Qed.
(* the DHW getters share _check_idx with set_dhw_mode: any other zone or domain id is built and then rejected (the recorded dhw-idx-let-through finding) *)
Lemma fg_dhw_all : forallb (fun g => forallb (fun i => match fgetter_payload g i with
    | Some p => Bool.eqb (payload_ok V_RQ (fg_code g) p) (negb (fg_is_dhw g) || (i <=? 1))
    | None => fg_is_dhw g && (15 <? i) && negb (i =? 0xF9) && negb (i =? 0xFA) && negb (i =? 0xFC) end) (zrange 256 0)) all_fgetters = true.
Proof. vm_compute. reflexivity. Qed.
Theorem fixed_getters_idx : forall g i, 0 <= i < 256 ->
  match fgetter_payload g i with
  | Some p => payload_ok V_RQ (fg_code g) p = true <-> (fg_is_dhw g = false \/ i <= 1)
  | None => fg_is_dhw g = true /\ 15 < i /\ i <> 0xF9 /\ i <> 0xFA /\ i <> 0xFC end.
Proof.
  intros g i Hi. pose proof fg_dhw_all as H. rewrite forallb_forall in H. specialize (H g (fg_in g)). rewrite forallb_forall in H.
  specialize (H i (in_zr 256 i Hi)). destruct (fgetter_payload g i) as [p|].
  - apply Bool.eqb_prop in H. rewrite H. destruct (fg_is_dhw g); cbn; split; intro K.
    + right. lia. + destruct K as [K|K]; [discriminate|lia]. + now left. + reflexivity.
  - destruct (fg_is_dhw g); cbn in H; [|discriminate]. split; [reflexivity|]. lia.
Qed.
Theorem dhw_getter_idx_refuted : exists p, fgetter_payload FDhwMode 2 = Some p /\ payload_ok V_RQ (fg_code FDhwMode) p = false.
Proof. eexists; split; [reflexivity | vm_compute; reflexivity]. Qed.
