Require Import Qos.
From Coq Require Import ZArith List Bool Arith Lia.
Import ListNotations.

Ltac break_match :=
  match goal with
  | |- context [match ?x with _ => _ end] => destruct x eqn:?
  | H : context [match ?x with _ => _ end] |- _ => destruct x eqn:?
  end.

Definition res_world (r : R) : world := match r with Ok w => w | Crash _ w => w end.

Lemma cancel_exp_cx w t : cx (cancel_exp w t) = cx w.
Proof. unfold cancel_exp. repeat break_match; reflexivity. Qed.
Lemma resolve_cx w c f : cx (resolve w c f) = cx w.
Proof. unfold resolve. repeat break_match; reflexivity. Qed.

(* bind/assert algebra: the "frame" style — a property of the world that every piece preserves *)
Definition P (k : nat) (w : world) : Prop := txl (cx w) = k.

Lemma bind_P k r f : P k (res_world r) -> (forall w, P k w -> P k (res_world (f w))) -> P k (res_world (bind r f)).
Proof. destruct r; cbn; auto. Qed.
Lemma assert_P k b n w : P k w -> P k (res_world (assert b n w)).
Proof. unfold assert; destruct b; auto. Qed.

Lemma set_state_txl w ns h : P (txl (cx w)) (res_world (set_state w ns h)).
Proof.
  unfold set_state.
  set (w1 := match expiry (cx w) with Some t => _ | None => w end).
  assert (H1 : P (txl (cx w)) w1).
  { unfold w1, P. destruct (expiry (cx w)); cbn; [rewrite cancel_exp_cx|]; reflexivity. }
  clearbody w1. revert H1. generalize (txl (cx w)) as k. intros k H1.
  apply bind_P.
  - destruct (curfut (cx w1)).
    + destruct (fut_of w1 c); destruct h;
        repeat (first [ apply bind_P | apply assert_P | intros ]); cbn [res_world];
        unfold P in *; rewrite ?resolve_cx; auto.
    + repeat (first [ apply bind_P | apply assert_P | intros ]); auto.
  - intros w2 H2.
    destruct h, ns; cbn beta iota;
      repeat (first [ apply bind_P | apply assert_P | intros ]); cbn [res_world];
      unfold P in *; cbn; auto.
Qed.
