(* RegexSym: matching a regex against a SYMBOLIC string -- a list of positions each of which is either one fixed character or
   "any character of a class" -- so that one kernel computation decides membership for every string of that shape.
   [smatch_sound]: smatch r ss = true -> every concretisation of ss matches r.  Used for the payloads of the command
   constructors, whose data fields (temperatures, datetimes, durations) are arbitrary hex digits. *)
From Coq Require Import List Bool Ascii Arith Lia.
From RV Require Import Regex.
Import ListNotations.

Definition all_ascii : list ascii := map ascii_of_nat (seq 0 256).
Lemma in_all_ascii c : In c all_ascii.
Proof.
  unfold all_ascii. apply in_map_iff. exists (nat_of_ascii c). split; [apply ascii_nat_embedding|].
  apply in_seq. pose proof (nat_ascii_bounded c). lia.
Qed.

(* the derivative with respect to EVERY character of a list at once: defined when each character test of the expression
   gives the same answer on the whole list *)
Fixpoint sderiv (cs : list ascii) (r : re) : option re :=
  match r with
  | Emp | Eps => Some Emp
  | Chr f => if forallb f cs then Some Eps else if forallb (fun c => negb (f c)) cs then Some Emp else None
  | Cat a b =>
      match sderiv cs a with
      | None => None
      | Some da => if nullable a then match sderiv cs b with Some db => Some (mkAlt (mkCat da b) db) | None => None end
                   else Some (mkCat da b)
      end
  | Alt a b => match sderiv cs a, sderiv cs b with Some da, Some db => Some (mkAlt da db) | _, _ => None end
  | Star a => match sderiv cs a with Some da => Some (mkCat da (Star a)) | None => None end
  end.

Lemma sderiv_spec cs r : forall d, sderiv cs r = Some d -> forall c, In c cs -> deriv c r = d.
Proof.
  induction r as [| |f|a IHa b IHb|a IHa b IHb|a IHa]; intros d H c Hc; cbn [sderiv deriv] in *.
  - injection H as <-. reflexivity.
  - injection H as <-. reflexivity.
  - destruct (forallb f cs) eqn:E1.
    + injection H as <-. rewrite forallb_forall in E1. rewrite (E1 c Hc). reflexivity.
    + destruct (forallb (fun c0 => negb (f c0)) cs) eqn:E2; [|discriminate]. injection H as <-.
      rewrite forallb_forall in E2. specialize (E2 c Hc). apply negb_true_iff in E2. rewrite E2. reflexivity.
  - destruct (sderiv cs a) as [da|]; [|discriminate]. rewrite (IHa da eq_refl c Hc).
    destruct (nullable a).
    + destruct (sderiv cs b) as [db|]; [|discriminate]. injection H as <-. rewrite (IHb db eq_refl c Hc). reflexivity.
    + injection H as <-. reflexivity.
  - destruct (sderiv cs a) as [da|]; [|discriminate]. destruct (sderiv cs b) as [db|]; [|discriminate].
    injection H as <-. rewrite (IHa da eq_refl c Hc), (IHb db eq_refl c Hc). reflexivity.
  - destruct (sderiv cs a) as [da|]; [|discriminate]. injection H as <-. rewrite (IHa da eq_refl c Hc). reflexivity.
Qed.

Inductive sym := SC (c : ascii) | SAny (rs : list (nat * nat)).
Definition conc1 (y : sym) (c : ascii) : Prop := match y with SC c' => c = c' | SAny rs => in_ranges rs c = true end.
Definition conc (ss : list sym) (s : list ascii) : Prop := Forall2 conc1 ss s.
Definition chars_of (rs : list (nat * nat)) : list ascii := filter (in_ranges rs) all_ascii.

Fixpoint smatch (r : re) (ss : list sym) : bool :=
  match ss with
  | [] => nullable r
  | SC c :: t => smatch (deriv c r) t
  | SAny rs :: t => match sderiv (chars_of rs) r with Some d => smatch d t | None => false end
  end.

Lemma in_chars_of rs c : in_ranges rs c = true -> In c (chars_of rs).
Proof. intro H. unfold chars_of. apply filter_In. split; [apply in_all_ascii | exact H]. Qed.
Strategy opaque [all_ascii chars_of].

Lemma smatch_any r rs t : smatch r (SAny rs :: t) = match sderiv (chars_of rs) r with Some d => smatch d t | None => false end.
Proof. reflexivity. Qed.
Lemma smatch_chr r c t : smatch r (SC c :: t) = smatch (deriv c r) t.
Proof. reflexivity. Qed.

Theorem smatch_sound : forall ss r, smatch r ss = true -> forall s, conc ss s -> matches r s = true.
Proof.
  induction ss as [|y ss IH]; intros r H s C; inversion C as [|y' c ss' s' Hc Ct]; subst.
  - exact H.
  - destruct y as [c'|rs].
    + rewrite smatch_chr in H. unfold conc1 in Hc. subst c'. change (matches (deriv c r) s' = true). apply IH; assumption.
    + rewrite smatch_any in H. unfold conc1 in Hc. change (matches (deriv c r) s' = true).
      destruct (sderiv (chars_of rs) r) as [d|] eqn:E; [|discriminate].
      rewrite (sderiv_spec _ _ d E c (in_chars_of rs c Hc)). apply IH; assumption.
Qed.

(* building concretisations *)
Lemma conc_app a b s t : conc a s -> conc b t -> conc (a ++ b) (s ++ t).
Proof. apply Forall2_app. Qed.
Lemma conc_lit s : conc (map SC s) s.
Proof. induction s as [|c s IH]; constructor; [reflexivity | exact IH]. Qed.
Lemma conc_class rs s : forallb (in_ranges rs) s = true -> conc (repeat (SAny rs) (length s)) s.
Proof.
  induction s as [|c s IH]; intro H; cbn; [constructor|]. cbn in H. apply andb_prop in H as [H1 H2].
  constructor; [exact H1 | apply IH; exact H2].
Qed.
