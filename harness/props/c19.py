"""C19 -- fault-log view: theorems, correspondence with the real FaultLog, history search."""

from __future__ import annotations

import datetime as _dt
import logging
import re
from collections import OrderedDict, deque
from datetime import datetime as dt, timedelta as td

from .. import common
from ..common import Ctx

THEOREMS = [
    "C19_no_invented", "C19_views_total", "C19_log_is_map_values", "C19_keys_unique",
    "C19_fresh_read_through_partial", "C19_announcement_pushes_down_partial",
    "C19_cutoff_is_last_slot", "C19_view_within_log", "C19_announcement_at_full_depth",
    "C19_clean_histories_track", "C19_read_through_completes", "C19_clean_history_example",
    "C19_no_duplicates_refuted", "C19_pushdown_refuted", "C19_read_through_refuted", "C19_nonvacuous",
    "C19_read_through_asks_every_slot", "C19_full_log_read_to_the_last_slot",
]

PRELUDE = ("From Coq Require Import ZArith List Bool.\nFrom RV Require Import GenConsts M_Faultlog.\n"
           "Import ListNotations.\nOpen Scope Z_scope.\nSet Printing Width 1000000.\nSet Printing Depth 1000000.\n")

CTL = "01:145038"
BASE = dt(2021, 1, 1)


def ts(t: int) -> str:
    return (BASE + td(minutes=t)).strftime("%y-%m-%dT%H:%M:%S")


def unts(s: str) -> int:
    return int((dt.strptime(s, "%y-%m-%dT%H:%M:%S") - BASE).total_seconds() // 60)


class _Tcs:
    id = CTL
    _gwy = None


def mk_msgs():
    from ramses_tx.command import Command  # noqa: PLC0415
    from ramses_tx.helpers import hex_from_dts  # noqa: PLC0415
    from ramses_tx.message import Message  # noqa: PLC0415
    from ramses_tx.packet import Packet  # noqa: PLC0415
    from ramses_rf.system.faultlog import FaultLog  # noqa: PLC0415

    now = dt(2022, 1, 1)
    hacker = FaultLog(_Tcs())

    def entry_msg(verb: str, idx: int, t: int, dev_hex: str = "1283B3"):
        pay = f"00{'00' if t % 2 else '40'}{idx:02X}B00400000000{hex_from_dts(ts(t))}FFFF7000{dev_hex}"
        if verb == " I":
            frame = f" I --- {CTL} --:------ {CTL} 0418 022 {pay}"
        else:
            frame = f"RP --- {CTL} 18:000730 --:------ 0418 022 {pay}"
        return Message(Packet(now, "000 " + frame))

    def null_msg(idx: int):
        frame = f"RP --- {CTL} 18:000730 --:------ 0418 022 000000B0000000000000000000007FFFFF7000000000"
        pkt = Packet(now, "000 " + frame)
        cmd = Command.get_system_log_entry(CTL, idx)
        return hacker._hack_pkt_idx(pkt, cmd)

    return entry_msg, null_msg


def ref_insert(m: list, idx: int, dtm, maxidx: int) -> list:
    """The Coq model's insert_into_map, transcribed (checked against coqc on every X1 case of every run)."""
    part1 = [(k, v) for k, v in m if k < idx and (dtm is None or dtm < v)]
    if dtm is None:
        return part1

    def upd(lst, k, v):
        for i, (k2, _) in enumerate(lst):
            if k2 == k:
                return lst[:i] + [(k, v)] + lst[i + 1:]
        return lst + [(k, v)]

    nm = upd(part1, idx, dtm)
    idxs = [k for k, v in m if v < dtm]
    if not idxs:
        return nm
    nxt = min(idxs)
    diff = 0 if idx < nxt else (1 if nxt == idx else idx + 1)
    for k, v in m:
        if (idx <= k or v < dtm) and k + diff <= maxidx:
            nm = upd(nm, k + diff, v)
    return nm


def public_view(f):
    """The PUBLIC view (FaultLog.faultlog) as {log index: timestamp}; reading it is what a user does (and what fills any cache)."""
    return {k: e.timestamp for k, e in f.faultlog.items()}


def view_is_state(ctx, f, hist) -> None:
    """The public view is exactly what the object's own log state says, after every operation (no stale copy)."""
    pv, st = public_view(f), dict(f._map)
    if pv != st:
        diff = {k: (pv.get(k), st.get(k)) for k in sorted(set(pv) | set(st)) if pv.get(k) != st.get(k)}
        ctx.violation("public-view-differs-from-the-log-state", "FaultLog.faultlog (the public view) is not the log the object holds: a stale or partial copy is shown",
                      {"history": [list(h) if isinstance(h, tuple) else h for h in list(hist)[-12:]], "slots(view,state)": {f"{k:02X}": list(d) for k, d in list(diff.items())[:6]}}, "history")


def coq_map(m) -> str:
    return "[" + "; ".join(f"({k},{v})" for k, v in m) + "]"


def parse_pairs_lists(out: str):
    """Parse `= [ [(a,b); ...]; ... ] : list ...` into a list of lists of int tuples."""
    m = re.search(r"=\s*(\[.*\])\s*:\s*list", out, flags=re.S)
    if not m:
        raise ValueError("cannot parse: " + out[:300])
    txt = m.group(1)
    txt = txt.replace(";", ",")
    return eval(txt, {"__builtins__": {}})  # noqa: S307  (digits, brackets, commas, minus only)


def run(ctx: Ctx) -> None:
    logging.disable(logging.CRITICAL)
    from ramses_rf.system.faultlog import FaultLog  # noqa: PLC0415

    rng = ctx.rng
    thorough = ctx.tier == "thorough"
    ctx.rule = ("(X1) _insert_into_map on random and reachable maps; (X2) random histories of real 0418 messages "
                "(announcements, replies at arbitrary positions, null replies) through the real FaultLog; (O) breadth-first "
                "enumeration of controller-consistent histories (new entries delivered/lost, RP(i), null RP, read-throughs) "
                "on the real _insert_into_map; non-trivial = the map changed; distinct = by (controller log, belief) state")
    ctx.assumptions += ["timestamps are integers ordered like the 'yy-mm-ddThh:mm:ss' strings the code compares (one century)"]
    built = ctx.build("C19", THEOREMS)
    MAX = FaultLog._MAX_LOG_IDX
    fl = FaultLog(_Tcs())

    # ------------------------------------------------------------ X1: the map function
    cases, impl, ref_x1 = [], [], []
    pool: list[tuple] = [()]
    n1 = 6000 if thorough else 1500
    for _ in range(n1):
        if rng.random() < 0.6:
            m = list(rng.choice(pool))
        else:
            keys = rng.sample(range(0, 66), rng.randint(0, 7))
            m = [(k, rng.randint(1, 12)) for k in keys]
        idx = rng.choice([0, 0, 1, 2, 3, rng.randint(0, 64), MAX, MAX - 1])
        dtm = rng.choice([None, None] + [rng.randint(1, 13)] * 6)
        fl._map = OrderedDict(m)
        r = fl._insert_into_map(idx, ts(dtm) if dtm is not None else None) if False else None
        fl._map = OrderedDict((k, ts(v)) for k, v in m)
        r = fl._insert_into_map(idx, ts(dtm) if dtm is not None else None)
        res = [(k, unts(v)) for k, v in r.items()]
        ctx.case(("ins", tuple(m), idx, dtm), res != m, "insert")
        impl.append(res)
        ref_x1.append(ref_insert(m, idx, dtm, MAX))
        if len(res) <= 8 and len(pool) < 4000:
            pool.append(tuple(res))
        cases.append(f"({coq_map(m)}, {idx}, {'None' if dtm is None else f'Some {dtm}'})")
    files = {}
    for k in range(0, n1, 500):
        files[f"x1_{k // 500}"] = (PRELUDE + "Eval vm_compute in (map (fun x : fmap * Z * option Z => match x with (m, i, d) => insert_into_map m i d end) "
                                   + common.coq_list(cases[k:k + 500], ";\n ") + ").")

    # ------------------------------------------------------------ X2: real messages through the real class
    entry_msg, null_msg = mk_msgs()
    hist_cases, hist_impl = [], []
    n2 = 1200 if thorough else 300
    for _ in range(n2):
        f2 = FaultLog(_Tcs())
        log: list[int] = []  # controller log, newest first
        nxt = 1
        evs = []
        for _ in range(rng.randint(1, 14)):
            op = rng.random()
            if op < 0.35 and len(log) < 10:
                log.insert(0, nxt)
                nxt += 1
                if rng.random() < 0.7:
                    evs.append(("E", 0, log[0]))
                    f2.handle_msg(entry_msg(" I", 0, log[0]))
            elif op < 0.9:
                i = rng.randint(0, min(len(log) + 1, MAX))
                if i < len(log):
                    evs.append(("E", i, log[i]))
                    f2.handle_msg(entry_msg("RP", i, log[i]))
                else:
                    if i > 0:  # the null reply to RQ idx 00 carries no index: the code ignores it
                        evs.append(("N", i))
                    f2._process_msg(null_msg(i))
            else:  # an inconsistent/foreign entry (another controller's traffic cannot get here, but late packets can)
                i, t = rng.randint(0, 5), rng.randint(1, nxt)
                evs.append(("E", i, t))
                f2.handle_msg(entry_msg("RP", i, t))
            # views must never raise
            try:
                view = f2.faultlog
                _ = (f2.latest_event, f2.latest_fault, f2.active_faults)
                assert all(isinstance(k, int) for k in view)
            except Exception as err:  # noqa: BLE001
                ctx.violation("view-raises", "reading the fault-log view raised " + type(err).__name__,
                              {"history": evs, "error": repr(err)}, "history")
            else:
                view_is_state(ctx, f2, evs)
        mp = [(k, unts(v)) for k, v in f2._map.items()]
        lg = [unts(k) for k in f2._log]
        reported = {e[2] for e in evs if e[0] == "E"}
        if not {v for _, v in mp} <= reported:
            ctx.violation("invented-entry", "the view shows an entry that was never reported", {"history": evs, "map": mp}, "history")
        ctx.case(("hist", tuple(evs)), bool(mp), "history")
        hist_impl.append([mp, [(x, 0) for x in lg]])
        # another controller's fault log in the same process (two systems on one gateway) has heard nothing: it shows nothing of this one's
        other = FaultLog(_Tcs())
        try:
            leaked = {"faultlog": dict(other.faultlog), "latest_event": other.latest_event, "latest_fault": other.latest_fault, "active_faults": other.active_faults}
        except Exception as err:  # noqa: BLE001
            leaked = {"raises": repr(err)}
        if any(leaked.values()):
            ctx.violation("another-fault-log-shows-this-controllers-entries", "a second FaultLog object, which has processed no message, shows entries reported to the first",
                          {"history": evs, "views_of_the_untouched_log": {k: str(v)[:200] for k, v in leaked.items() if v}}, "history")
        if evs and evs[-1][0] == "E":          # ... and when it hears its own controller report an entry stamped like one of the first's, it shows ITS entry
            t = evs[-1][2]
            from ramses_rf.system.faultlog import FaultLogEntry  # noqa: PLC0415
            m_other = entry_msg("RP", 0, t, dev_hex="1283B5")
            if m_other is not None:
                other.handle_msg(m_other)
                e0 = other.faultlog.get(0)
                if e0 is None or str(e0) != str(FaultLogEntry.from_msg(m_other)):
                    ctx.violation("another-fault-log-shows-this-controllers-entries", "the second FaultLog shows the first controller's entry in place of its own (same timestamp)",
                                  {"history": evs, "own_entry": str(m_other._pkt), "shown": str(e0)}, "history")
        hist_cases.append("[" + "; ".join(f"FEntry {e[1]} {e[2]}" if e[0] == "E" else f"FNull {e[1]}" for e in evs) + "]")
    for k in range(0, n2, 300):
        files[f"x2_{k // 300}"] = (PRELUDE + "Eval vm_compute in (map (fun evs => let s := run evs finit in [fl_map s; map (fun x => (x, 0)) (fl_log s)]) "
                                   + common.coq_list(hist_cases[k:k + 300], ";\n ") + ").")

    if built:
        res = common.coq_eval("C19", files, timeout=600)
        for tag, imp, n, sz in (("x1", impl, n1, 500), ("x2", hist_impl, n2, 300)):
            model = []
            ok = True
            for k in range(0, n, sz):
                rc, out = res[f"{tag}_{k // sz}"]
                if rc:
                    ok = False
                    ctx.obligation(f"correspondence:{tag}", False, "correspondence", out[-500:])
                    break
                model += parse_pairs_lists(out)
            if not ok:
                continue
            if tag == "x1":
                model = [[tuple(p) for p in r] for r in model]
                imp2 = [[tuple(p) for p in r] for r in imp]
                refbad = [i for i, (a, b) in enumerate(zip(model, ref_x1)) if a != [tuple(p) for p in b]]
                ctx.obligation("harness:python-reference-equals-coq-model", not refbad, "correspondence",
                               f"{len(refbad)} cases differ (first {cases[refbad[0]]})" if refbad else "")
            else:
                model = [[[tuple(p) for p in part] for part in r] for r in model]
                imp2 = [[[tuple(p) for p in part] for part in r] for r in imp]
            bad = [i for i, (a, b) in enumerate(zip(model, imp2)) if a != b]
            detail = ""
            if bad:
                src = cases if tag == "x1" else hist_cases
                detail = f"{len(bad)} of {n} differ; first: input {src[bad[0]]} model {model[bad[0]]} implementation {imp2[bad[0]]}"
            ctx.obligation(f"correspondence:{'insert_into_map' if tag == 'x1' else 'process_msg-histories'}",
                           not bad and len(model) == len(imp2), "correspondence", detail)
    else:
        ctx.obligation("correspondence:insert_into_map", False, "correspondence", "model not built")
        ctx.obligation("correspondence:process_msg-histories", False, "correspondence", "model not built")

    # ------------------------------------------------------------ O: search over controller-consistent histories
    search(ctx, fl, maxn=7 if thorough else 5, maxdepth=11 if thorough else 8)

    # ------------------------------------------------------------ D: a simulated controller log at FULL depth
    deep_log(ctx, entry_msg, null_msg, rounds=24 if thorough else 6)
    kcases, kimpl = ctx.extra.pop("clean_history_cases")
    if built:
        pre = PRELUDE.replace("M_Faultlog.", "M_Faultlog P_Faultlog P_FaultlogDepth P_FaultlogClean.")
        src = pre + ("Eval vm_compute in (map (fun ops => match krun ops kinit with Some st => fl_map (k_s st) | None => [(-1, -1)] end) "
                     + common.coq_list(kcases, ";\n ") + ").")
        rc, out = common.coq_eval("C19k", {"k": src}, timeout=600)["k"]
        if rc:
            ctx.obligation("correspondence:clean-histories(krun)", False, "correspondence", out[-400:])
        else:
            model = [[tuple(p) for p in r] for r in parse_pairs_lists(out)]
            bad = [i for i, (a, b) in enumerate(zip(model, kimpl)) if a != [tuple(p) for p in b]]
            ctx.obligation("correspondence:clean-histories(krun)", not bad and len(model) == len(kimpl), "correspondence",
                           f"{len(bad)} of {len(kimpl)} differ; first: ops {kcases[bad[0]][:300]} model {model[bad[0]][:6]} implementation {kimpl[bad[0]][:6]}" if bad else "")
    else:
        ctx.obligation("correspondence:clean-histories(krun)", False, "correspondence", "model not built")
    asks = ctx.extra.pop("read_through_asks", [])
    if built and asks:
        src = PRELUDE + "Eval vm_compute in (map (fun n => get_faultlog_asks n 0 64) [" + "; ".join(f"{n}%nat" for n, _ in asks) + "]).\n"
        rc, out = common.coq_eval("C19a", {"a": src}, timeout=120)["a"]
        m = re.search(r"=\s*(\[.*\])\s*:\s*list \(list nat\)", out, flags=re.S)
        if rc or not m:
            ctx.obligation("correspondence:read-through-requests", False, "correspondence", out[-300:])
        else:
            model = [list(r) for r in eval(m.group(1).replace(";", ",").replace("%nat", ""), {"__builtins__": {}})]  # noqa: S307
            bad = [i for i, (a, (_, b)) in enumerate(zip(model, asks)) if a != b]
            ctx.obligation("correspondence:read-through-requests", not bad and len(model) == len(asks), "correspondence",
                           f"{len(bad)} of {len(asks)} read-throughs ask for other slots than the model; first: log of {asks[bad[0]][0]} entries: model {model[bad[0]][-4:]} (last four), get_faultlog() {asks[bad[0]][1][-4:]}" if bad
                           else f"{len(asks)} undisturbed read-throughs by the real get_faultlog() (logs of 2..64+ entries): the slots asked for are the model's")
    elif not built:
        ctx.obligation("correspondence:read-through-requests", False, "correspondence", "model not built")


DEPTH = 64   # the property: "log up to 64 deep" -- the controller's slots are 00..3F, whatever the library's constants say


def deep_log(ctx: Ctx, entry_msg, null_msg, rounds: int) -> None:
    """Histories on the real FaultLog (real 0418 messages) against an independently simulated 64-deep controller log."""
    from ramses_rf.system.faultlog import FaultLog  # noqa: PLC0415

    rng = ctx.rng

    def view_of(f):
        return {k: unts(v) for k, v in public_view(f).items()}        # what a user reads, not the internal map

    def new_entry(log, nxt):
        log.insert(0, nxt)
        del log[DEPTH:]           # the oldest entry falls off the end of the controller's log

    def read_through(f, log, hist):
        for i in range(min(len(log), DEPTH)):
            f.handle_msg(entry_msg("RP", i, log[i]))
        if len(log) < DEPTH:
            f._process_msg(null_msg(len(log)))
        hist.append(("read-through", len(log)))

    def check_equal(f, log, hist, sig, what):
        v = view_of(f)
        exp = dict(enumerate(log))
        if v != exp:
            diff = {k: (v.get(k), exp.get(k)) for k in sorted(set(v) | set(exp)) if v.get(k) != exp.get(k)}
            ctx.violation(sig, what, {"history": list(hist), "log_depth": len(log), "slots(view,controller)": {f"{k:02X}": d for k, d in list(diff.items())[:6]}}, "history")

    def check_bound(f, hist):
        beyond = [k for k in f._map if k >= DEPTH]
        if beyond:
            ctx.violation("deep-log:index-beyond-the-log", "the view holds an entry at a log index the 64-deep controller log does not have",
                          {"history": list(hist), "indexes": beyond}, "history")
        try:
            _ = (f.faultlog, f.latest_event, f.latest_fault, f.active_faults)
        except Exception as err:  # noqa: BLE001
            ctx.violation("view-raises", "reading the fault-log view raised " + type(err).__name__, {"history": list(hist), "error": repr(err)}, "history")
        else:
            view_is_state(ctx, f, hist)

    # (D2) clean histories around the full depth: complete belief, every announcement delivered
    for n0 in (DEPTH - 2, DEPTH - 1, DEPTH, DEPTH + 3):
        f, log, hist, nxt = FaultLog(_Tcs()), [], [], 1
        for _ in range(n0):
            new_entry(log, nxt)
            nxt += 1
        hist.append(("controller-log-filled", min(n0, DEPTH)))
        read_through(f, log, hist)
        ctx.case(("deep-clean", n0, "read"), True, "deep-log:clean")
        check_equal(f, log, hist, "deep-log:read-through-mismatch", "after a complete read-through of a full-depth log the view differs from the controller's log")
        for j in range(3):
            new_entry(log, nxt)
            f.handle_msg(entry_msg(" I", 0, nxt))
            hist.append(("new-entry", "announced"))
            nxt += 1
            ctx.case(("deep-clean", n0, "ann", j), True, "deep-log:clean")
            check_bound(f, hist)
            check_equal(f, log, hist, "deep-log:pushdown-at-full-depth", "with the whole log known, a delivered announcement does not leave the view equal to the controller's log (every known entry one down, the last one off the end)")
        read_through(f, log, hist)
        check_equal(f, log, hist, "deep-log:read-through-mismatch", "after a complete read-through of a full-depth log the view differs from the controller's log")
    # (D3) histories without loss over the model's alphabet (KNew = announced and delivered, KRead i with i not beyond the
    #      position reached): the real class against the simulated controller AND against the model's krun
    kcases, kimpl = [], []
    for r in range(rounds * 3):
        f, log, hist, nxt, n = FaultLog(_Tcs()), [], [], 1, 0
        ops = []
        deep = r % 3 == 0
        for _ in range(rng.randint(70, 110) if deep else rng.randint(3, 25)):
            if rng.random() < (0.75 if deep else 0.4):
                new_entry(log, nxt)
                f.handle_msg(entry_msg(" I", 0, nxt))
                ops.append(f"KNew {nxt}")
                hist.append(("new-entry", "announced"))
                nxt += 1
                n = min(n + 1, DEPTH)
            else:
                i = rng.choice((n, n, n, rng.randint(0, n)))
                if i >= DEPTH:
                    continue
                if i < len(log):
                    f.handle_msg(entry_msg("RP", i, log[i]))
                    hist.append(("RP", i, log[i]))
                else:
                    if i == 0:
                        continue              # the null reply to RQ idx 00 carries no index: the code ignores it
                    f._process_msg(null_msg(i))
                    hist.append(("RP", i, None))
                ops.append(f"KRead {i}")
                if i == n and i < len(log):
                    n += 1
            ctx.case(("deep-kop", r, len(ops)), True, "deep-log:no-loss")
            check_bound(f, hist)
            v = view_of(f)
            if v != dict(enumerate(log[:n])):
                ctx.violation("clean-history-view-differs", "in a history without loss the view is not the controller's log down to the position reached",
                              {"history": list(hist), "position": n, "view": sorted(v.items())[:8], "controller": log[:8]}, "history")
                break
        kcases.append("[" + "; ".join(ops) + "]")
        kimpl.append([(k, unts(v)) for k, v in f._map.items()])
    ctx.extra["clean_history_cases"] = (kcases, kimpl)

    # (D4) the REAL get_faultlog() coroutine against the simulated controller: every reply also reaches handle_msg through the
    #      dispatcher; a new entry is logged and announced after the k-th reply, or the k-th exchange fails and announcements follow
    import asyncio  # noqa: PLC0415

    from ramses_tx import exceptions as texc  # noqa: PLC0415

    null_payload = "000000B0000000000000000000007FFFFF7000000000"

    def run_get(f, log, hist, nxt, inject_after=None, fail_at=None):
        state = {"k": 0, "nxt": nxt}

        class Gwy:
            async def async_send_cmd(self, cmd, **kw):
                i = int(cmd.payload[4:6], 16)
                state["k"] += 1
                state.setdefault("asked", []).append(i)
                state.setdefault("len0", len(log))
                if fail_at is not None and state["k"] == fail_at:
                    hist.append(("RQ", i, "fails"))
                    raise texc.ProtocolSendFailed("scripted: no reply")
                if i < len(log):
                    m = entry_msg("RP", i, log[i])
                    f.handle_msg(m)                      # the dispatcher delivers the reply too
                    hist.append(("RP", i, log[i]))
                    pkt = m._pkt
                else:      # "no entry at this index": the controller's reply carries index 00 whatever was asked (the library patches the index itself)
                    from ramses_tx.packet import Packet  # noqa: PLC0415
                    pkt = Packet(_dt.datetime.now(), f"000 RP --- {CTL} 18:000730 --:------ 0418 022 {null_payload}")
                    hist.append(("RP", i, None))
                if inject_after is not None and state["k"] == inject_after:
                    new_entry(log, state["nxt"])
                    f.handle_msg(entry_msg(" I", 0, state["nxt"]))     # announced while the read-through is under way
                    hist.append(("new-entry", "announced during the read-through"))
                    state["nxt"] += 1
                return pkt

        f._gwy = Gwy()
        try:
            asyncio.run(f.get_faultlog(limit=64))
            hist.append(("get_faultlog", "completed"))
            ok = True
        except texc.ProtocolSendFailed:
            hist.append(("get_faultlog", "raised ProtocolSendFailed"))
            ok = False
        if ok and inject_after is None and fail_at is None:       # an undisturbed read-through: the slots asked for, for the model's get_faultlog_asks
            ctx.extra.setdefault("read_through_asks", []).append((state.get("len0", len(log)), state.get("asked", [])))
        return ok, state["nxt"]

    # ... on a log at (and past) its full depth: the real read-through loop, from a fresh view and from a view holding only a stale entry near the bottom
    for n0 in (DEPTH - 1, DEPTH, DEPTH + 3):
        for stale in (False, True):
            f, log, hist, nxt = FaultLog(_Tcs()), [], [], 1
            for _ in range(n0):
                new_entry(log, nxt)
                nxt += 1
            hist.append(("controller-log-filled", min(n0, DEPTH)))
            if stale:
                f.handle_msg(entry_msg("RP", len(log) - 2, log[-2]))
                hist.append(("RP", len(log) - 2, log[-2]))
                for _ in range(2):          # two entries logged, their announcements lost
                    new_entry(log, nxt)
                    nxt += 1
                    hist.append(("new-entry", "announcement lost"))
            ok, nxt = run_get(f, log, hist, nxt)
            ctx.case(("get-faultlog-deep", n0, stale), True, "get_faultlog:full-depth")
            if ok:
                check_bound(f, hist)
                check_equal(f, log, hist, "deep-log:get_faultlog-mismatch", "after get_faultlog() has read a full-depth log through, the view differs from the controller's log")
    for trial in range(rounds * 2):
        f, log, hist, nxt = FaultLog(_Tcs()), [], [], 1
        for _ in range(rng.randint(2, 9)):
            new_entry(log, nxt)
            nxt += 1
        hist.append(("controller-log-filled", len(log)))
        mode = rng.choice(("inject", "inject", "fail"))
        k = rng.randint(1, len(log))
        if rng.random() < 0.5:                     # a complete read-through first
            _, nxt = run_get(f, log, hist, nxt)
        if mode == "inject":
            ok, nxt = run_get(f, log, hist, nxt, inject_after=k)
            ctx.case(("get-faultlog", trial, mode, k), True, "get_faultlog:announcement-during")
            if ok:
                _, nxt = run_get(f, log, hist, nxt)          # ... and one undisturbed read-through settles any index shift
                check_equal(f, log, hist, "read-through-with-announcement-mismatch",
                            "a new entry was announced during a read-through; after that read-through and another, undisturbed one the view differs from the controller's log")
                if view_of(f).get(0) != log[0]:
                    ctx.violation("announcement-during-read-through-lost", "the entry announced while a read-through was under way is not the view's newest entry",
                                  {"history": list(hist), "view": sorted(view_of(f).items())[:6], "controller": log[:6]}, "history")
        else:
            ok, nxt = run_get(f, log, hist, nxt, fail_at=k)
            ctx.case(("get-faultlog", trial, mode, k), True, "get_faultlog:failed")
            before = dict(view_of(f))
            for _ in range(2):
                new_entry(log, nxt)
                f.handle_msg(entry_msg(" I", 0, nxt))
                hist.append(("new-entry", "announced"))
                nxt += 1
            if view_of(f).get(0) != log[0]:
                ctx.violation("announcement-after-failed-read-through-ignored", "after a read-through that failed part-way, a delivered announcement does not become the view's newest entry",
                              {"history": list(hist), "view_before": sorted(before.items())[:6], "view": sorted(view_of(f).items())[:6], "controller": log[:6]}, "history")
            _, nxt = run_get(f, log, hist, nxt)
            check_equal(f, log, hist, "read-through-after-failure-mismatch", "after a failed read-through, announcements and a complete read-through the view differs from the controller's log")
            if trial % 2:         # ... and further entries whose announcements are LOST: only the next read-through can bring them in
                for _ in range(rng.randint(1, 2)):
                    new_entry(log, nxt)
                    nxt += 1
                    hist.append(("new-entry", "announcement lost"))
                ok2, nxt = run_get(f, log, hist, nxt)
                if ok2:
                    check_equal(f, log, hist, "read-through-after-failure-and-lost-announcements-mismatch",
                                "after a failed read-through, entries whose announcements were lost and a complete read-through the view differs from the controller's log")
        check_bound(f, hist)

    # (D1) arbitrary histories on a (nearly) full log: losses, single replies near the end -- no index beyond the log, views total
    for r in range(rounds):
        f, log, hist, nxt = FaultLog(_Tcs()), [], [], 1
        for _ in range(rng.choice((DEPTH - 1, DEPTH, DEPTH, DEPTH + 5))):
            new_entry(log, nxt)
            nxt += 1
        hist.append(("controller-log-filled", len(log)))
        for _ in range(rng.randint(4, 16)):
            op = rng.random()
            if op < 0.4:
                new_entry(log, nxt)
                delivered = rng.random() < 0.7
                if delivered:
                    f.handle_msg(entry_msg(" I", 0, nxt))
                hist.append(("new-entry", "announced" if delivered else "lost"))
                nxt += 1
            elif op < 0.9:
                i = rng.choice((0, 0, 1, DEPTH - 1, DEPTH - 1, DEPTH - 2, rng.randrange(DEPTH)))
                if i < len(log):
                    f.handle_msg(entry_msg("RP", i, log[i]))
                    hist.append(("RP", i, log[i]))
                elif i > 0:
                    f._process_msg(null_msg(i))
                    hist.append(("RP", i, None))
            else:
                read_through(f, log, hist)
            ctx.case(("deep-random", r, len(hist)), True, "deep-log:random")
            check_bound(f, hist)
            if not set(view_of(f).values()) <= set(range(1, nxt)):
                ctx.violation("invented-entry", "the view shows an entry that was never reported", {"history": list(hist)}, "history")


def search(ctx: Ctx, fl, maxn: int, maxdepth: int) -> None:
    MAX = fl._MAX_LOG_IDX

    def ins(m: tuple, idx: int, d):
        if d is not None and dict(m).get(idx) == d:
            return m  # _process_msg: no evidence anything has changed
        if d is None and idx == 0:
            return m  # the null reply to RQ idx 00 carries no index and is ignored
        fl._map = OrderedDict(m)
        return tuple(fl._insert_into_map(idx, d).items())

    def ins_ref(m: tuple, idx: int, d):
        if d is not None and dict(m).get(idx) == d:
            return m
        if d is None and idx == 0:
            return m
        return tuple(ref_insert(list(m), idx, d, MAX))

    def bad_kind(mm: dict):
        vv = list(mm.values())
        if len(set(vv)) != len(vv):
            return "duplicate-entry"
        if any(mm[a] <= mm[b] for a in mm for b in mm if a < b):
            return "not-newest-first"
        return None

    def replay_ref(path):
        """The same history on the model's semantics."""
        n, m = 0, ()
        for op in path:
            if op[0] == "new-entry":
                n += 1
                if op[1] == "announced":
                    m = ins_ref(m, 0, f"{n:02d}")
            else:
                m = ins_ref(m, op[1], op[2])
        return dict(m)

    def ctl_log(n):
        return [f"{i:02d}" for i in range(n, 0, -1)]  # newest first; "01" is the oldest

    start = (0, ())
    info = {start: (0, None, None)}  # state -> (lost announcements on the discovery path, parent, op)
    depth = {start: 0}
    q = deque([start])
    reported: set[str] = set()

    def path_of(s):
        p = []
        while info[s][1] is not None:
            p.append(info[s][2])
            s = info[s][1]
        return list(reversed(p))

    def branch_of(parent_map: tuple, op) -> str:
        """Which case of _insert_into_map the violating step went through (cause class of a finding)."""
        if op is None:
            return "initial"
        if op[0] == "new-entry":
            idx, d = 0, None
            if op[1] != "announced":
                return "lost-announcement"
        else:
            idx, d = op[1], op[2]
        m = dict(parent_map)
        if d is None and op[0] == "RP":
            return f"null-reply:idx{'0' if idx == 0 else 'N'}"
        if d is None:  # announced new entry: its timestamp is newer than everything
            older = list(m)
        else:
            older = [k for k, v in m.items() if v < d]
        if not older:
            cls = "no-older-entry"
        else:
            nxt = min(older)
            cls = "next-older-below" if nxt > idx else ("next-older-at-idx" if nxt == idx else "next-older-above")
        taken = m.get(idx)
        slot = "" if taken is None else (":slot-holds-newer" if d is not None and taken > d else ":slot-holds-older")
        return f"{'ann' if op[0] == 'new-entry' else 'rp'}:idx{'0' if idx == 0 else 'N'}:{cls}{slot}"

    def report(sig, what, s, extra):
        if sig in reported:
            ctx.violations.append({"signature": sig, "what": what, "case": None, "kind": "history"})
            return
        reported.add(sig)
        ctx.violation(sig, what, {"history": path_of(s), "controller_log_newest_first": ctl_log(s[0]), **extra}, "history")

    while q:
        s = q.popleft()
        n, mt = s
        lost = info[s][0]
        m = dict(mt)
        log = ctl_log(n)
        ctx.case(("state", n, mt), bool(mt), "bfs-state")
        # -- state predicates
        vals = list(m.values())
        parent, op = info[s][1], info[s][2]
        pm = dict(parent[1]) if parent else {}
        pvals = list(pm.values())
        parent_bad = len(set(pvals)) != len(pvals) or any(pm[a] <= pm[b] for a in pm for b in pm if a < b)
        cause = branch_of(parent[1] if parent else (), op)
        kind = bad_kind(m)
        if kind and not parent_bad and bad_kind(replay_ref(path_of(s))) is None:
            report(f"{kind}:regression-vs-model", "the view violates the property on a history on which the modelled (unchanged) code does not",
                   s, {"view": sorted(m.items()), "model_view": sorted(replay_ref(path_of(s)).items())})
        elif not parent_bad:   # classify by the step that INTRODUCED the fault, not by every state that inherits it
            if len(set(vals)) != len(vals):
                report(f"duplicate-entry:{cause}", "one log entry is shown at two positions of the view", s, {"view": sorted(m.items())})
            elif any(m[a] <= m[b] for a in m for b in m if a < b):
                report(f"not-newest-first:{cause}", "the view is not ordered newest-first", s, {"view": sorted(m.items())})
        if not set(vals) <= set(log):
            report("invented-entry", "the view shows an entry the controller never reported", s, {"view": sorted(m.items())})
        # -- read-through from the top with nothing changing
        r = mt
        first_bad = None
        for i in range(n + 1):
            before = r
            r = ins(r, i, log[i] if i < n else None)
            if first_bad is None and i < n and any(dict(r).get(j) != log[j] for j in range(i + 1)):
                first_bad = branch_of(before, ("RP", i, log[i]))   # positions 0..i must be right after reading 0..i
        rd = dict(r)
        if any(rd.get(i) != log[i] for i in range(n)) or any(k >= n for k in rd):
            rr = tuple(replay_ref(path_of(s)).items())
            for i in range(n + 1):
                rr = ins_ref(rr, i, log[i] if i < n else None)
            rrd = dict(rr)
            if not (any(rrd.get(i) != log[i] for i in range(n)) or any(k >= n for k in rrd)):
                first_bad = "regression-vs-model"
            report(f"read-through-mismatch:{first_bad or 'tail-not-cleared'}", "after a complete read-through the view differs from the controller's log",
                   s, {"belief_before": sorted(m.items()), "view_after": sorted(rd.items())})
        if depth[s] >= maxdepth:
            continue
        succ = []
        if n < maxn:
            v = f"{n + 1:02d}"
            succ.append((("new-entry", "lost"), (n + 1, mt), lost + 1))
            m2 = ins(mt, 0, v)
            succ.append((("new-entry", "announced"), (n + 1, m2), lost))
            # push-down: every known entry moves down by one
            exp = {0: v} | {k + 1: x for k, x in m.items() if k + 1 < DEPTH}
            if dict(m2) != exp:
                cause = "slot0-unknown" if 0 not in m else ("belief-has-gaps" if sorted(m) != list(range(len(m))) else "other")
                info.setdefault((n + 1, m2), (lost, s, ("new-entry", "announced")))
                report(f"pushdown-missing:{cause}", "an announced new entry does not push the known entries down by one",
                       (n + 1, m2), {"belief_before": sorted(m.items()), "view_after": sorted(dict(m2).items()), "expected": sorted(exp.items())})
        for i in range(n + 1):
            succ.append((("RP", i, log[i] if i < n else None), (n, ins(mt, i, log[i] if i < n else None)), lost))
        for op, t, l2 in succ:
            if t in info:
                continue
            info[t] = (l2, s, op)
            depth[t] = depth[s] + 1
            q.append(t)
    ctx.extra["bfs_states"] = len(info)
    ctx.extra["bfs_bounds"] = {"max_log": maxn, "max_depth": maxdepth}


def replay(case: dict) -> int:
    print(case.get("signature"), case.get("case"))
    return 0
