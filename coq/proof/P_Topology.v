From Coq Require Import List Bool Arith Lia.
From RV Require Import M_Topology.
Import ListNotations.

Lemma parent_eqb_eq : forall p q, parent_eqb p q = true <-> p = q.
Proof.
  intros [c i|c|c|c] [c' i'|c'|c'|c']; cbn; split; intros H; try discriminate; try congruence.
  - apply andb_prop in H as [H1 H2]. apply Nat.eqb_eq in H1, H2. congruence.
  - injection H as -> ->. rewrite !Nat.eqb_refl. reflexivity.
  - apply Nat.eqb_eq in H. congruence.
  - injection H as ->. apply Nat.eqb_refl.
  - apply Nat.eqb_eq in H. congruence.
  - injection H as ->. apply Nat.eqb_refl.
  - apply Nat.eqb_eq in H. congruence.
  - injection H as ->. apply Nat.eqb_refl.
Qed.

Lemma slot_free_spec : forall o d, slot_free o d = true -> forall x, o = Some x -> x = d.
Proof. intros [y|] d H x Hx; [|discriminate]. injection Hx as <-. apply Nat.eqb_eq. exact H. Qed.

Lemma mem_In : forall d l, mem d l = true <-> In d l.
Proof.
  intros d l. unfold mem. rewrite existsb_exists. split.
  - intros (x & Hx & He). apply Nat.eqb_eq in He. subst. exact Hx.
  - intros H. exists d. split; [exact H | apply Nat.eqb_refl].
Qed.

(* ---- frames: which part of the state each stage can touch ---- *)
Definition same_roles (s s' : st) : Prop :=
  sensor s' = sensor s /\ actuators s' = actuators s /\ dhw_sensor s' = dhw_sensor s /\ htg_valve s' = htg_valve s /\
  dhw_valve s' = dhw_valve s /\ app_cntrl s' = app_cntrl s /\ circuits s' = circuits s.

Lemma get_htg_zone_frame : forall s c i s', get_htg_zone s c i = Some s' ->
  devs s' = devs s /\ max_zones s' = max_zones s /\ same_roles s s' /\ dhws s' = dhws s /\
  (forall z, In z (zones s') -> In z (zones s) \/ (z = (c, i) /\ i < max_zones s)) /\ incl (zones s) (zones s').
Proof.
  intros s c i s' H. unfold get_htg_zone in H. destruct (has_zone s c i).
  - injection H as <-. repeat split; try reflexivity; [intros z Hz; left; exact Hz | apply incl_refl].
  - destruct (i <? max_zones s) eqn:E; [|discriminate]. injection H as <-. apply Nat.ltb_lt in E. cbn.
    repeat split; try reflexivity.
    + intros z [<-|Hz]; [right; split; [reflexivity | exact E] | left; exact Hz].
    + intros z Hz; right; exact Hz.
Qed.

Lemma get_dhw_zone_frame : forall s c,
  devs (get_dhw_zone s c) = devs s /\ max_zones (get_dhw_zone s c) = max_zones s /\ same_roles s (get_dhw_zone s c) /\
  zones (get_dhw_zone s c) = zones s.
Proof. intros s c. unfold get_dhw_zone. destruct (has_dhw s c); cbn; repeat split; reflexivity. Qed.

Lemma resolve_frame : forall s t g k s1 x, resolve s t g k = (s1, x) ->
  devs s1 = devs s /\ max_zones s1 = max_zones s /\ same_roles s s1 /\
  (forall z, In z (zones s1) -> In z (zones s) \/ snd z < max_zones s) /\ incl (zones s) (zones s1).
Proof.
  intros s t g k s1 x H. unfold resolve in H.
  assert (Hsame : devs s = devs s /\ max_zones s = max_zones s /\ same_roles s s /\
                  (forall z, In z (zones s) -> In z (zones s) \/ snd z < max_zones s) /\ incl (zones s) (zones s))
    by (repeat split; try reflexivity; [intros z Hz; left; exact Hz | apply incl_refl]).
  destruct g as [c|c i|c|u].
  - destruct (match t with TUfc => CFF | _ => k end) as [|i| | | |] eqn:Ek; try (injection H as <- <-; exact Hsame).
    + destruct (i <? max_zones s) eqn:E; [|injection H as <- <-; exact Hsame].
      destruct (get_htg_zone s c i) as [s'|] eqn:Eg; [|injection H as <- <-; exact Hsame].
      injection H as <- <-. destruct (get_htg_zone_frame s c i s' Eg) as (H1 & H2 & H3 & _ & H5 & H6).
      repeat split; try assumption; try apply H3.
      intros z Hz. destruct (H5 z Hz) as [Hl|[-> Hr]]; [left; exact Hl | right; exact Hr].
    + injection H as <- <-. destruct (get_dhw_zone_frame s c) as (H1 & H2 & H3 & H4).
      repeat split; try assumption; try apply H3; rewrite H4; [intros z Hz; left; exact Hz | apply incl_refl].
    + injection H as <- <-. destruct (get_dhw_zone_frame s c) as (H1 & H2 & H3 & H4).
      repeat split; try assumption; try apply H3; rewrite H4; [intros z Hz; left; exact Hz | apply incl_refl].
  - injection H as <- <-; exact Hsame.
  - injection H as <- <-; exact Hsame.
  - destruct (match t with TUfc => CFF | _ => k end); injection H as <- <-; exact Hsame.
Qed.

(* ---- add_child ---- *)
Ltac ac_cases H :=
  unfold add_child in H;
  match type of H with context[match ?b with true => _ | false => _ end] => idtac end;
  repeat match type of H with
         | context[match ?x with _ => _ end] => is_var x; destruct x
         end;
  cbn in H; try discriminate;
  repeat match type of H with
         | context[if slot_free ?o ?d then _ else _] => destruct (slot_free o d) eqn:?
         end;
  try discriminate.

Lemma add_child_frame : forall s d t p k b s2 r, add_child s d t p k b = (s2, r) ->
  devs s2 = devs s /\ zones s2 = zones s /\ dhws s2 = dhws s /\ max_zones s2 = max_zones s.
Proof.
  intros s d t p k b s2 r H. ac_cases H; injection H as <- <-; cbn; repeat split; reflexivity.
Qed.

Lemma set_fn_same : forall A (f : nat -> A) x v, set_fn f x v x = v.
Proof. intros; unfold set_fn; rewrite Nat.eqb_refl; reflexivity. Qed.
Lemma set_fn_get : forall A (f : nat -> A) x v y, set_fn f x v y = if y =? x then v else f y.
Proof. reflexivity. Qed.
Lemma set_fn2_get : forall A (f : nat -> nat -> A) x y v a b, set_fn2 f x y v a b = if (a =? x) && (b =? y) then v else f a b.
Proof. reflexivity. Qed.

Lemma add_child_sensor : forall s d t p k b s2, add_child s d t p k b = (s2, Ok) ->
  (forall c i x, sensor s2 c i = Some x -> sensor s c i = Some x \/ (x = d /\ p = PZone c i)) /\
  (forall c i x, sensor s c i = Some x -> sensor s2 c i = Some x).
Proof.
  intros s d t p k b s2 H. ac_cases H; injection H as <-; cbn;
    try (split; intros c0 i0 x Hx; [left|]; exact Hx).
  all: split; intros c0 i0 x Hx; rewrite set_fn2_get in *.
  all: destruct ((c0 =? c) && (i0 =? i)) eqn:E; [|try left; exact Hx].
  all: apply andb_prop in E as [E1 E2]; apply Nat.eqb_eq in E1, E2; subst c0 i0.
  all: try (injection Hx as <-; right; split; reflexivity).
  all: match goal with Hf : slot_free _ _ = true |- _ => rewrite (slot_free_spec _ _ Hf x Hx); reflexivity end.
Qed.

Lemma add_child_actuators : forall s d t p k b s2, add_child s d t p k b = (s2, Ok) ->
  (forall c i x, In x (actuators s2 c i) -> In x (actuators s c i) \/ (x = d /\ p = PZone c i)) /\
  (forall c i x, In x (actuators s c i) -> In x (actuators s2 c i)).
Proof.
  intros s d t p k b s2 H. ac_cases H; injection H as <-; cbn;
    try (split; intros c0 i0 x Hx; [left|]; exact Hx).
  all: split; intros c0 i0 x Hx; rewrite set_fn2_get in *.
  all: destruct ((c0 =? c) && (i0 =? i)) eqn:E; [|try left; exact Hx].
  all: apply andb_prop in E as [E1 E2]; apply Nat.eqb_eq in E1, E2; subst c0 i0.
  all: destruct (mem d (actuators s c i)) eqn:Em; try (left; exact Hx); try exact Hx.
  all: try (apply in_app_or in Hx as [Hx|[<-|[]]]; [left; exact Hx | right; split; reflexivity]).
  all: apply in_or_app; left; exact Hx.
Qed.

Ltac slot1 c :=
  intros c0 x Hx; rewrite set_fn_get in *;
  destruct (c0 =? c) eqn:E; [|try left; exact Hx];
  apply Nat.eqb_eq in E; subst c0;
  try (injection Hx as <-; right; split; reflexivity);
  match goal with Hf : slot_free _ _ = true |- _ => rewrite (slot_free_spec _ _ Hf x Hx); reflexivity end.

Lemma add_child_dhw_sensor : forall s d t p k b s2, add_child s d t p k b = (s2, Ok) ->
  (forall c x, dhw_sensor s2 c = Some x -> dhw_sensor s c = Some x \/ (x = d /\ p = PDhw c)) /\
  (forall c x, dhw_sensor s c = Some x -> dhw_sensor s2 c = Some x).
Proof.
  intros s d t p k b s2 H. ac_cases H; injection H as <-; cbn;
    try (split; intros c0 x Hx; [left|]; exact Hx).
  all: split; slot1 c.
Qed.

Lemma add_child_htg_valve : forall s d t p k b s2, add_child s d t p k b = (s2, Ok) ->
  (forall c x, htg_valve s2 c = Some x -> htg_valve s c = Some x \/ (x = d /\ p = PDhw c)) /\
  (forall c x, htg_valve s c = Some x -> htg_valve s2 c = Some x).
Proof.
  intros s d t p k b s2 H. ac_cases H; injection H as <-; cbn;
    try (split; intros c0 x Hx; [left|]; exact Hx).
  all: split; slot1 c.
Qed.

Lemma add_child_dhw_valve : forall s d t p k b s2, add_child s d t p k b = (s2, Ok) ->
  (forall c x, dhw_valve s2 c = Some x -> dhw_valve s c = Some x \/ (x = d /\ p = PDhw c)) /\
  (forall c x, dhw_valve s c = Some x -> dhw_valve s2 c = Some x).
Proof.
  intros s d t p k b s2 H. ac_cases H; injection H as <-; cbn;
    try (split; intros c0 x Hx; [left|]; exact Hx).
  all: split; slot1 c.
Qed.

Lemma add_child_app_cntrl : forall s d t p k b s2, add_child s d t p k b = (s2, Ok) ->
  (forall c x, app_cntrl s2 c = Some x -> app_cntrl s c = Some x \/ (x = d /\ p = PSys c)) /\
  (forall c x, app_cntrl s c = Some x -> app_cntrl s2 c = Some x).
Proof.
  intros s d t p k b s2 H. ac_cases H; injection H as <-; cbn;
    try (split; intros c0 x Hx; [left|]; exact Hx).
  all: split; slot1 c.
Qed.

(* ---- one step ---- *)
Lemma step_set_parent : forall s d t g k b s' r, step s (SetParent d t g k b) = (s', r) ->
  exists s1 x, resolve s t g k = (s1, x) /\
  ((r <> Ok /\ s' = s1) \/
   (r = Ok /\ exists p k1 s2, x = Some (p, k1) /\
      (forall p0, d_parent (devs s1 d) = Some p0 -> p0 = p) /\
      (forall c0, d_ctl (devs s1 d) = Some c0 -> c0 = ctl_of p) /\
      role_ok t p b = true /\ cid_ok p k1 = true /\
      add_child s1 d t p k1 b = (s2, Ok) /\ s' = commit s2 d p k1)).
Proof.
  intros s d t g k b s' r H. cbn [step] in H.
  destruct (resolve s t g k) as [s1 x] eqn:Er. exists s1, x. split; [reflexivity|].
  destruct x as [[p k1]|]; [|injection H as <- <-; left; split; [discriminate | reflexivity]].
  destruct (match d_parent (devs s1 d) with Some p0 => negb (parent_eqb p0 p) | None => false end) eqn:E1;
    [injection H as <- <-; left; split; [discriminate | reflexivity]|].
  destruct (role_ok t p b) eqn:E2; cbn [negb] in H; [|injection H as <- <-; left; split; [discriminate | reflexivity]].
  destruct (cid_ok p k1) eqn:E3; cbn [negb] in H; [|injection H as <- <-; left; split; [discriminate | reflexivity]].
  destruct (match d_ctl (devs s1 d) with Some c0 => negb (c0 =? ctl_of p) | None => false end) eqn:E4;
    [injection H as <- <-; left; split; [discriminate | reflexivity]|].
  destruct (add_child s1 d t p k1 b) as [s2 r2] eqn:Ea.
  destruct r2; try (injection H as <- <-; left; split; [discriminate | reflexivity]).
  injection H as <- <-. right. split; [reflexivity|]. exists p, k1, s2. repeat split; try reflexivity; try assumption.
  - intros p0 Hp0. rewrite Hp0 in E1. apply negb_false_iff in E1. apply parent_eqb_eq in E1. exact E1.
  - intros c0 Hc0. rewrite Hc0 in E4. apply negb_false_iff in E4. apply Nat.eqb_eq in E4. exact E4.
Qed.

Record Inv (s : st) : Prop := mkInv {
  i_zones : forall z, In z (zones s) -> snd z < max_zones s;
  i_sensor : forall c i d, sensor s c i = Some d -> d_parent (devs s d) = Some (PZone c i);
  i_act : forall c i d, In d (actuators s c i) -> d_parent (devs s d) = Some (PZone c i);
  i_dsens : forall c d, dhw_sensor s c = Some d -> d_parent (devs s d) = Some (PDhw c);
  i_hv : forall c d, htg_valve s c = Some d -> d_parent (devs s d) = Some (PDhw c);
  i_dv : forall c d, dhw_valve s c = Some d -> d_parent (devs s d) = Some (PDhw c);
  i_app : forall c d, app_cntrl s c = Some d -> d_parent (devs s d) = Some (PSys c);
  i_ctl : forall d p, d_parent (devs s d) = Some p -> d_ctl (devs s d) = Some (ctl_of p)
}.

Lemma init_inv : forall mz, Inv (init mz).
Proof. intros mz; constructor; cbn; intros; try discriminate; contradiction. Qed.

(* a stage that only creates zones (below max_zones) keeps the invariant *)
Lemma inv_zones_only : forall s s1, Inv s ->
  devs s1 = devs s -> max_zones s1 = max_zones s -> same_roles s s1 ->
  (forall z, In z (zones s1) -> In z (zones s) \/ snd z < max_zones s) -> Inv s1.
Proof.
  intros s s1 [I1 I2 I3 I4 I5 I6 I7 I8] Hd Hm (R1 & R2 & R3 & R4 & R5 & R6 & _) Hz.
  constructor; rewrite ?Hd, ?Hm, ?R1, ?R2, ?R3, ?R4, ?R5, ?R6; try assumption.
  intros z Hin. destruct (Hz z Hin) as [H|H]; [apply I1; exact H | exact H].
Qed.

Lemma commit_devs : forall s d p k x, devs (commit s d p k) x = if x =? d then mkDev (Some p) k (Some (ctl_of p)) else devs s x.
Proof. reflexivity. Qed.

Lemma step_inv : forall s o s' r, Inv s -> step s o = (s', r) -> Inv s'.
Proof.
  intros s [d t g k b|c i] s' r HI H.
  - destruct (step_set_parent s d t g k b s' r H) as (s1 & x & Er & [[_ ->]|(_ & p & k1 & s2 & -> & Hp & Hc & _ & _ & Ha & ->)]);
      destruct (resolve_frame s t g k s1 _ Er) as (Hd & Hm & Hr & Hz & _);
      pose proof (inv_zones_only s s1 HI Hd Hm Hr Hz) as HI1; [exact HI1|].
    destruct HI1 as [I1 I2 I3 I4 I5 I6 I7 I8].
    destruct (add_child_frame _ _ _ _ _ _ _ _ Ha) as (Fd & Fz & _ & Fm).
    destruct (add_child_sensor _ _ _ _ _ _ _ Ha) as [S1 _].
    destruct (add_child_actuators _ _ _ _ _ _ _ Ha) as [A1 _].
    destruct (add_child_dhw_sensor _ _ _ _ _ _ _ Ha) as [D1 _].
    destruct (add_child_htg_valve _ _ _ _ _ _ _ Ha) as [H1 _].
    destruct (add_child_dhw_valve _ _ _ _ _ _ _ Ha) as [V1 _].
    destruct (add_child_app_cntrl _ _ _ _ _ _ _ Ha) as [P1 _].
    assert (Hdev : forall x q, d_parent (devs s1 x) = Some q -> d_parent (devs (commit s2 d p k1) x) = Some q).
    { intros x q Hq. rewrite commit_devs. destruct (x =? d) eqn:E; [|rewrite Fd; exact Hq].
      apply Nat.eqb_eq in E; subst x. cbn. rewrite (Hp q Hq). reflexivity. }
    assert (Hnew : d_parent (devs (commit s2 d p k1) d) = Some p) by (rewrite commit_devs, Nat.eqb_refl; reflexivity).
    constructor; cbn [commit zones max_zones sensor actuators dhw_sensor htg_valve dhw_valve app_cntrl].
    + rewrite Fz, Fm. exact I1.
    + intros c0 i0 x Hx. destruct (S1 c0 i0 x Hx) as [Ho|[-> ->]]; [apply Hdev, I2; exact Ho | exact Hnew].
    + intros c0 i0 x Hx. destruct (A1 c0 i0 x Hx) as [Ho|[-> ->]]; [apply Hdev, I3; exact Ho | exact Hnew].
    + intros c0 x Hx. destruct (D1 c0 x Hx) as [Ho|[-> ->]]; [apply Hdev, I4; exact Ho | exact Hnew].
    + intros c0 x Hx. destruct (H1 c0 x Hx) as [Ho|[-> ->]]; [apply Hdev, I5; exact Ho | exact Hnew].
    + intros c0 x Hx. destruct (V1 c0 x Hx) as [Ho|[-> ->]]; [apply Hdev, I6; exact Ho | exact Hnew].
    + intros c0 x Hx. destruct (P1 c0 x Hx) as [Ho|[-> ->]]; [apply Hdev, I7; exact Ho | exact Hnew].
    + intros x q Hq. rewrite commit_devs in *. destruct (x =? d) eqn:E.
      * cbn in *. injection Hq as <-. reflexivity.
      * rewrite Fd in *. apply I8; exact Hq.
  - cbn [step] in H. destruct (get_htg_zone s c i) as [s1|] eqn:Eg; injection H as <- <-; [|exact HI].
    destruct (get_htg_zone_frame s c i s1 Eg) as (Hd & Hm & Hr & _ & Hz & _).
    apply (inv_zones_only s s1 HI Hd Hm Hr). intros z Hin. destruct (Hz z Hin) as [Hl|[-> Hlt]]; [left; exact Hl | right; exact Hlt].
Qed.

(* ---- what never changes ---- *)
Lemma step_stable : forall s o s' r, step s o = (s', r) ->
  max_zones s' = max_zones s /\
  (forall x q, d_parent (devs s x) = Some q -> d_parent (devs s' x) = Some q) /\
  (forall x c0, d_ctl (devs s x) = Some c0 -> d_ctl (devs s' x) = Some c0) /\
  (forall c i x, sensor s c i = Some x -> sensor s' c i = Some x) /\
  (forall c x, dhw_sensor s c = Some x -> dhw_sensor s' c = Some x) /\
  (forall c x, htg_valve s c = Some x -> htg_valve s' c = Some x) /\
  (forall c x, dhw_valve s c = Some x -> dhw_valve s' c = Some x) /\
  (forall c x, app_cntrl s c = Some x -> app_cntrl s' c = Some x) /\
  (forall c i x, In x (actuators s c i) -> In x (actuators s' c i)) /\
  incl (zones s) (zones s').
Proof.
  intros s [d t g k b|c i] s' r H.
  - destruct (step_set_parent s d t g k b s' r H) as (s1 & x & Er & [[_ ->]|(_ & p & k1 & s2 & -> & Hp & Hc & _ & _ & Ha & ->)]);
      destruct (resolve_frame s t g k s1 _ Er) as (Hd & Hm & (R1 & R2 & R3 & R4 & R5 & R6 & _) & _ & Hz).
    + rewrite Hd, Hm, R1, R2, R3, R4, R5, R6. repeat split; auto.
    + destruct (add_child_frame _ _ _ _ _ _ _ _ Ha) as (Fd & Fz & _ & Fm).
      destruct (add_child_sensor _ _ _ _ _ _ _ Ha) as [_ S2].
      destruct (add_child_actuators _ _ _ _ _ _ _ Ha) as [_ A2].
      destruct (add_child_dhw_sensor _ _ _ _ _ _ _ Ha) as [_ D2].
      destruct (add_child_htg_valve _ _ _ _ _ _ _ Ha) as [_ H2].
      destruct (add_child_dhw_valve _ _ _ _ _ _ _ Ha) as [_ V2].
      destruct (add_child_app_cntrl _ _ _ _ _ _ _ Ha) as [_ P2].
      cbn [commit zones max_zones sensor actuators dhw_sensor htg_valve dhw_valve app_cntrl].
      rewrite Fm, Hm, Fz. rewrite R1, R2, R3, R4, R5, R6 in *.
      repeat split; auto.
      * intros y q Hq. rewrite commit_devs. destruct (y =? d) eqn:E; [|rewrite Fd, Hd; exact Hq].
        apply Nat.eqb_eq in E; subst y. cbn. rewrite Hd in Hp. rewrite (Hp q Hq). reflexivity.
      * intros y c0 Hq. rewrite commit_devs. destruct (y =? d) eqn:E; [|rewrite Fd, Hd; exact Hq].
        apply Nat.eqb_eq in E; subst y. cbn. rewrite Hd in Hc. rewrite (Hc c0 Hq). reflexivity.
  - cbn [step] in H. destruct (get_htg_zone s c i) as [s1|] eqn:Eg; injection H as <- <-.
    + destruct (get_htg_zone_frame s c i s1 Eg) as (Hd & Hm & (R1 & R2 & R3 & R4 & R5 & R6 & _) & _ & _ & Hz).
      rewrite Hd, Hm, R1, R2, R3, R4, R5, R6. repeat split; auto.
    + repeat split; auto. apply incl_refl.
Qed.

Lemma run_cons : forall s o ops, run s (o :: ops) =
  (fst (run (fst (step s o)) ops), snd (step s o) :: snd (run (fst (step s o)) ops)).
Proof. intros. cbn [run]. destruct (step s o) as [s1 r]. cbn [fst snd]. destruct (run s1 ops) as [s2 rs]. reflexivity. Qed.

Theorem run_inv : forall ops s, Inv s -> Inv (fst (run s ops)).
Proof.
  induction ops as [|o ops IH]; intros s HI; [exact HI|].
  rewrite run_cons. cbn [fst]. apply IH. destruct (step s o) as [s1 r] eqn:E. exact (step_inv s o s1 r HI E).
Qed.

Theorem run_stable : forall ops s,
  max_zones (fst (run s ops)) = max_zones s /\
  (forall x q, d_parent (devs s x) = Some q -> d_parent (devs (fst (run s ops)) x) = Some q) /\
  (forall x c0, d_ctl (devs s x) = Some c0 -> d_ctl (devs (fst (run s ops)) x) = Some c0) /\
  (forall c i x, sensor s c i = Some x -> sensor (fst (run s ops)) c i = Some x) /\
  (forall c i x, In x (actuators s c i) -> In x (actuators (fst (run s ops)) c i)).
Proof.
  induction ops as [|o ops IH]; intros s; [repeat split; auto|].
  rewrite run_cons. cbn [fst]. destruct (step s o) as [s1 r] eqn:E.
  destruct (step_stable s o s1 r E) as (M & P & C & S & _ & _ & _ & _ & A & _).
  destruct (IH s1) as (M' & P' & C' & S' & A'). cbn [fst]. repeat split.
  - rewrite M'. exact M.
  - intros x q Hq. apply P', P, Hq.
  - intros x c0 Hq. apply C', C, Hq.
  - intros c i x Hx. apply S', S, Hx.
  - intros c i x Hx. apply A', A, Hx.
Qed.

(* zone indexes stay below the configured maximum, whatever is asked for *)
Theorem zones_bounded : forall ops mz z, In z (zones (fst (run (init mz) ops))) -> snd z < mz.
Proof.
  intros ops mz z Hz. pose proof (run_inv ops (init mz) (init_inv mz)) as [I1 _ _ _ _ _ _ _].
  destruct (run_stable ops (init mz)) as (M & _). rewrite M in I1. apply I1. exact Hz.
Qed.

(* no silent move: a set_parent that succeeds on a device that already has a parent named that very parent;
   one that names another parent is reported (SystemSchemaInconsistent / TypeError), and the device stays *)
Theorem no_silent_move : forall s d t g k b s' r p0, step s (SetParent d t g k b) = (s', r) ->
  d_parent (devs s d) = Some p0 ->
  d_parent (devs s' d) = Some p0 /\
  (r = Ok -> exists s1 k1, resolve s t g k = (s1, Some (p0, k1))).
Proof.
  intros s d t g k b s' r p0 H Hp0. destruct (step_stable _ _ _ _ H) as (_ & P & _). split; [apply P; exact Hp0|].
  intros ->. destruct (step_set_parent s d t g k b s' Ok H) as (s1 & x & Er & [[Hne _]|(_ & p & k1 & s2 & -> & Hp & _)]); [congruence|].
  destruct (resolve_frame s t g k s1 _ Er) as (Hd & _). rewrite Hd in Hp. rewrite <- (Hp p0 Hp0) in Er. exists s1, k1. exact Er.
Qed.

(* each device is in at most one zone / role-holder: its roles all point at its one parent *)
Theorem one_place : forall s, Inv s -> forall d,
  (forall c i c' i', sensor s c i = Some d -> In d (actuators s c' i') -> c = c' /\ i = i') /\
  (forall c i c' i', sensor s c i = Some d -> sensor s c' i' = Some d -> c = c' /\ i = i') /\
  (forall c i c' i', In d (actuators s c i) -> In d (actuators s c' i') -> c = c' /\ i = i') /\
  (forall c i c', (sensor s c i = Some d \/ In d (actuators s c i)) ->
     dhw_sensor s c' <> Some d /\ htg_valve s c' <> Some d /\ dhw_valve s c' <> Some d /\ app_cntrl s c' <> Some d).
Proof.
  intros s [I1 I2 I3 I4 I5 I6 I7 I8] d. repeat split.
  - pose proof (I2 _ _ _ H) as E1; pose proof (I3 _ _ _ H0) as E2; congruence.
  - pose proof (I2 _ _ _ H) as E1; pose proof (I3 _ _ _ H0) as E2; congruence.
  - pose proof (I2 _ _ _ H) as E1; pose proof (I2 _ _ _ H0) as E2; congruence.
  - pose proof (I2 _ _ _ H) as E1; pose proof (I2 _ _ _ H0) as E2; congruence.
  - pose proof (I3 _ _ _ H) as E1; pose proof (I3 _ _ _ H0) as E2; congruence.
  - pose proof (I3 _ _ _ H) as E1; pose proof (I3 _ _ _ H0) as E2; congruence.
  - intros Hx. destruct H as [H|H]; [pose proof (I2 _ _ _ H) as E1 | pose proof (I3 _ _ _ H) as E1]; pose proof (I4 _ _ Hx); congruence.
  - intros Hx. destruct H as [H|H]; [pose proof (I2 _ _ _ H) as E1 | pose proof (I3 _ _ _ H) as E1]; pose proof (I5 _ _ Hx); congruence.
  - intros Hx. destruct H as [H|H]; [pose proof (I2 _ _ _ H) as E1 | pose proof (I3 _ _ _ H) as E1]; pose proof (I6 _ _ Hx); congruence.
  - intros Hx. destruct H as [H|H]; [pose proof (I2 _ _ _ H) as E1 | pose proof (I3 _ _ _ H) as E1]; pose proof (I7 _ _ Hx); congruence.
Qed.

(* ... and under one controller only: every role a device holds is under the controller recorded for it *)
Theorem one_controller : forall s, Inv s -> forall d c i,
  (sensor s c i = Some d \/ In d (actuators s c i)) -> d_ctl (devs s d) = Some c.
Proof.
  intros s [I1 I2 I3 I4 I5 I6 I7 I8] d c i [H|H]; [pose proof (I2 _ _ _ H) as E | pose proof (I3 _ _ _ H) as E]; apply I8 in E; exact E.
Qed.

(* non-vacuity and the regression witness for max_zones *)
Example topo_example :
  let s := fst (run (init 12) [SetParent 20 TTrv (GTcs 1) (CIdx 1) false; SetParent 27 TThm (GTcs 1) (CIdx 1) true;
                               SetParent 28 TThm (GTcs 1) (CIdx 1) true; SetParent 20 TTrv (GTcs 1) (CIdx 2) false;
                               SetParent 20 TTrv (GTcs 2) (CIdx 1) false; GetZone 1 12]) in
  sensor s 1 1 = Some 27 /\ actuators s 1 1 = [20] /\ zones s = [(2, 1); (1, 2); (1, 1)] /\
  snd (run (init 12) [SetParent 20 TTrv (GTcs 1) (CIdx 1) false; SetParent 27 TThm (GTcs 1) (CIdx 1) true;
                      SetParent 28 TThm (GTcs 1) (CIdx 1) true; SetParent 20 TTrv (GTcs 1) (CIdx 2) false;
                      SetParent 20 TTrv (GTcs 2) (CIdx 1) false; GetZone 1 12])
  = [Ok; Ok; Inconsistent; Inconsistent; Inconsistent; ValueErr].
Proof. vm_compute. repeat split; reflexivity. Qed.
