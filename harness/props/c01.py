"""C01 -- reception is total: theorems about the stream/frame/packet model, correspondence with
PortTransport._read_ready, _ReadTransport._frame_read and Packet.from_*, oracle on exception classes."""

from __future__ import annotations

import asyncio
import io
import logging
import re
from datetime import datetime as dt
from types import SimpleNamespace

from .. import common, corpus
from ..common import Ctx

THEOREMS = [
    "C01_chunking_independent", "C01_serial_lines_depend_only_on_bytes", "C01_ctor_total", "C01_from_file_total",
    "C01_frame_read_never_escapes", "C01_reader_is_filter_map", "C01_bad_line_does_not_stop_stream",
    "C01_ctor_total_old_refuted", "C01_ctor_now_rejects_it", "C01_nonvacuous",
]

PRELUDE = ("From Coq Require Import ZArith Ascii String List Bool.\n"
           "From RV Require Import Py PyStr Regex GenRegex GenTables M_Frame.\n"
           "Import ListNotations.\nOpen Scope Z_scope.\nSet Printing Width 1000000.\nSet Printing Depth 1000000.\n"
           "Definition zs (s : str) : list Z := map (fun c => Z.of_nat (nat_of_ascii c)) s.\n"
           "Definition sz (l : list Z) : str := map (fun z => ascii_of_nat (Z.to_nat z)) l.\n"
           "Definition exc (e : exn) : Z := match e with ValueError => 1 | PacketInvalid => 2 | AssertionError => 3 | _ => 9 end.\n"
           "Definition show (o : outcome) : list Z := match o with\n"
           "  | Deliver p => p_lifespan p :: zs (print_frame (p_frame p) ++ lit \"|\" ++ p_rssi p ++ lit \"|\" ++ a_src (f_addrs (p_frame p)) ++ lit \"|\" ++ a_dst (f_addrs (p_frame p)))\n"
           "  | Drop => [-1] | Escape e => [-2; exc e] end.\n")

ALLOWED = ("PacketInvalid", "PacketAddrSetInvalid", "PacketPayloadInvalid", "ValueError")


def zlist(b: bytes | str) -> str:
    if isinstance(b, str):
        b = b.encode("ascii")
    return "[" + "; ".join(str(x) for x in b) + "]"


def parse_nested(out: str):
    m = re.search(r"=\s*(\[.*\])\s*:\s*list", out, flags=re.S)
    if not m:
        raise ValueError("cannot parse: " + out[:300])
    return eval(m.group(1).replace(";", ","), {"__builtins__": {}})  # noqa: S307


def us(ls) -> int:
    if ls is False or ls is None:
        return 0
    return (ls.days * 86400 + ls.seconds) * 10**6 + ls.microseconds


def gen_lines(ctx: Ctx, n: int) -> list[str]:
    """ASCII lines: repository log lines, <=3-edit mutants, regex-generated payloads, chatter."""
    from ramses_tx.ramses import CODES_SCHEMA  # noqa: PLC0415

    rng = ctx.rng
    logs = corpus.log_lines()
    schema = [(c, v, d[v]) for c, d in CODES_SCHEMA.items() for v in (" I", "RQ", "RP", " W") if v in d]
    specials = ["", "   ", "# evofw3 0.7.1", "!V", "# comment only", "*", "<", "045", "045 ", "--- ", "\t",
                "045  I --- 04:000001 --:------ 01:000002 30C9 006 000000010000",
                "045 RP --- 10:000005 18:000730 --:------ 3220 002 00C0",
                "045  I --- 04:133277 --:------ 01:078710 2309 012 096CF50C9C180412FE02DB61",
                "045  I --- 01:145038 --:------ 01:145038 1F09 003 FF0000 * Checksum error",
                "045  I --- 01:145038 --:------ 01:145038 1F09 003 FF0000 # a comment < a hint",
                " 000  I --- 01:145038 --:------ 01:145038 1F09 003 FF0708",
                "RQ --- 18:000730 01:145038 --:------ 1F09 001 00",
                "045  I --- --:------ --:------ --:------ 1F09 003 FF0708",
                "045  I --- 63:262142 --:------ 01:145038 1F09 003 FF0708",
                "045  I --- 01:145038 01:145038 --:------ 1F09 003 FF0708"]
    shapes = ["{s} --:------ {s}", "{s} {d} --:------", "--:------ --:------ {s}", "{s} --:------ {d}"]
    ids = ["01:145038", "04:000002", "13:000003", "18:000730", "10:000005", "02:000006", "12:000007", "22:000008", "63:262142", "23:100224"]
    out = []
    for _ in range(n):
        r = rng.random()
        if r < 0.35:
            line = rng.choice(logs)[2]
        elif r < 0.70:
            line = corpus.mutate(rng.choice(logs)[2], rng, rng.randint(1, 3))
        elif r < 0.88:
            code, verb, rx = rng.choice(schema)
            try:
                payload = corpus.gen_regex(rx, rng)
            except ValueError:
                payload = "00"
            if len(payload) > 96 or len(payload) % 2:
                payload = payload[:96 - (len(payload) % 2)] if len(payload) > 96 else payload
            addr = rng.choice(shapes).format(s=rng.choice(ids), d=rng.choice(ids))
            line = f"{rng.choice(['045', '---', '...', '000'])} {verb} {rng.choice(['---', '001', '255'])} {addr} {code} {len(payload) // 2:03d} {payload}"
            if rng.random() < 0.2:
                line = corpus.mutate(line, rng, 1)
        else:
            line = rng.choice(specials)
        line = "".join(c for c in line if ord(c) < 128)
        out.append(line)
    return specials + out


def digit_sweep(ctx: Ctx, T, P, Message, thorough: bool) -> None:
    """One-digit corruptions of real frames, systematically: for one log line per (verb, code, length) (all lines in the thorough tier) every digit
    of the three address fields is set to every other decimal digit and every payload digit to boundary / random hex digits; whatever is still
    delivered as a packet goes through Message(): only the invalid-packet error may leave it."""
    rng = ctx.rng
    seen, n = set(), 0
    base = [ln for _, _, ln in corpus.log_lines()]
    # ... plus frames no log holds: what the library's own puzzle constructor emits (every message type), and one generated payload for every
    # (verb, code) of the schema
    try:
        from ramses_tx.command import Command  # noqa: PLC0415
        from ramses_tx.parsers import LOOKUP_PUZZ  # noqa: PLC0415
        from ramses_tx.ramses import CODES_SCHEMA  # noqa: PLC0415

        base += ["000 " + str(Command._puzzle(msg_type=t, message="hello world")) for t in LOOKUP_PUZZ]
        for code, d in CODES_SCHEMA.items():
            for verb in (" I", "RQ", "RP", " W"):
                if verb in d:
                    try:
                        pl = corpus.gen_regex(d[verb], rng)
                    except ValueError:
                        continue
                    if 2 <= len(pl) <= 96 and len(pl) % 2 == 0:
                        base.append(f"045 {verb} --- 01:145038 --:------ 01:145038 {code} {len(pl) // 2:03d} {pl}" if verb == " I"
                                    else f"045 {verb} --- 18:000730 01:145038 --:------ {code} {len(pl) // 2:03d} {pl}" if verb in ("RQ", " W")
                                    else f"045 {verb} --- 01:145038 18:000730 --:------ {code} {len(pl) // 2:03d} {pl}")
    except Exception as err:  # noqa: BLE001
        ctx.notes.append(f"digit sweep: constructor / schema frames unavailable: {type(err).__name__}: {err}")
    for line in base:
        line = line.split("#")[0].split("*")[0].split("<")[0].rstrip()      # the frame itself: no comment / error / hint
        f = line.split()
        if len(f) < 8 or not re.fullmatch(r"[0-9A-F]+", f[-1]):
            continue
        key = (f[1] if f[1] in ("I", "RQ", "RP", "W") else f[0], f[-3], f[-2])
        if not thorough and key in seen:
            continue
        seen.add(key)
        pay0 = line.rfind(f[-1])
        for pos, ch in enumerate(line):
            in_addr = ch.isdigit() and pos < pay0 - 9 and ":" in line[max(0, pos - 9):pos + 9] and line[max(0, pos - 3):pos + 1].count(" ") <= 1
            if pay0 <= pos < pay0 + 8 and ch in "0123456789ABCDEF":
                alts = set("0123456789ABCDEF") - {ch}       # the first four bytes select index / type / sub-format: every value
            elif pos >= pay0 and ch in "0123456789ABCDEF":
                alts = {"0", "4", "7", "8", "F", rng.choice("0123456789ABCDEF"), rng.choice("0123456789ABCDEF")} - {ch}
            elif in_addr:
                alts = set("0123456789") - {ch}
            else:
                continue
            for a in sorted(alts):
                m = line[:pos] + a + line[pos + 1:]
                n += 1
                kind, val = impl_frame_read(T, P, "2024-01-01T12:00:00.000000", m)
                if kind == "escape":
                    ctx.violation(f"escape:{val}@frame_read", f"{val} escapes the receive path (not PacketInvalid/ValueError)", {"line": m, "dtm": "2024-01-01T12:00:00.000000"})
                elif kind == "deliver":
                    try:
                        Message(val)
                    except Exception as err:  # noqa: BLE001
                        if type(err).__name__ not in ALLOWED[:3]:
                            ctx.violation(f"escape:{type(err).__name__}@Message", f"{type(err).__name__} escapes Message(pkt)", {"line": m, "from": line})
    ctx.dist["digit-sweep:lines"] += len(seen)
    ctx.dist["digit-sweep:mutants"] += n
    ctx.evaluations += n


def impl_frame_read(T, P, dtm_str: str, line: str):
    """Drive the real _ReadTransport._frame_read; classify what happened."""
    got = []
    t = T.FileTransport.__new__(T.FileTransport)
    t._pkt_read = got.append
    try:
        T._ReadTransport._frame_read(t, dtm_str, line)
    except Exception as err:  # noqa: BLE001
        return ("escape", type(err).__name__)
    if got:
        p = got[0]
        return ("deliver", p)
    return ("drop", None)


def run(ctx: Ctx) -> None:
    logging.disable(logging.CRITICAL)
    import ramses_tx.packet as P  # noqa: PLC0415
    import ramses_tx.transport as T  # noqa: PLC0415
    from ramses_tx.message import Message  # noqa: PLC0415

    rng = ctx.rng
    thorough = ctx.tier == "thorough"
    ctx.rule = ("lines = repository log lines (35%), the same within 1-3 edits (hex flips, address digits, length field, "
                "truncation, case, spaces) (35%), payloads generated from every (verb, code) regex under all address shapes (18%), "
                "blank/comment/chatter/annotated lines (12%); byte streams of such lines cut into reads at random positions, at "
                "every single position, into 1-byte reads and with empty reads; non-trivial = the line is delivered as a packet; "
                "distinct = by line text / by (stream, partition)")
    ctx.assumptions += [
        "model alphabet is ASCII (what transport._str lets through); non-ASCII text reaching from_file/from_dict is exercised by the oracle only",
        "datetime.fromisoformat is not modelled: its success is an input of the model",
        "after COMMAND_REGEX matched, str.split(' ') fields equal the fixed columns (checked by the correspondence, not proved)",
    ]
    built = ctx.build("C01", THEOREMS)

    digit_sweep(ctx, T, P, Message, thorough)
    # ------------------------------------------------------------ X2/O2: one line at a time
    lines = gen_lines(ctx, 6000 if thorough else 1500)
    impl_show, cases = [], []
    dtm_good = "2024-01-01T12:00:00.000000"
    for line in lines:
        dtm_str = dtm_good if rng.random() < 0.95 else rng.choice(["", "2024-13-01T00:00:00", "garbage", "2024-01-01T12:00"])
        try:
            dt.fromisoformat(dtm_str)
            ok = True
        except ValueError:
            ok = False
        kind, val = impl_frame_read(T, P, dtm_str, line)
        ctx.case(("line", line, ok), kind == "deliver", "line:" + kind)
        if kind == "escape":
            ctx.violation(f"escape:{val}@frame_read", f"{val} escapes the receive path (not PacketInvalid/ValueError)", {"line": line, "dtm": dtm_str})
            impl_show.append([-2, {"ValueError": 1, "PacketInvalid": 2, "AssertionError": 3}.get(val, 9)])
        elif kind == "drop":
            impl_show.append([-1])
        else:
            p = val
            txt = f"{p!s}|{p._rssi}|{p.src.id}|{p.dst.id}"
            impl_show.append([us(p._lifespan)] + list(txt.encode("ascii")))
            # the message stage must fence its parser: only PacketInvalid may leave Message(pkt)
            try:
                Message(p)
            except Exception as err:  # noqa: BLE001
                if type(err).__name__ not in ALLOWED[:3]:
                    ctx.violation(f"escape:{type(err).__name__}@Message", f"{type(err).__name__} escapes Message(pkt)", {"line": line})
        # the three constructors agree on the exception class
        for name, call in (("from_port", lambda: P.Packet.from_port(dt(2024, 1, 1), line)),
                           ("from_dict", lambda: P.Packet.from_dict(dtm_good, line))):
            try:
                call()
            except Exception as err:  # noqa: BLE001
                if type(err).__name__ not in ALLOWED:
                    ctx.violation(f"escape:{type(err).__name__}@{name}", f"{type(err).__name__} escapes Packet.{name}", {"line": line})
        cases.append(f"({'true' if ok else 'false'}, sz {zlist(line)})")
    files = {}
    for k in range(0, len(cases), 400):
        files[f"x2_{k // 400}"] = (PRELUDE + "Eval vm_compute in (map (fun x : bool * str => show (frame_read (fst x) (snd x))) "
                                   + common.coq_list(cases[k:k + 400], ";\n ") + ").")

    # ------------------------------------------------------------ X1/O1: byte streams and partitions
    streams = []
    good = [l for l in lines if l and impl_frame_read(T, P, dtm_good, l)[0] == "deliver"][:400]
    for _ in range(120 if thorough else 40):
        parts = []
        for _ in range(rng.randint(1, 6)):
            r = rng.random()
            if r < 0.6 and good:
                parts.append(rng.choice(good).encode() + b"\r\n")
            elif r < 0.7:
                parts.append(rng.choice(lines).encode() + rng.choice([b"\r\n", b"\n", b"\r", b"\r\r\n", b""]))
            elif r < 0.8:
                parts.append(bytes(rng.randrange(256) for _ in range(rng.randint(1, 8))) + b"\r\n")
            elif r < 0.9:
                parts.append(b"# evofw3 0.7.1\r\n")
            else:
                parts.append(b"\r\n")
        streams.append(b"".join(parts))

    def run_reads(chunks):
        t = T.PortTransport.__new__(T.PortTransport)        # the receive buffer is left as the real constructor leaves it
        t._closing = False
        t._max_read_size = 1024
        seen = []
        it = iter(chunks)
        t._serial = SimpleNamespace(read=lambda n: next(it))
        t._frame_read = lambda dtm, frame: seen.append(frame)
        t._dt_now = lambda: dt(2024, 1, 1)
        for _ in chunks:
            T.PortTransport._read_ready(t)
        return seen

    part_cases, part_impl = [], []
    for s in streams:
        whole = run_reads([s])
        partitions = [[s[:i], s[i:]] for i in range(len(s) + 1)] if len(s) <= 120 else []
        partitions.append([bytes([b]) for b in s])
        for _ in range(6):
            cuts = sorted(rng.sample(range(len(s) + 1), min(len(s) + 1, rng.randint(1, 6))))
            chunks, prev = [], 0
            for c in cuts:
                chunks.append(s[prev:c])
                prev = c
            chunks.append(s[prev:])
            if rng.random() < 0.5:
                chunks.insert(rng.randrange(len(chunks) + 1), b"")
            partitions.append(chunks)
        for chunks in partitions:
            got = run_reads(chunks)
            ctx.case(("stream", s, tuple(chunks)), bool(got), "stream-partition")
            if got != whole:
                ctx.violation("frames-depend-on-read-boundaries", "a serial byte stream yields different frames when split differently into reads",
                              {"stream": s.hex(), "chunks": [c.hex() for c in chunks], "frames": got, "frames_single_read": whole})
        # the model on two of the partitions
        for chunks in (partitions[-1], partitions[-2]):
            part_cases.append("[" + "; ".join(zlist(c) for c in chunks) + "]")
            part_impl.append([list(x.encode("ascii", "replace")) for x in run_reads(chunks)])
    files["x1"] = PRELUDE + "Eval vm_compute in (map (fun c => map zs (serial_lines c)) " + common.coq_list(part_cases, ";\n ") + ")."

    if built:
        res = common.coq_eval("C01", files, timeout=900)
        model = []
        ok = True
        for k in range(0, len(cases), 400):
            rc, out = res[f"x2_{k // 400}"]
            if rc:
                ok = False
                ctx.obligation("correspondence:frame_read", False, "correspondence", out[-500:])
                break
            model += parse_nested(out)
        if ok:
            bad = [i for i, (a, b) in enumerate(zip(model, impl_show)) if list(a) != list(b)]
            d = ""
            if bad:
                i = bad[0]
                d = (f"{len(bad)} of {len(cases)} lines differ; first: {lines[i]!r}: model {bytes(x for x in model[i][1:] if 0 <= x < 256)!r}/{model[i][:1]} "
                     f"implementation {bytes(x for x in impl_show[i][1:] if 0 <= x < 256)!r}/{impl_show[i][:1]}")
            ctx.obligation("correspondence:frame_read", not bad and len(model) == len(impl_show), "correspondence", d)
        rc, out = res["x1"]
        if rc:
            ctx.obligation("correspondence:read_ready-lines", False, "correspondence", out[-500:])
        else:
            m1 = [[list(x) for x in r] for r in parse_nested(out)]
            bad = [i for i, (a, b) in enumerate(zip(m1, part_impl)) if a != b]
            ctx.obligation("correspondence:read_ready-lines", not bad and len(m1) == len(part_impl), "correspondence",
                           f"{len(bad)} of {len(part_impl)} differ; first chunks {part_cases[bad[0]][:200]} model {m1[bad[0]]} impl {part_impl[bad[0]]}" if bad else "")
    else:
        ctx.obligation("correspondence:frame_read", False, "correspondence", "model not built")
        ctx.obligation("correspondence:read_ready-lines", False, "correspondence", "model not built")

    serial_path_oracle(ctx, T, lines, 300 if thorough else 80)
    live_protocol_oracle(ctx, lines, 200 if thorough else 60)
    asyncio.run(stream_oracle(ctx, lines, 30 if thorough else 10))


def serial_path_oracle(ctx: Ctx, T, lines: list[str], trials: int) -> None:
    """The WHOLE serial receive path (real _read_ready -> _frame_read -> _pkt_read with its
    decorators) on multi-line histories: nothing but the protocol callback may be reached, no
    exception may leave _read_ready, and every acceptable line is handed to the protocol."""
    import ramses_tx.packet as P  # noqa: PLC0415

    rng = ctx.rng

    class Loop:
        def __init__(self):
            self.calls = []

        def call_soon_threadsafe(self, fn, *a):
            self.calls.append((fn, a))

        def call_soon(self, fn, *a):
            self.calls.append((fn, a))

    class Proto:
        def __init__(self):
            self.pkts = []

        def pkt_received(self, pkt):
            self.pkts.append(str(pkt))

    ctls = ["01:111111", "01:222222", "01:333333", "23:100224"]
    sync_variants = ["1F09 003 FF0514", "1F09 003 FF0000", "1F09 001 FF", "1F09 002 FF05", "1F09 003 00FFFF", "1F09 003 F80514",
                     "2309 003 0007D0", "30C9 003 0007D0", "30C9 006 0007D00107D0", "3B00 002 FCC8", "1F09 003 FF0514 # c", "1F09 003 FFFFFF"]
    good = [ln for ln in lines if ln and "\r" not in ln and "\n" not in ln][:300]
    dtm = "2024-01-01T12:00:00.000000"
    from ramses_tx.command import Command  # noqa: PLC0415
    futloop = asyncio.new_event_loop()
    for trial in range(trials):
        T._global_sync_cycles.clear() if hasattr(T, "_global_sync_cycles") else None
        hist = []
        for _ in range(rng.randint(3, 12)):
            if rng.random() < 0.7:
                c = rng.choice(ctls)
                hist.append(f"045  I --- {c} --:------ {c} {rng.choice(sync_variants)}")
            else:
                hist.append(rng.choice(good))
        # the echo of the transport's OWN start-up signature (a puzzle packet): once, and -- a slow gateway answers the second copy too, or late --
        # again and again, among the other lines; and a stranger's puzzle packet
        sig = Command._puzzle()
        if trial % 2:
            echo = "000 " + str(sig).replace("18:000730", "18:111111")
            for _ in range(rng.choice([1, 2, 3])):
                hist.insert(rng.randrange(len(hist) + 1), echo)
            hist.insert(rng.randrange(len(hist) + 1), "045 " + str(Command._puzzle(message="someone else")).replace("18:000730", "18:222222"))
        stream = b"".join(h.encode("ascii", "replace") + b"\r\n" for h in hist)
        cuts = sorted(rng.sample(range(len(stream) + 1), min(3, len(stream) + 1)))
        chunks, prev = [], 0
        for c in cuts:
            chunks.append(stream[prev:c])
            prev = c
        chunks.append(stream[prev:])
        # (the receive buffer is left as the real constructor leaves it.)  Before every third history another gateway of the same process has heard
        # the beginning of a frame and gone away (a re-plugged dongle, a reloaded integration): what THIS transport delivers depends on its own bytes only
        if trial % 3 == 2:
            t0 = T.PortTransport.__new__(T.PortTransport)
            t0._closing, t0._reading, t0._max_read_size, t0._inbound_rule, t0._outbound_rule = False, True, 4096, {}, {}
            t0._extra = {"active_gwy": None, "signature": None}
            t0._this_pkt = t0._prev_pkt = None
            t0._serial = SimpleNamespace(read=lambda n: b"045  I --- 01:145038 --:------ 01:145038 1F09 003 FF05")
            t0._loop, t0._protocol = Loop(), Proto()
            t0._init_fut = SimpleNamespace(done=lambda: True)
            try:
                T.PortTransport._read_ready(t0)
            except Exception:  # noqa: BLE001, S110
                pass
        t = T.PortTransport.__new__(T.PortTransport)
        t._closing = False
        t._reading = True
        t._max_read_size = 4096
        t._inbound_rule = {}
        t._outbound_rule = {}
        t._extra = {"active_gwy": None, "signature": sig.payload if trial % 2 else None}
        t._this_pkt = t._prev_pkt = None
        it = iter(chunks)
        t._serial = SimpleNamespace(read=lambda n: next(it))
        loop, proto = Loop(), Proto()
        t._loop = loop
        t._protocol = proto
        t._init_fut = futloop.create_future() if trial % 2 else SimpleNamespace(done=lambda: True)      # a real future: the handshake is still open
        escaped = None
        for _c in chunks:
            try:
                T.PortTransport._read_ready(t)
            except Exception as err:  # noqa: BLE001
                escaped = err
                break
        for fn, a in loop.calls:
            fn(*a)
        expect = []
        for h in hist:
            try:
                expect.append(str(P.Packet.from_file(dtm, T._normalise(T._str(h.encode("ascii", "replace") + b"\r\n")))))
            except Exception:  # noqa: BLE001
                pass
        ctx.case(("serial-history", tuple(hist), tuple(chunks)), bool(expect), "serial-history")
        case = {"lines": hist, "reads": [c.decode("ascii", "replace") for c in chunks], "delivered": proto.pkts, "acceptable": expect}
        if escaped is not None:
            ctx.violation(f"escape:{type(escaped).__name__}@read_ready", f"{type(escaped).__name__} escapes the serial receive path",
                          {**case, "error": repr(escaped)}, "history")
        elif proto.pkts != expect:
            ctx.violation("serial-frames-lost", "acceptable lines of a serial stream were not handed to the protocol", case, "history")


def live_protocol_oracle(ctx: Ctx, lines: list[str], trials: int) -> None:
    """The last stage of the live receive path: a real PortProtocol (device-id filter, foreign-gateway memo, QoS context) bound to a gateway
    whose id is known, fed the packets of a history in which strangers' gateways talk -- over a process lifetime that crosses midnight.  Nothing
    may escape pkt_received, and what reaches the msg handler is what a protocol that met each line on a fresh day hands over."""
    import datetime as _dtm  # noqa: PLC0415

    import ramses_tx.protocol as PR  # noqa: PLC0415
    from ramses_tx.packet import Packet  # noqa: PLC0415

    rng = ctx.rng
    GW = "18:111111"
    strangers = ["18:222222", "18:333333", "18:000730", "18:123456"]
    good = [ln for ln in lines if ln and "\r" not in ln and "\n" not in ln][:300]
    real_dt = PR.dt

    class Clock(real_dt):
        at = real_dt(2024, 1, 1, 23, 50)

        @classmethod
        def now(cls, tz=None):
            return cls.at

    class Tr:
        def get_extra_info(self, k, d=None):
            return {"active_gwy": GW, "is_evofw3": True}.get(k, d)

        def is_closing(self):
            return False

    async def one(hist, steps):
        got = []
        Clock.at = real_dt(2024, 1, 1, 23, 50)
        proto = PR.PortProtocol(lambda m: got.append(str(m._pkt)), disable_qos=True)
        proto.connection_made(Tr(), ramses=True)
        escaped = None
        for ln, step in zip(hist, steps):
            Clock.at = Clock.at + _dtm.timedelta(minutes=step)
            try:
                pkt = Packet.from_port(Clock.at, ln)
            except Exception:  # noqa: BLE001
                continue
            try:
                proto.pkt_received(pkt)
            except Exception as err:  # noqa: BLE001
                escaped = (ln, err)
                break
        return got, escaped

    loop = asyncio.new_event_loop()
    PR.dt = Clock
    try:
        for trial in range(trials):
            hist = []
            for _ in range(rng.randint(4, 12)):
                r = rng.random()
                if r < 0.5:
                    a, b = rng.choice(strangers), rng.choice(["01:145038", "01:222222", "13:123456"])
                    hist.append(rng.choice([f"045 RQ --- {a} {b} --:------ 30C9 001 00", f"045 RP --- {b} {a} --:------ 30C9 003 0007D0",
                                            f"045  I --- {a} --:------ {a} 0008 002 00C8"]))
                elif r < 0.7:
                    hist.append(f"045 RP --- 01:145038 {GW} --:------ 30C9 003 0007D0")
                else:
                    hist.append(rng.choice(good))
            steps = [rng.choice([0, 1, 5, 15, 700, 1500]) for _ in hist]          # minutes between lines: some histories cross one or two midnights
            got, escaped = loop.run_until_complete(one(hist, steps))
            ref, _ = loop.run_until_complete(one(hist, [0] * len(hist)))        # the same lines, all on the day the protocol was created
            crossing = sum(steps) >= 10
            ctx.case(("live-protocol", tuple(hist), tuple(steps)), bool(ref), "live-protocol:" + ("crosses-midnight" if crossing else "one-day"))
            case = {"lines": hist, "minutes_between": steps, "delivered": got, "delivered_within_one_day": ref, "active_gateway": GW}
            if escaped is not None:
                ctx.violation(f"escape:{type(escaped[1]).__name__}@protocol.pkt_received", f"{type(escaped[1]).__name__} escapes the protocol's pkt_received",
                              {**case, "line": escaped[0], "error": repr(escaped[1])}, "history")
            elif [g[27:] for g in got] != [g[27:] for g in ref]:
                ctx.violation("delivery-depends-on-the-date", "the frames a live protocol hands on depend on how long the process has been running", case, "history")
    finally:
        PR.dt = real_dt
        loop.close()


async def stream_oracle(ctx: Ctx, lines: list[str], trials: int) -> None:
    """A log file with bad lines in between: every acceptable line is still delivered."""
    import ramses_tx.packet as P  # noqa: PLC0415
    from ramses_rf import Gateway  # noqa: PLC0415
    from ramses_tx.message import Message  # noqa: PLC0415

    rng = ctx.rng
    loop = asyncio.get_running_loop()
    loop_errors: list = []
    loop.set_exception_handler(lambda lp, c: loop_errors.append(c))

    def acceptable(dtm, line):
        try:
            return Message(P.Packet.from_file(dtm, line)) is not None
        except Exception:  # noqa: BLE001
            return False

    for trial in range(trials):
        body, expect = [], []
        for k in range(rng.randint(5, 30)):
            dtm = f"2024-01-01T12:{k // 60:02d}:{k % 60:02d}.000000"
            r = rng.random()
            if r < 0.6:
                line = rng.choice(lines)
            elif r < 0.75:
                line = rng.choice(["", "# a comment", "!V", "éè non-ascii ☃", "045  I --- 04:000001 --:------ 01:000002 30C9 006 000000010000"])
            else:
                line = corpus.mutate(rng.choice(lines), rng, 2)
            if "\n" in line or "\r" in line:
                continue
            body.append(f"{dtm} {line}")
            full = f"{dtm} {line}".strip()
            if full and full[:1] != "#" and acceptable(full[:26], full[27:]):
                expect.append(full[27:].strip())
        seen: list = []
        f = io.TextIOWrapper(io.BytesIO(("\n".join(body) + "\n").encode("utf-8")), encoding="utf-8")
        try:
            gwy = Gateway(None, input_file=f, config={"disable_discovery": True, "reduce_processing": 3})
            await gwy.start()
            gwy._protocol.add_handler(lambda m: seen.append(m))
        except Exception as err:  # noqa: BLE001
            ctx.violation(f"stream-stops:{type(err).__name__}", "starting a gateway on a log with bad lines raised",
                          {"log": body, "error": repr(err)}, "history")
            continue
        for _ in range(len(body) * 3 + 20):
            await asyncio.sleep(0)
        # count deliveries at the protocol (handler was added after start: use _this_msg trail instead)
        n_expected = len(expect)
        n_read = sum(1 for b in body if b.strip())
        ctx.case(("stream-file", trial, n_read), n_expected > 0, "log-stream")
        last = gwy._protocol._this_msg
        if n_expected and (last is None):
            ctx.violation("stream-stops:no-delivery", "no message was delivered from a log that contains acceptable lines",
                          {"log": body}, "history")
        elif n_expected:
            # the LAST acceptable line must have been delivered: a bad line earlier must not stop the stream
            last_txt = str(last._pkt)
            exp_last = list(P.Packet._partition(expect[-1]))[0][4:]
            if last_txt != exp_last:
                ctx.violation("stream-stops:later-lines-lost", "lines after a rejected line were not delivered",
                              {"log": body, "last_delivered": last_txt, "last_acceptable": exp_last}, "history")
        try:
            await gwy.stop()
        except Exception as err:  # noqa: BLE001
            ctx.violation(f"stream-stops:{type(err).__name__}@stop", "gwy.stop() re-raised a reader exception", {"log": body, "error": repr(err)}, "history")
    for c in loop_errors:
        e = c.get("exception")
        ctx.dist["loop-exception:" + type(e).__name__] += 1


def replay(case: dict) -> int:
    print(case.get("signature"), case.get("case"))
    return 0
