import logging, itertools
logging.disable(logging.CRITICAL)
from ramses_rf.system.faultlog import FaultLog
from collections import OrderedDict
class T: id="01:000001"; _gwy=None
def inv(m):
    ks=list(m.keys())
    return all(m[a]>m[b] for a in m for b in m if a<b)
fl=FaultLog(T())
K=range(0,6); V=[f"{i:02d}" for i in range(1,7)]
bad=0; tot=0
for r in range(0,5):
    for ks in itertools.combinations(K,r):
        for vs in itertools.combinations(reversed(V),r):  # descending values
            m=OrderedDict(zip(ks,vs))
            assert inv(m)
            for idx in K:
                for dtm in V+[None]:
                    if dtm is not None and m.get(idx)==dtm: continue
                    fl._map=OrderedDict(m)
                    new=fl._insert_into_map(idx,dtm)
                    tot+=1
                    ok = inv(new) and len(set(new.values()))==len(new)
                    # also: keys sorted ascending in OrderedDict order?
                    if not ok:
                        bad+=1
                        if bad<=6: print("BREAK", dict(m), (idx,dtm), "->", dict(new))
print("total",tot,"bad",bad)
