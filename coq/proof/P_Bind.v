(* P_Bind: the waiting step of the binding FSM.  The state space of M_Bind.bw is FINITE
   (4 x 3 x 2 x 2 x 7 = 336 states, 5 events): one-step facts are decided by kernel computation over
   all of it and lifted to arbitrary event histories by induction. *)
From Coq Require Import List Bool Arith Lia.
From RV Require Import M_Bind.
Import ListNotations.

Definition all_fut := [FPending; FRes; FExn; FCancelled].
Definition all_ctx := [CWaiting; CNext; CFailed].
Definition all_w := [NotStarted; Suspended; WakeNormal; WakeTimeout; Done OkMsg; Done FlowFailed; Done InvalidState].
Definition all_ev := [EStart; EMatch; EOther; EWaitTimer; EStateTimer].
Definition all_states : list bw :=
  flat_map (fun f => flat_map (fun c => flat_map (fun st => flat_map (fun wt => map (fun w => upd f c st wt w) all_w)
    [true; false]) [true; false]) all_ctx) all_fut.

Lemma in_all_states s : In s all_states.
Proof.
  destruct s as [f c st wt w]. unfold all_states.
  apply in_flat_map. exists f. split; [destruct f; cbn; auto 6|].
  apply in_flat_map. exists c. split; [destruct c; cbn; auto|].
  apply in_flat_map. exists st. split; [destruct st; cbn; auto|].
  apply in_flat_map. exists wt. split; [destruct wt; cbn; auto|].
  apply in_map_iff. exists w. split; [reflexivity|].
  destruct w as [| | | |[| |]]; cbn; auto 10.
Qed.
Lemma in_all_ev e : In e all_ev.
Proof. destruct e; cbn; auto 10. Qed.

(* the invariant of the repaired code, as a boolean *)
Definition inv (s : bw) : bool :=
  (match b_fut s with FCancelled => false | _ => true end) &&
  (match b_fut s, b_ctx s with FExn, CFailed => true | FExn, _ => false | _, CFailed => false | _, _ => true end) &&
  (match b_w s with
   | NotStarted => negb (b_wtimer s)
   | Suspended => (match b_fut s with FPending => true | _ => false end) && b_wtimer s
   | WakeNormal => (match b_fut s with FRes | FExn => true | _ => false end)
   | WakeTimeout => negb (b_wtimer s)
   | Done OkMsg => (match b_fut s, b_ctx s with FRes, CNext => true | _, _ => false end) && negb (b_wtimer s)
   | Done FlowFailed => (match b_fut s, b_ctx s with FExn, CFailed => true | _, _ => false end) && negb (b_wtimer s)
   | Done InvalidState => false
   end) &&
  (match b_ctx s with CWaiting => true | _ => negb (b_sttimer s) end).

(* at the end of an instant nothing is left pending *)
Definition settled (s : bw) : bool := match b_w s with WakeNormal | WakeTimeout => false | _ => true end.

Lemma step_inv_all : forallb (fun s => negb (inv s) || forallb (fun e => inv (fst (step true s e))) all_ev) all_states = true.
Proof. vm_compute. reflexivity. Qed.
Lemma wake_inv_all : forallb (fun s => negb (inv s) || (inv (wake true s) && settled (wake true s))) all_states = true.
Proof. vm_compute. reflexivity. Qed.

Lemma step_inv s e : inv s = true -> inv (fst (step true s e)) = true.
Proof.
  intros H. pose proof (proj1 (forallb_forall _ _) step_inv_all s (in_all_states s)) as A.
  cbv beta in A. rewrite H in A. cbn [negb orb] in A. exact (proj1 (forallb_forall _ _) A e (in_all_ev e)).
Qed.
Lemma wake_inv s : inv s = true -> inv (wake true s) = true /\ settled (wake true s) = true.
Proof.
  intros H. pose proof (proj1 (forallb_forall _ _) wake_inv_all s (in_all_states s)) as A.
  cbv beta in A. rewrite H in A. cbn [negb orb] in A. apply andb_true_iff in A. exact A.
Qed.

Lemma steps_inv evs : forall s n, inv s = true -> inv (fst (fold_left (fun acc e => let '(s', k) := step true (fst acc) e in (s', snd acc + k)) evs (s, n))) = true.
Proof.
  induction evs as [|e evs IH]; intros s n H; cbn [fold_left]; [exact H|].
  cbn [fst snd]. destruct (step true s e) as [s' k] eqn:E. apply IH.
  replace s' with (fst (step true s e)) by (rewrite E; reflexivity). apply step_inv, H.
Qed.

Lemma instant_inv acc evs : inv (fst acc) = true ->
  inv (fst (instant true acc evs)) = true /\ settled (fst (instant true acc evs)) = true.
Proof.
  intros H. unfold instant, steps.
  pose proof (steps_inv evs (fst acc) 0 H) as S.
  destruct (fold_left _ evs (fst acc, 0)) as [s' n]. cbn [fst] in *. apply wake_inv, S.
Qed.

Lemma run_inv hst instants : inv (fst (run true hst instants)) = true.
Proof.
  unfold run.
  assert (G : forall acc, inv (fst acc) = true -> inv (fst (fold_left (instant true) instants acc)) = true).
  { induction instants as [|i is IH]; intros acc H; cbn [fold_left]; [exact H|]. apply IH, instant_inv, H. }
  apply G. destruct hst; reflexivity.
Qed.

(* C20, for EVERY history of instants and events: a wait that ended, ended with the message or with
   BindingFlowFailed -- never with another exception -- and the context has left the waiting state:
   advanced after success, DevHasFailedBinding (not binding, a new attempt may start) after failure *)
Theorem wait_ends_cleanly hst instants o :
  b_w (fst (run true hst instants)) = Done o ->
  (o = OkMsg /\ b_ctx (fst (run true hst instants)) = CNext) \/
  (o = FlowFailed /\ b_ctx (fst (run true hst instants)) = CFailed).
Proof.
  intros H. pose proof (run_inv hst instants) as I. unfold inv in I. rewrite H in I.
  repeat (apply andb_true_iff in I as [I ?]).
  destruct o; [left|right|discriminate].
  - destruct (b_fut _); try discriminate; destruct (b_ctx _); try discriminate; auto.
  - destruct (b_fut _); try discriminate; destruct (b_ctx _); try discriminate; auto.
Qed.

(* between instants the waiter is never left half-woken, and when wait_for's timer has fired in an
   instant, the wait is over by the end of that instant *)
Definition has_wait_timer (evs : list ev) : bool := existsb (fun e => match e with EWaitTimer => true | _ => false end) evs.

Lemma wait_timer_ends_all :
  forallb (fun s => negb (inv s) || negb (b_wtimer s) ||
                    forallb (fun e1 => forallb (fun e2 =>
                      match b_w (wake true (fst (step true (fst (step true (fst (step true s e1)) EWaitTimer)) e2))) with Done _ => true | _ => false end)
                    all_ev) all_ev) all_states = true.
Proof. vm_compute. reflexivity. Qed.

(* a waiting caller whose timer fires (alone, or together with one earlier and one later event of
   the same instant) is answered in that instant *)
Theorem wait_timer_ends s e1 e2 :
  inv s = true -> b_wtimer s = true ->
  exists o, b_w (wake true (fst (step true (fst (step true (fst (step true s e1)) EWaitTimer)) e2))) = Done o.
Proof.
  intros I T. pose proof (proj1 (forallb_forall _ _) wait_timer_ends_all s (in_all_states s)) as A.
  cbv beta in A. rewrite I, T in A. cbn [negb orb] in A.
  pose proof (proj1 (forallb_forall _ _) (proj1 (forallb_forall _ _) A e1 (in_all_ev e1)) e2 (in_all_ev e2)) as B.
  remember (b_w (wake true (fst (step true (fst (step true (fst (step true s e1)) EWaitTimer)) e2)))) as w eqn:Ew.
  cbv beta in B. rewrite <- Ew in B.
  destruct w as [| | | |o']; try discriminate B. exists o'. reflexivity.
Qed.

(* repeated copies of the awaited packet change nothing but the count of logged loop exceptions *)
Definition fut_eqb (a b : fut) : bool := match a, b with FPending, FPending | FRes, FRes | FExn, FExn | FCancelled, FCancelled => true | _, _ => false end.
Lemma duplicate_match_is_noop s : b_fut s <> FPending -> fst (step true s EMatch) = s.
Proof.
  intros H. unfold step. destruct (b_ctx s); try reflexivity. destruct (b_fut s); try reflexivity. contradiction.
Qed.

(* what the code did before the repair: no offer ever arrives -> the caller gets InvalidStateError
   at the wait time-out, a second one is left in the event loop when the state's own timer fires,
   and the context stays "waiting" (is_binding for ever) *)
Theorem old_timeout_refuted :
  let r := run false true [[EStart]; [EWaitTimer]; [EStateTimer]] in
  b_w (fst r) = Done InvalidState /\ b_ctx (fst r) = CWaiting /\ snd r = 1.
Proof. vm_compute. auto. Qed.

Theorem now_timeout_clean :
  let r := run true true [[EStart]; [EWaitTimer]; [EStateTimer]] in
  b_w (fst r) = Done FlowFailed /\ b_ctx (fst r) = CFailed /\ snd r = 0.
Proof. vm_compute. auto. Qed.

(* ---- nothing is left in the event loop: no event, in any state, makes the (repaired) wait raise into the loop ---- *)
Lemma step_quiet_all : forallb (fun s => forallb (fun e => Nat.eqb (snd (step true s e)) 0) all_ev) all_states = true.
Proof. vm_compute. reflexivity. Qed.
Lemma step_quiet s e : snd (step true s e) = 0.
Proof.
  pose proof (proj1 (forallb_forall _ _) step_quiet_all s (in_all_states s)) as A. cbv beta in A.
  apply Nat.eqb_eq. exact (proj1 (forallb_forall _ _) A e (in_all_ev e)).
Qed.
Lemma steps_quiet evs : forall s n, snd (fold_left (fun acc e => let '(s', k) := step true (fst acc) e in (s', snd acc + k)) evs (s, n)) = n.
Proof.
  induction evs as [|e evs IH]; intros s n; [reflexivity|]. cbn [fold_left fst snd].
  pose proof (step_quiet s e) as Q. destruct (step true s e) as [s' k]. cbn in Q. subst k. rewrite IH. apply Nat.add_0_r.
Qed.
Theorem no_loop_exceptions hst instants : snd (run true hst instants) = 0.
Proof.
  assert (G : forall l acc, snd (fold_left (instant true) l acc) = snd acc).
  { induction l as [|evs l IH]; intros acc; [reflexivity|]. cbn [fold_left]. rewrite IH.
    unfold instant. pose proof (steps_quiet evs (fst acc) 0) as Q. unfold steps.
    destruct (fold_left _ evs (fst acc, 0)) as [s' n]. cbn in Q. subst n. cbn. apply Nat.add_0_r. }
  unfold run. rewrite G. reflexivity.
Qed.

(* regression witness: before the repair a second copy of the awaited packet in the same instant raised into the loop *)
Theorem old_repeat_refuted : snd (run false true [[EStart]; [EMatch; EMatch]]) = 1.
Proof. vm_compute. reflexivity. Qed.

(* ---- a packet belongs to at most one phase: in particular a (broadcast) offer is never taken for a confirm ---- *)
Theorem phases_exclusive : forall c v d p q, is_phase c v d p = true -> is_phase c v d q = true -> p = q.
Proof. intros [] [] [] [] []; cbn; intros H1 H2; try discriminate; reflexivity. Qed.
Theorem offer_is_not_confirm : forall c v d, is_phase c v d Tender = true -> is_phase c v d Affirm = false.
Proof. intros [] [] []; cbn; intros H; try discriminate; reflexivity. Qed.

(* ---- a reply that OVERTAKES the end of the send: the awaited packet (and repeats of it, and unrelated packets) arrives while the role coroutine
   has not yet reached its await (its own send of the previous frame is still pending: a lost echo, a retransmission); when it does reach the
   await the wait ends at once with that packet -- it is not lost ---- *)
Definition got (hst : bool) : bw := upd FRes CWaiting hst false NotStarted.
Lemma early_steps others : (forall e, In e others -> e = EOther \/ e = EMatch) ->
  forall hst n, fold_left (fun acc e => let '(s', k) := step true (fst acc) e in (s', snd acc + k)) others (got hst, n) = (got hst, n).
Proof.
  induction others as [|e others IH]; intros H hst n; [reflexivity|]. cbn [fold_left fst snd].
  destruct (H e (or_introl eq_refl)) as [-> | ->]; cbn; rewrite Nat.add_0_r; apply IH; intros e' He'; apply H; right; exact He'.
Qed.
Lemma early_first hst others : (forall e, In e others -> e = EOther \/ e = EMatch) -> steps true (bw0 hst) (EMatch :: others) = (got hst, 0).
Proof. intros H. unfold steps. cbn [fold_left]. change (step true (fst (bw0 hst, 0)) EMatch) with (got hst, 0). cbn [fst snd Nat.add]. apply early_steps, H. Qed.
Theorem early_match_not_lost hst others : (forall e, In e others -> e = EOther \/ e = EMatch) ->
  b_w (fst (run true hst [EMatch :: others; [EStart]])) = Done OkMsg /\ b_ctx (fst (run true hst [EMatch :: others; [EStart]])) = CNext.
Proof.
  intros H. unfold run. cbn [fold_left]. unfold instant. cbn [fst snd]. rewrite (early_first hst others H).
  destruct hst; vm_compute; split; reflexivity.
Qed.
