"""C14 -- state is fresh: expiry arithmetic + message store, tied to the real Message /
_MessageDB code, plus an end-to-end oracle on a replay gateway."""

from __future__ import annotations

import asyncio
import io
import logging
import re
from datetime import datetime as dt, timedelta as td
from types import SimpleNamespace

from .. import common, gw
from ..common import Ctx

THEOREMS = [
    "C14_constants_in_range", "C14_grace_is_a_few_seconds", "C14_latest_wins", "C14_not_before_lifespan", "C14_after_twice",
    "C14_span_never_cant", "C14_expiry_monotone", "C14_expired_total", "C14_zero_span_old_refuted",
    "C14_expired_reads_unknown_partial", "C14_first_read_stale_refuted", "C14_store_keys_nodup", "C14_nonvacuous",
    "C14_held_is_latest", "C14_latest_never_lost", "C14_equal_content_rule_refuted",
    "C14_delete_only_that_message", "C14_delete_invents_nothing", "C14_merged_array_newest_wins", "C14_merged_array_witness",
]

PRELUDE = ("From Coq Require Import ZArith List Bool.\nFrom RV Require Import GenConsts M_Store.\n"
           "Import ListNotations.\nOpen Scope Z_scope.\nSet Printing Width 1000000.\nSet Printing Depth 1000000.\n"
           "Definition rc (r : eres) : Z := match r with EOk false => 0 | EOk true => 1 | EZeroDiv => 2 end.\n")

CTL, GW = "01:145038", "18:111111"
T0 = dt(2026, 1, 1, 12, 0, 0)

# frames of many kinds (lifespans: table-driven, array-dependent, payload-driven, never)
KINDS = [
    f" I --- {CTL} --:------ {CTL} 30C9 003 0007D0",
    f" I --- {CTL} --:------ {CTL} 30C9 006 0007D00107D0",
    f" I --- {CTL} --:------ {CTL} 2309 003 0007D0",
    f" I --- {CTL} --:------ {CTL} 2309 006 0007D00107D0",
    f" I --- {CTL} --:------ {CTL} 000A 006 001001F40DAC",
    f" I --- {CTL} --:------ {CTL} 000A 012 001001F40DAC011001F40DAC",
    f"RP --- {CTL} {GW} --:------ 0005 004 00080F00",
    f"RP --- {CTL} {GW} --:------ 000C 006 00080010ABCD"[:0] + f"RP --- {CTL} {GW} --:------ 000C 006 0008001056E2",
    f"RP --- {CTL} {GW} --:------ 0006 004 00050009",
    f" I --- {CTL} --:------ {CTL} 1F09 003 FF0708",
    f" I --- {CTL} --:------ {CTL} 1F09 003 FF0000",
    f" I --- {CTL} --:------ {CTL} 1F09 003 FF000A",
    f" I --- {CTL} --:------ {CTL} 1F09 003 FFFFFF",
    f"RP --- {CTL} {GW} --:------ 1F09 003 000708",
    f"RQ --- {GW} {CTL} --:------ 1F09 001 00",
    f"RQ --- {GW} {CTL} --:------ 30C9 001 00",
    f" W --- {GW} {CTL} --:------ 2309 003 0007D0",
    f" I --- {CTL} --:------ {CTL} 2349 007 0007D000FFFFFF",
    f" I --- {CTL} --:------ {CTL} 2E04 008 00FFFFFFFFFFFF00",
    f" I --- {CTL} --:------ {CTL} 313F 009 00FC0A2E0C010107E4",
    f" I --- 13:000003 --:------ 13:000003 3EF0 003 00C8FF",
    f" I --- 13:000003 --:------ 13:000003 0008 002 00C8",
    f" I --- 04:000002 --:------ {CTL} 12B0 003 000000",
    f" I --- 04:000002 --:------ 04:000002 30C9 003 0007D0",
    f" I --- 07:000007 --:------ 07:000007 1260 003 0007D0",
    f"RP --- 10:000005 {GW} --:------ 3220 005 00C00500FF",
    f"RP --- 10:000005 {GW} --:------ 3220 005 0040110000",
    f"RP --- 10:000005 {GW} --:------ 3220 005 00C01901F4",
    f" I --- {CTL} --:------ {CTL} 10E0 038 000002FF0163FFFFFFFF140B07E1010807DD4576612D436F6C6F720000000000000000",
    f"RP --- {CTL} {GW} --:------ 1FC9 012 00230904695A003150046 95A"[:0] + f" I --- 32:000004 --:------ 32:000004 31DA 029 00C8400272EF7FFF7FFF7FFF7FFF0002EF18FFFF000000EF7FFF7FFF",
]


def us(t: td) -> int:
    return (t.days * 86400 + t.seconds) * 10**6 + t.microseconds


def run(ctx: Ctx) -> None:
    logging.disable(logging.CRITICAL)
    from ramses_tx.message import Message  # noqa: PLC0415
    from ramses_tx.packet import Packet  # noqa: PLC0415
    from ramses_rf.entity_base import _MessageDB  # noqa: PLC0415

    rng = ctx.rng
    thorough = ctx.tier == "thorough"
    ctx.rule = ("(X1) real Message objects of 30 kinds (table / array / payload-driven / never-expiring lifespans, incl. a zero "
                "countdown) evaluated at clock sequences around {0, L, 2L+3s} incl. backwards jumps; (X2) random message "
                "sequences (src/dst/verb/code) through the real _MessageDB._handle_msg; (O) replay gateways: interleavings of "
                "array/single 30C9, 2309, 2349 and foreign traffic over 4 zones, then clock sweeps; non-trivial = a positive "
                "finite lifespan / a stored message")
    ctx.assumptions += [
        "timedelta/timedelta is a correctly rounded int/int division; since lifespans are < 2^52 us, fraction >= 2.0 is "
        "decided exactly as age >= 2*lifespan (argued in DESIGN.md C14, not proved in Coq)",
        "the lifespan table (pkt_lifespan) is not modelled: the model takes the lifespan the implementation assigns as input",
    ]
    built = ctx.build("C14", THEOREMS)
    HAS = Message.HAS_EXPIRED

    # ---------------------------------------------------------------- X1 + O1: expiry
    cases, impl = [], []
    nper = 24 if thorough else 8
    for frame in KINDS:
        for _ in range(nper):
            try:
                msg = Message(Packet(T0, "000 " + frame))
                _ = msg.payload
            except Exception as err:  # noqa: BLE001
                ctx.dist["kind-rejected:" + type(err).__name__] += 1
                break
            ls = msg._pkt._lifespan
            if msg.code == "1F09" and msg.verb != "RQ":
                span = td(seconds=msg.payload["remaining_seconds"])
                coq_l, L = f"(Span {us(span)})", us(span)
            elif ls is False:
                coq_l, L = "Never", None
            else:
                coq_l, L = f"(Span {us(ls)})", us(ls)
            pts = [0, 1, 3_000_000, 2_999_999]
            if L:
                pts += [L - 1, L, L + 1, L + 3_000_000, 2 * L + 2_999_999, 2 * L + 3_000_000, 2 * L + 3_000_001, 10 * L]
            times = sorted(rng.choice(pts) + rng.choice([0, 0, 1, -1, rng.randrange(0, 1000)]) for _ in range(rng.randint(1, 6)))
            if _ == 0 and L:
                times = [0, L + 2, L - 3_000_000, 2 * L + 3_000_000, 2 * L + 3_000_001]   # first tested at the very instant of the packet (a replay's clock), then a clock 3 s - L behind: fractions -3 s / L and -1
                times = [t for t in times if t >= 0 or L > 3_000_000]
            if rng.random() < 0.3:
                rng.shuffle(times)  # a clock that jumps backwards
            clock = {"now": T0}
            msg._gwy = SimpleNamespace(_dt_now=lambda clock=clock: clock["now"])
            res = []
            for ti, t in enumerate(times):
                clock["now"] = T0 + td(microseconds=t)
                try:
                    r = 1 if msg._expired else 0
                except ZeroDivisionError:
                    r = 2
                except Exception as err:  # noqa: BLE001
                    r = 9
                    ctx.violation("expired-raises:" + type(err).__name__, "evaluating expiry raised", {"frame": frame, "age_us": t})
                res.append(r)
                age = t
                if r == 2:
                    ctx.violation("expired-raises:ZeroDivisionError", "evaluating expiry of a zero-countdown 1F09 raised ZeroDivisionError",
                                  {"frame": frame, "age_us": t})
                if L and r == 1 and age < L and not any(x >= 2 * L + 3_000_000 for x in times[:ti]):
                    ctx.violation("expired-too-early", "a message is treated as expired before its lifetime has passed",
                                  {"frame": frame, "lifespan_us": L, "age_us": age})
                if L and r == 0 and age >= 2 * L + 3_000_000:
                    ctx.violation("not-expired-after-2L", "a message is not expired although twice its lifetime plus 3 s has passed",
                                  {"frame": frame, "lifespan_us": L, "age_us": age})
            if any(a == 1 and b == 0 for i, a in enumerate(res) for b in res[i + 1:]):
                ctx.violation("expiry-unhappens", "a message that was expired is later treated as live", {"frame": frame, "ages_us": times, "results": res})
            ctx.case(("expiry", frame[:40], tuple(times)), bool(L), "expiry:" + ("never" if L is None else ("zero" if L == 0 else "finite")))
            cases.append(f"({coq_l}, {common.coq_list([str(t) for t in times])})")
            impl.append(res)
    files = {"x1": PRELUDE + "Eval vm_compute in (map (fun x : lifespan * list Z => map rc (expired_seq FNone 0 (fst x) (snd x))) "
             + common.coq_list(cases, ";\n ") + ")."}

    # ---------------------------------------------------------------- X2: the store
    ids = ["04:000001", "04:000002", "01:145038", "18:111111", "63:262142", "13:000003"]
    codes = ["30C9", "2309", "1FC9", "0008", "3150"]
    verbs = [" I", "RQ", "RP", " W"]
    st_cases, st_impl = [], []

    def zid(i):
        return str(int(i[:2]) * 10**6 + int(i[3:]))

    frames_for = {
        "30C9": ["0007D0", "0007D0", "0007D1", "0107D0"], "2309": ["0007D0", "0007D0", "000834"], "1FC9": ["0030C9045A31"],
        "0008": ["00C8", "00C8", "0000"], "3150": ["00C8", "00C8", "0064"],
    }
    for _ in range(400 if thorough else 120):
        me = rng.choice(ids[:3])
        obj = _MessageDB.__new__(_MessageDB)
        obj._msgs_, obj._msgz_ = {}, {}
        obj.id = me
        obj._gwy = SimpleNamespace(_zzz=None)
        ms = []
        for k in range(rng.randint(1, 12)):
            src, dst = rng.choice(ids), rng.choice(ids)
            verb, code = rng.choice(verbs), rng.choice(codes)
            # REAL messages where the frame is legal (equality is then by content, as in the library),
            # with payloads that repeat: an unchanged reading re-announced later must still replace the older message
            m = None
            if src != dst and src[:2] != "63" and dst[:2] != "63" and verb in (" I", "RP") and rng.random() < 0.7:
                pl = rng.choice(frames_for[code])
                try:
                    m = Message(Packet(T0 + td(seconds=k), f"000 {verb} --- {src} {dst} --:------ {code} {len(pl) // 2:03d} {pl}"))
                    m.val = k
                except Exception:  # noqa: BLE001
                    m = None
            if m is None:
                m = SimpleNamespace(src=SimpleNamespace(id=src), dst=SimpleNamespace(id=dst), verb=verb, code=code,
                                    _pkt=SimpleNamespace(_ctx=rng.choice(["00", "01", False])), val=k)
            _MessageDB._handle_msg(obj, m)
            ms.append(m)
        got = [obj._msgs_[c].val if c in obj._msgs_ else -1 for c in codes]
        ctx.case(("store", me, tuple((m.src.id, m.dst.id, m.verb, m.code) for m in ms)), any(g >= 0 for g in got), "store")
        # oracle: last relevant wins
        for c, g in zip(codes, got):
            rel = [m.val for m in ms if m.code == c and m.verb in (" I", "RP") and (
                m.src.id == me or (m.dst.id == me and m.verb != "RQ") or (m.dst.id == "63:262142" and c == "1FC9"))]
            if (rel[-1] if rel else -1) != g:
                ctx.violation("store-not-latest", "the stored message for a code is not the most recently received relevant one",
                              {"entity": me, "code": c, "stored_message_number": g, "latest_relevant_message_number": rel[-1] if rel else None,
                               "messages": [(m.src.id, m.dst.id, m.verb, m.code, getattr(getattr(m, "_pkt", None), "payload", "")) for m in ms]})
        st_impl.append(got)
        coq_ms = "[" + "; ".join(
            f"{{| s_code := 0x{m.code}; s_verb := {verbs.index(m.verb)}; s_src := {zid(m.src.id)}; s_dst := {zid(m.dst.id)}; "
            f"s_ctx := 0; s_val := {m.val} |}}" for m in ms) + "]"
        st_cases.append(f"({zid(me)}, {coq_ms})")
    files["x2"] = (PRELUDE + "Eval vm_compute in (map (fun x : Z * list smsg => let st := fold_left (handle (fst x)) (snd x) [] in "
                   "map (fun c => match sget st c with Some m => s_val m | None => -1 end) [0x30C9; 0x2309; 0x1FC9; 0x0008; 0x3150]) "
                   + common.coq_list(st_cases, ";\n ") + ").")

    if built:
        res = common.coq_eval("C14", files, timeout=600)
        for name, imp, label in (("x1", impl, "expired"), ("x2", st_impl, "handle_msg-store")):
            rc, out = res[name]
            if rc:
                ctx.obligation(f"correspondence:{label}", False, "correspondence", out[-500:])
                continue
            m = re.search(r"=\s*(\[.*\])\s*:\s*list", out, flags=re.S)
            model = eval(m.group(1).replace(";", ","), {"__builtins__": {}})  # noqa: S307
            bad = [i for i, (a, b) in enumerate(zip(model, imp)) if list(a) != list(b)]
            src = cases if name == "x1" else st_cases
            ctx.obligation(f"correspondence:{label}", not bad and len(model) == len(imp), "correspondence",
                           f"{len(bad)} of {len(imp)} differ; first: {src[bad[0]][:300]} model {model[bad[0]]} implementation {imp[bad[0]]}" if bad else "")
    else:
        ctx.obligation("correspondence:expired", False, "correspondence", "model not built")
        ctx.obligation("correspondence:handle_msg-store", False, "correspondence", "model not built")

    DELETE_CASES.clear()
    asyncio.run(end_to_end(ctx, 150 if thorough else 40))
    delete_correspondence(ctx, built)
    lifespan_table_effective(ctx)
    lifespan_branches_effective(ctx)
    deferred_correspondence(ctx, built, 120 if ctx.tier == "thorough" else 40)
    array_pick_correspondence(ctx, built, 600 if ctx.tier == "thorough" else 200)
    gw.run_async(config_updates, ctx, 60 if ctx.tier == "thorough" else 16)


async def end_to_end(ctx: Ctx, trials: int) -> None:
    from ramses_rf import Gateway  # noqa: PLC0415

    rng = ctx.rng
    await repeated_readings(ctx, max(4, trials // 6))

    def T(k):
        return f"{k:04X}"

    for trial in range(trials):
        t = dt(2026, 1, 1, 12, 0, 0)
        lines = []

        def add(line, dtmax=20):
            nonlocal t
            t += td(seconds=rng.randint(1, dtmax))
            lines.append(f"{t.isoformat(timespec='microseconds')} 045 {line}")

        add(f"RP --- {CTL} {GW} --:------ 0005 004 00080F00")
        exp_temp, exp_sp, when_temp = {}, {}, {}
        for _ in range(rng.randint(5, 40)):
            k = rng.choice(["arr30", "one30", "one30", "arr23", "one23", "2349", "other", "dev30", "rq", "w", "jump"])
            if k == "jump":      # hours pass between readings: later one zone's reading is stale while its sibling's is fresh
                t += td(seconds=rng.choice([1700, 3000, 3700, 5400, 7300]))
            elif k == "arr30":
                zs = sorted(rng.sample(range(4), rng.randint(2, 4)))
                pl = ""
                for z in zs:
                    v = rng.randrange(500, 3000)
                    pl += f"{z:02X}{T(v)}"
                    exp_temp[z] = v / 100
                add(f" I --- {CTL} --:------ {CTL} 30C9 {len(pl) // 2:03d} {pl}")
                for z in zs:
                    when_temp[z] = (t, "array")
            elif k == "one30":
                z, v = rng.randrange(4), rng.randrange(500, 3000)
                exp_temp[z] = v / 100
                add(f"RP --- {CTL} {GW} --:------ 30C9 003 {z:02X}{T(v)}")
                when_temp[z] = (t, "single")
            elif k == "arr23":
                zs = sorted(rng.sample(range(4), rng.randint(2, 4)))
                pl = ""
                for z in zs:
                    v = rng.randrange(500, 3000, 50)
                    pl += f"{z:02X}{T(v)}"
                    exp_sp[z] = v / 100
                add(f" I --- {CTL} --:------ {CTL} 2309 {len(pl) // 2:03d} {pl}")
            elif k == "one23":
                z, v = rng.randrange(4), rng.randrange(500, 3000, 50)
                exp_sp[z] = v / 100
                add(f"RP --- {CTL} {GW} --:------ 2309 003 {z:02X}{T(v)}")
            elif k == "2349":
                z, v = rng.randrange(4), rng.randrange(500, 3000, 50)
                exp_sp[z] = v / 100
                add(f"RP --- {CTL} {GW} --:------ 2349 007 {z:02X}{T(v)}00FFFFFF")
            elif k == "other":
                add(f" I --- {CTL} --:------ {CTL} 1F09 003 FF0708")
            elif k == "dev30":
                d = rng.randrange(1, 4)
                add(f" I --- 04:00000{d} --:------ 04:00000{d} 30C9 003 00{T(rng.randrange(500, 3000))}")
            elif k == "rq":
                add(f"RQ --- {GW} {CTL} --:------ 30C9 001 {rng.randrange(4):02X}")
            elif k == "w":
                add(f" W --- {GW} {CTL} --:------ 2309 003 {rng.randrange(4):02X}{T(rng.randrange(500, 3000, 50))}")
        # finally advance the replay clock with an unrelated packet
        gap = rng.choice([1, 60, 3599, 3601, 7199, 7204, 100000])
        t += td(seconds=gap)
        lines.append(f"{t.isoformat(timespec='microseconds')} 045  I --- 32:000004 --:------ 32:000004 1298 003 000000")
        g = Gateway(None, input_file=io.TextIOWrapper(io.BytesIO(("\n".join(lines) + "\n").encode())),
                    config={"disable_discovery": True})
        try:
            await gw.start(g)
        except Exception as err:  # noqa: BLE001
            ctx.dist["e2e-start-failed:" + type(err).__name__] += 1
            continue
        for _ in range(8):
            await asyncio.sleep(0)
        zones = {int(z.idx, 16): z for z in g.tcs.zones} if g.tcs else {}
        now = g._dt_now()
        if trial % 2:      # something ELSE looks at the stored messages first (a snapshot, the schema): what the attributes report afterwards is the same
            try:
                g.get_state()
                _ = g.schema
            except Exception as err:  # noqa: BLE001
                ctx.dist["e2e-snapshot-first-raises:" + type(err).__name__] += 1
        spans = {}     # every zone's lifespan is looked up BEFORE anything is read: reading one zone must not disturb its siblings
        for z in range(4):
            m = zones[z]._msgs.get("30C9") if z in zones else None
            spans[z] = m._pkt._lifespan if m else None
        for z in range(4):
            if z not in zones or z not in when_temp:
                continue
            wt, form = when_temp[z]
            L = spans[z]
            age = now - wt
            first = zones[z].temperature
            await asyncio.sleep(0)
            await asyncio.sleep(0)
            second = zones[z].temperature
            ctx.case(("e2e", trial, z, form, gap), True, "e2e-zone-temperature")
            case = {"log_tail": [x[27:] for x in lines[-6:]], "zone": z, "age_s": age.total_seconds(), "snapshot_and_schema_read_first": bool(trial % 2),
                    "lifespan_s": L.total_seconds() if isinstance(L, td) else None, "first_read": first, "second_read": second,
                    "last_relevant_value": exp_temp[z]}
            if isinstance(L, td) and age < L:
                if first != exp_temp[z] or second != exp_temp[z]:
                    ctx.violation("latest-not-reported", "a live attribute does not show the most recent message's value", case, "history")
            elif isinstance(L, td) and age >= 2 * L + td(seconds=3):
                if second is not None:
                    ctx.violation("expired-value-lingers", "an expired value is still reported after the deferred deletion", case, "history")
                if first is not None:
                    ctx.violation("stale-first-read", "the first read after expiry still returns the expired value", case, "history")
            else:  # between L and 2L+3: either is allowed, but never another value
                if first not in (None, exp_temp[z]):
                    ctx.violation("latest-not-reported", "an attribute shows a value other than the most recent one", case, "history")
        for z in range(4):
            if z in zones and z in exp_sp and gap <= 60:
                ctx.case(("e2e-sp", trial, z), True, "e2e-zone-setpoint")
                if zones[z].setpoint != exp_sp[z]:
                    ctx.violation("latest-not-reported", "zone.setpoint is not the most recent 2309/2349 value",
                                  {"log_tail": [x[27:] for x in lines[-6:]], "zone": z, "got": zones[z].setpoint, "expected": exp_sp[z]}, "history")
        # the deferred deletion itself: _delete_msg(m) on the real entities removes m wherever it is held, and nothing else
        ents = ([g.tcs.ctl, g.tcs] + list(g.tcs.zones) + ([g.tcs.dhw] if g.tcs.dhw else [])) if g.tcs else []
        held = [m for e in ents for m in e._msgs_.values()]
        for m in rng.sample(held, min(2, len(held))):
            before = [dict(e._msgs_) for e in ents]
            try:
                ents[-1]._delete_msg(m)
            except Exception as err:  # noqa: BLE001
                ctx.violation("delete-raises:" + type(err).__name__, "deleting a stored message raised", {"log_tail": [x[27:] for x in lines[-6:]], "message": str(m._pkt)}, "history")
                continue
            ctx.case(("delete", trial, str(m._pkt)), True, "delete-stored-message")
            for e, b in zip(ents, before):
                want = {c: x for c, x in b.items() if x is not m}
                if dict(e._msgs_) != want:
                    lost = sorted(c for c in want if c not in e._msgs_)
                    ctx.violation("delete-removes-another-message", "deleting one (expired) message removed another message held by an entity",
                                  {"log_tail": [x[27:] for x in lines[-8:]], "deleted": str(m._pkt), "entity": str(e), "codes_lost": lost}, "history")
                DELETE_CASES.append(([(int(c, 16), id(x) % 10**9) for c, x in b.items()], (int(m.code, 16), id(m) % 10**9),
                                     sorted((int(c, 16), id(x) % 10**9) for c, x in e._msgs_.items())))
        # ... and a STALE deletion: the message has been superseded (same frame again, later) before its deferred deletion runs -- the newer one stays
        held = [m for e in ents for m in e._msgs_.values() if m.verb in (" I", "RP")]
        for m in rng.sample(held, min(2, len(held))):
            t_new = g._dt_now() + td(seconds=1)
            g._transport._frame_read(t_new.isoformat(timespec="microseconds"), f"{m._pkt._rssi} {m._pkt._frame}")
            for _ in range(6):
                await asyncio.sleep(0)
            newer = [(e, x) for e in ents for x in e._msgs_.values() if x is not m and x.dtm == t_new]
            if not newer:
                continue          # the repeated frame was not stored (filtered): nothing superseded
            ctx.case(("stale-delete", trial, str(m._pkt)), True, "delete-superseded-message")
            before = [dict(e._msgs_) for e in ents]
            ents[-1]._delete_msg(m)
            for e, b in zip(ents, before):       # also a case of the model's sdel: deleting a message that is not (any longer) held changes nothing
                DELETE_CASES.append(([(int(c, 16), id(x) % 10**9) for c, x in b.items()], (int(m.code, 16), id(m) % 10**9),
                                     sorted((int(c, 16), id(x) % 10**9) for c, x in e._msgs_.items())))
            for e, x in newer:
                if e._msgs_.get(x.code) is not x:
                    ctx.violation("stale-delete-removes-the-newer-message", "the deferred deletion of a superseded message removed the newer message that holds its place",
                                  {"log_tail": [y[27:] for y in lines[-4:]], "superseded": str(m._pkt), "entity": str(e)}, "history")
            src = m.src
            if hasattr(src, "_msg_db") and not any(y.dtm == t_new and y.code == m.code for y in src._msg_db):
                ctx.violation("stale-delete-removes-the-newer-message", "the deferred deletion of a superseded message removed the newer message from the sender's message index (the snapshot's source)",
                              {"log_tail": [y[27:] for y in lines[-4:]], "superseded": str(m._pkt), "entity": str(src)}, "history")
        await g.stop()


DELETE_CASES: list = []     # (store before as (code, message id), the deleted (code, id), store after): compared with the model's sdel


def delete_correspondence(ctx: Ctx, built: bool) -> None:
    cases = DELETE_CASES[:600]
    if not built or not cases:
        ctx.obligation("correspondence:delete", False, "correspondence", "model not built" if not built else "no stored message was deleted")
        return

    def sm(c, v):
        return f"{{| s_code := {c}; s_verb := 0; s_src := 1; s_dst := 1; s_ctx := 0; s_val := {v} |}}"

    txt = PRELUDE + "Eval vm_compute in (map (fun x : list (Z * smsg) * smsg => map (fun e => [fst e; s_val (snd e)]) (sdel (fst x) (snd x))) " + common.coq_list(
        ["([" + "; ".join(f"({c}, {sm(c, v)})" for c, v in b) + f"], {sm(*d)})" for b, d, _ in cases], ";\n ") + ")."
    rc, out = common.coq_eval("C14del", {"x": txt}, timeout=300)["x"]
    m = re.search(r"=\s*(\[.*\])\s*:\s*list", out, flags=re.S)
    if rc or not m:
        ctx.obligation("correspondence:delete", False, "correspondence", out[-400:])
        return
    rows = eval(m.group(1).replace(";", ","), {"__builtins__": {}})  # noqa: S307
    bad = [i for i, (r, (_, _, a)) in enumerate(zip(rows, cases)) if sorted(tuple(x) for x in r) != [tuple(x) for x in a]]
    ctx.obligation("correspondence:delete", not bad and len(rows) == len(cases), "correspondence",
                   f"{len(bad)} of {len(cases)} differ; first: store {cases[bad[0]][0]} delete {cases[bad[0]][1]}: model {rows[bad[0]]} implementation {cases[bad[0]][2]}" if bad or len(rows) != len(cases)
                   else f"{len(cases)} deletions on real controller / system / zone stores agree with sdel")


async def config_updates(ctx: Ctx, trials: int) -> None:
    """Latest wins for a zone's configuration: the controller's hourly I|000A array, then (seconds later -- the gateway merges consecutive 000A
    packets of one controller less than 3 s apart into one array, so the zone is in it twice) a single-element I|000A for one zone, as sent after
    a W|000A, or the whole array again with one zone changed.  The zone's config view must show the NEWEST values."""
    from ramses_rf import Gateway  # noqa: PLC0415

    rng = ctx.rng
    for trial in range(trials):
        t = dt(2026, 1, 1, 12, 0, 0)
        lines = [f"{t.isoformat(timespec='microseconds')} 045 RP --- {CTL} {GW} --:------ 0005 004 00080F00"]
        cfgs = {z: (rng.randrange(500, 2100, 50), rng.randrange(2100, 3500, 50)) for z in range(4)}

        def arr(c):
            return "".join(f"{z:02X}10{lo:04X}{hi:04X}" for z, (lo, hi) in sorted(c.items()))

        t += td(seconds=5)
        pl = arr(cfgs)
        lines.append(f"{t.isoformat(timespec='microseconds')} 045  I --- {CTL} --:------ {CTL} 000A {len(pl) // 2:03d} {pl}")
        z = rng.randrange(4)
        new = (rng.randrange(500, 2100, 50), rng.randrange(2100, 3500, 50))
        while new == cfgs[z]:
            new = (rng.randrange(500, 2100, 50), rng.randrange(2100, 3500, 50))
        gap = rng.choice([1.5, 2.0, 2.9, 3.5, 10.0])
        form = rng.choice(["single", "single", "array"])
        t += td(seconds=gap)
        cfgs[z] = new
        pl = f"{z:02X}10{new[0]:04X}{new[1]:04X}" if form == "single" else arr(cfgs)
        lines.append(f"{t.isoformat(timespec='microseconds')} 045  I --- {CTL} --:------ {CTL} 000A {len(pl) // 2:03d} {pl}")
        t += td(seconds=1)
        lines.append(f"{t.isoformat(timespec='microseconds')} 045  I --- 32:000004 --:------ 32:000004 1298 003 000000")
        g = Gateway(None, input_file=io.TextIOWrapper(io.BytesIO(("\n".join(lines) + "\n").encode())), config={"disable_discovery": True})
        try:
            await gw.start(g)
            for _ in range(10):
                await asyncio.sleep(0)
            ctx.case(("config-update", trial, z, gap, form), True, f"config-update:{form}:{'merged' if gap < 3 else 'separate'}")
            zones = {int(x.idx, 16): x for x in g.tcs.zones} if g.tcs else {}
            for zz, (lo, hi) in cfgs.items():
                if zz not in zones:
                    continue
                c = zones[zz].config or {}
                got = (c.get("min_temp"), c.get("max_temp"))
                if got != (lo / 100, hi / 100):
                    ctx.violation("latest-not-reported:zone-config", "a zone's config view does not show the most recent 000A values for that zone",
                                  {"log": [x[27:] for x in lines], "zone": zz, "updated_zone": z, "gap_s": gap, "form": form, "got": list(got), "expected": [lo / 100, hi / 100]}, "history")
        finally:
            await g.stop()


def delete_rule_shape() -> str:
    """M_StoreDeferred's del_is: _delete_msg removes an entry only if it IS the message (not merely equal to it).  Read from the source (AST)."""
    import ast  # noqa: PLC0415
    import inspect  # noqa: PLC0415

    import ramses_rf.entity_base as eb  # noqa: PLC0415

    tree = ast.parse(inspect.getsource(eb))
    fn = next((n for n in ast.walk(tree) if isinstance(n, ast.FunctionDef) and n.name == "_delete_msg"), None)
    if fn is None:
        return "_delete_msg not found"
    dels = [n for n in ast.walk(fn) if isinstance(n, ast.Delete)]
    if len(dels) < 2:
        return "_delete_msg no longer deletes from both stores (_msgs_ and _msgz_)"
    guards = [ast.unparse(n.test) for n in ast.walk(fn) if isinstance(n, ast.If) and any(isinstance(x, ast.Delete) for x in ast.walk(n))]
    loose = [g for g in guards if " is msg" not in g]
    if len(guards) < 2 or loose:
        return f"_delete_msg deletes an entry without testing that it IS the message: guards {guards}"
    return ""


def deferred_correspondence(ctx: Ctx, built: bool, trials: int) -> None:
    """Event histories (a packet is stored / an attribute read finds the held message expired or live / the loop turns) on a REAL controller
    entity -- the store rule of _MessageDB._handle_msg, _msg_value_msg scheduling _delete_msg through the real call_soon -- against M_StoreDeferred."""
    from ramses_rf.dispatcher import _create_devices_from_addrs  # noqa: PLC0415
    from ramses_rf.entity_base import _MessageDB  # noqa: PLC0415
    from ramses_tx.message import Message  # noqa: PLC0415
    from ramses_tx.packet import Packet  # noqa: PLC0415

    why = delete_rule_shape()
    ctx.obligation("translator:delete-rule-is-identity", not why, "translator", why or "_delete_msg guards both deletions with `is msg`")
    rng = ctx.rng
    CODES = {"1F09": ["FF0532", "FF0533"], "2E04": ["00FFFFFFFFFFFF00", "01FFFFFFFFFFFF00"]}
    t0 = dt(2026, 2, 1, 12, 0, 0)
    cases, impl = [], []

    async def one(evs):
        g = await gw.make_gateway([f"{t0.isoformat(timespec='microseconds')} 045  I --- {CTL} --:------ {CTL} 30C9 003 0007D0"], None)
        ctl = g.get_device(CTL)
        ids = {}
        try:
            for k, e in enumerate(evs):
                if e[0] == "A":
                    pl = CODES[e[1]][e[2]]
                    pkt = Packet.from_port(t0 + td(seconds=10 + k), f"045  I --- {CTL} --:------ {CTL} {e[1]} {len(pl) // 2:03d} {pl}")
                    msg = Message._from_pkt(pkt)
                    msg._gwy = g
                    _create_devices_from_addrs(g, msg)
                    ids[id(msg)] = k + 1
                    _MessageDB._handle_msg(ctl, msg)
                elif e[0] == "R":
                    held = ctl._msgs_.get(e[1])
                    if held is not None and e[2]:
                        held._fraction_expired = 99.0        # the environment's verdict: this read finds it expired (sticky, as in Message._expired)
                    ctl._msg_value_msg(held)
                else:
                    for _ in range(3):
                        await asyncio.sleep(0)
            return [ids.get(id(ctl._msgs_.get(c)), 0) if ctl._msgs_.get(c) is not None else 0 for c in sorted(CODES)]
        finally:
            await g.stop()

    for trial in range(trials):
        evs = []
        for _ in range(rng.randint(3, 14)):
            r = rng.random()
            if r < 0.45:
                evs.append(("A", rng.choice(sorted(CODES)), rng.randrange(2)))
            elif r < 0.8:
                evs.append(("R", rng.choice(sorted(CODES)), rng.random() < 0.6))
            else:
                evs.append(("T",))
        if trial < 2:       # the history that lost the newest reading before the repair
            evs = [("A", "1F09", 0), ("R", "1F09", True), ("A", "1F09", 0), ("T",)] + evs[:trial * 3]
        got, _ = gw.run_async(one, evs)
        ctx.case(("deferred", tuple(evs)), any(e[0] == "R" and e[2] for e in evs), "deferred-deletion-history")
        terms = []
        for k, e in enumerate(evs):
            if e[0] == "A":
                terms.append(f"DArrive (mkD {k + 1} {int(e[1], 16)} {e[2]})")
            elif e[0] == "R":
                terms.append(f"DRead {int(e[1], 16)} {'true' if e[2] else 'false'}")
            else:
                terms.append("DTurn")
        cases.append("[" + "; ".join(terms) + "]")
        impl.append(got)
        # the statement itself: the newest arrival of a code is held unless a read found that very message expired
        for ci, c in enumerate(sorted(CODES)):
            arr = [k + 1 for k, e in enumerate(evs) if e[0] == "A" and e[1] == c]
            if not arr:
                continue
            newest, sched_newest = arr[-1], False
            held = 0
            for k, e in enumerate(evs):      # replay the bookkeeping: which message each expired read saw
                if e[0] == "A" and e[1] == c:
                    held = k + 1
                elif e[0] == "R" and e[1] == c and e[2] and held == newest:
                    sched_newest = True
            if not sched_newest and got[ci] != newest:
                ctx.violation("newest-message-lost-to-a-deferred-deletion", "the newest message for a code is no longer held although no read found it expired",
                              {"events": [list(e) for e in evs], "code": c, "held": got[ci], "newest": newest}, "history")
    if not built:
        ctx.obligation("correspondence:deferred-deletion", False, "correspondence", "model not built")
        return
    pre = ("From Coq Require Import ZArith List Bool.\nFrom RV Require Import M_StoreDeferred.\nImport ListNotations.\nOpen Scope Z_scope.\n"
           "Set Printing Width 1000000.\nSet Printing Depth 1000000.\n"
           "Definition held (evs : list dev) : list Z := map (fun c => match dget (s_store (drun del_is evs)) c with Some m => d_id m | None => 0 end) [0x1F09; 0x2E04].\n")
    rc, out = common.coq_eval("C14dd", {"x": pre + "Eval vm_compute in (map held " + common.coq_list(cases, ";\n ") + ")."}, timeout=300)["x"]
    m = re.search(r"=\s*(\[.*\])\s*:\s*list", out, flags=re.S)
    if rc or not m:
        ctx.obligation("correspondence:deferred-deletion", False, "correspondence", out[-400:])
        return
    rows = [list(r) for r in eval(m.group(1).replace(";", ","), {"__builtins__": {}})]  # noqa: S307
    bad = [i for i, (r, g) in enumerate(zip(rows, impl)) if r != g]
    ctx.obligation("correspondence:deferred-deletion", not bad and len(rows) == len(impl), "correspondence",
                   f"{len(bad)} of {len(impl)} histories differ; first: {cases[bad[0]]}: model holds {rows[bad[0]]}, the real controller entity {impl[bad[0]]}" if bad or len(rows) != len(impl)
                   else f"{len(impl)} histories of arrivals / expired and live reads / loop turns on a real controller entity: what is held agrees with the model")


def array_pick_correspondence(ctx: Ctx, built: bool, trials: int) -> None:
    """What the REAL _msg_value_msg(msg, zone_idx=z) reads out of an array payload (also one merged from two packets, a zone in it twice)
    against M_Store.pick, and the statement itself: key by key the later packet's element wins."""
    from types import SimpleNamespace  # noqa: PLC0415

    from ramses_rf.entity_base import _MessageDB  # noqa: PLC0415

    rng = ctx.rng
    me = SimpleNamespace(_gwy=None)

    def read(arr, z):
        payload = [{"zone_idx": f"{zz:02X}", **{f"k{k}": v for k, v in el}} for zz, el in arr]
        msg = SimpleNamespace(code="000A", payload=payload, _expired=False)
        got = _MessageDB._msg_value_msg(me, msg, zone_idx=f"{z:02X}")
        return sorted((int(k[1:]), v) for k, v in (got or {}).items())

    def gen():
        return [(rng.randrange(4), [(rng.randint(1, 4), rng.randrange(100)) for _ in range(rng.randint(0, 4))]) for _ in range(rng.randint(0, 4))]

    cases, impl = [], []
    for _ in range(trials):
        prev, this, z = gen(), gen(), rng.randrange(4)
        whole, new, old = read(prev + this, z), dict(read(this, z)), dict(read(prev, z))
        ctx.case(("array-pick", str(prev), str(this), z), any(zz == z for zz, _ in prev) and any(zz == z for zz, _ in this), "merged-array-read")
        want = sorted({**old, **new}.items())
        if whole != want:
            ctx.violation("merged-array-reads-an-older-element", "a zone's value read from a merged array is not the later packet's",
                          {"prev": prev, "this": this, "zone": z, "read": whole, "want": want}, "input")
        lit = lambda a: "[" + "; ".join(f"({zz}, [" + "; ".join(f"({k}, {v})" for k, v in el) + "])" for zz, el in a) + "]"  # noqa: E731
        cases.append(f"({lit(prev + this)}, {z})")
        impl.append([list(x) for x in whole])
    if not built:
        ctx.obligation("correspondence:array-element-selection", False, "correspondence", "model not built")
        return
    pre = ("From Coq Require Import ZArith List Bool.\nFrom RV Require Import M_Store.\nImport ListNotations.\nOpen Scope Z_scope.\n"
           "Set Printing Width 1000000.\nSet Printing Depth 1000000.\n"
           "Definition rd (c : list (Z * fields) * Z) : list (list Z) := map (fun k => match fget (pick (fst c) (snd c)) k with Some v => [k; v] | None => [] end) [1; 2; 3; 4].\n")
    rc, out = common.coq_eval("C14ap", {"x": pre + "Eval vm_compute in (map rd " + common.coq_list(cases, ";\n ") + ")."}, timeout=300)["x"]
    m = re.search(r"=\s*(\[.*\])\s*:\s*list", out, flags=re.S)
    if rc or not m:
        ctx.obligation("correspondence:array-element-selection", False, "correspondence", out[-400:])
        return
    rows = [[list(x) for x in r if x] for r in eval(m.group(1).replace(";", ","), {"__builtins__": {}})]  # noqa: S307
    bad = [i for i, (r, g) in enumerate(zip(rows, impl)) if r != g]
    ctx.obligation("correspondence:array-element-selection", not bad and len(rows) == len(impl), "correspondence",
                   f"{len(bad)} of {len(impl)} arrays differ; first: {cases[bad[0]]}: model reads {rows[bad[0]]}, the real _msg_value_msg {impl[bad[0]]}" if bad or len(rows) != len(impl)
                   else f"{len(impl)} array payloads (a zone absent, once, twice; keys missing from some elements): the real _msg_value_msg reads what M_Store.pick reads")


def lifespan_table_effective(ctx: Ctx) -> None:
    """"Each message has a lifetime fixed by its kind": every entry of the lifetime table that is selected by a class of OpenTherm data-ids
    (`int(payload[4:6], 16) in XXX_DATA_IDS: return <lifetime>`, read from the source text of pkt_lifespan) has its effect -- a message of
    each data-id of the class gets that lifetime (the first class, in source order, that lists the id)."""
    import ast  # noqa: PLC0415
    import inspect  # noqa: PLC0415
    import textwrap  # noqa: PLC0415

    import ramses_tx.packet as P  # noqa: PLC0415

    try:
        fn = ast.parse(textwrap.dedent(inspect.getsource(P.pkt_lifespan))).body[0]
    except Exception as err:  # noqa: BLE001
        ctx.obligation("translator:lifetime-table-entries", False, "translator", f"pkt_lifespan cannot be read: {type(err).__name__}: {err}")
        return
    entries = []
    for node in ast.walk(fn):
        if isinstance(node, ast.If) and node.body and isinstance(node.body[0], ast.Return) and node.body[0].value is not None:
            names = [n.id for n in ast.walk(node.test) if isinstance(n, ast.Name) and n.id.endswith("_DATA_IDS")]
            if names and any(isinstance(c, ast.Compare) and any(isinstance(o, ast.In) for o in c.ops) for c in ast.walk(node.test)):
                entries.append((node.lineno, names[0], node.body[0].value))
    entries.sort()
    ctx.obligation("translator:lifetime-table-entries", len(entries) >= 2, "translator",
                   f"{len(entries)} data-id classes found in pkt_lifespan" if len(entries) >= 2 else "pkt_lifespan no longer selects lifetimes by classes of OpenTherm data-ids as `... in XXX_DATA_IDS: return ...`")
    seen = set()
    for _, name, expr in entries:
        try:
            want = eval(compile(ast.Expression(expr), "<lifespan>", "eval"), vars(P))  # noqa: S307
            ids = sorted(int(i, 16) if isinstance(i, str) else int(i) for i in getattr(P, name))
        except Exception as err:  # noqa: BLE001
            ctx.obligation("translator:lifetime-table-entries", False, "translator", f"{name}: {type(err).__name__}: {err}")
            continue
        for i in ids:
            if i in seen:
                continue
            seen.add(i)
            line = f"045 RP --- 10:048122 18:006402 --:------ 3220 005 00C0{i:02X}0000"
            try:
                got = Packet_from(line)._lifespan
            except Exception as err:  # noqa: BLE001
                ctx.dist[f"lifetime-table:packet-rejected:{type(err).__name__}"] += 1
                continue
            ctx.case(("lifetime-entry", name, i), True, "lifetime-table-entry")
            if got != (want or False):
                ctx.violation(f"lifetime-table-entry-without-effect:3220:{name}", f"an OpenTherm message with data-id {i:02X} (listed in {name}) gets the lifetime {got}, its table entry says {want}",
                              {"frame": line, "lifetime": str(got), "table_entry": str(want), "class": name}, "input")


def lifespan_branches_effective(ctx: Ctx) -> None:
    """... and likewise for the entries selected by the packet's code (with its verb / array form): for every `if pkt.code == / in (...) [and ...]: return <lifetime>`
    of pkt_lifespan, a recorded packet of each code named there that meets the other conjuncts gets that lifetime -- unless an earlier entry claims it."""
    import ast  # noqa: PLC0415
    import inspect  # noqa: PLC0415
    import textwrap  # noqa: PLC0415

    import ramses_tx.packet as P  # noqa: PLC0415

    from .. import corpus  # noqa: PLC0415

    try:
        fn = ast.parse(textwrap.dedent(inspect.getsource(P.pkt_lifespan))).body[0]
    except Exception:  # noqa: BLE001
        return
    pkts = {}
    for _, dtm, line in corpus.log_lines():
        try:
            pk = P.Packet.from_file(dtm, line.split("#")[0].rstrip())
            pkts.setdefault((pk.code, pk.verb, bool(pk._has_array)), pk)
        except Exception:  # noqa: BLE001, S112
            continue
    earlier = []          # (codes, other conjuncts) of the entries above the current one
    checked = 0
    for node in fn.body:
        if not (isinstance(node, ast.If) and node.body and isinstance(node.body[0], ast.Return)):
            continue
        conj = node.test.values if isinstance(node.test, ast.BoolOp) and isinstance(node.test.op, ast.And) else [node.test]
        code_c = [c for c in conj if isinstance(c, ast.Compare) and ast.unparse(c.left) == "pkt.code"]
        other = [c for c in conj if c not in code_c]
        if len(code_c) != 1 or not isinstance(code_c[0].ops[0], ast.Eq | ast.In):
            if any("pkt.code" in ast.unparse(c) for c in conj):
                continue
            earlier.append((None, conj))
            continue
        rhs = code_c[0].comparators[0]
        try:
            codes = [str(eval(compile(ast.Expression(e), "<c>", "eval"), vars(P))) for e in (rhs.elts if isinstance(rhs, ast.Tuple | ast.List | ast.Set) else [rhs])]  # noqa: S307
        except Exception:  # noqa: BLE001
            continue

        def holds(cs, pk):
            try:
                return all(eval(compile(ast.Expression(c), "<t>", "eval"), vars(P), {"pkt": pk}) for c in cs)  # noqa: S307
            except Exception:  # noqa: BLE001
                return False

        for code in codes:
            for (c, v, a), pk in pkts.items():
                if c != code or not holds(other, pk):
                    continue
                if any((ec is None or code in ec) and holds(eo, pk) for ec, eo in earlier):
                    continue
                try:
                    want = eval(compile(ast.Expression(node.body[0].value), "<r>", "eval"), vars(P), {"pkt": pk})  # noqa: S307
                except Exception:  # noqa: BLE001, S112
                    continue
                checked += 1
                ctx.case(("lifetime-branch", code, v, a), True, "lifetime-table-entry")
                if pk._lifespan != (want or False):       # Packet keeps `pkt_lifespan(self) or False`
                    ctx.violation(f"lifetime-table-entry-without-effect:{code}", f"{pk} gets the lifetime {pk._lifespan}; the table entry for code {code} (line {node.lineno} of pkt_lifespan) says {want}",
                                  {"frame": str(pk), "lifetime": str(pk._lifespan), "table_entry": str(want)}, "input")
        earlier.append((codes, other))
    ctx.dist["lifetime-table:code-entries-checked"] += checked


def Packet_from(line):
    from ramses_tx.packet import Packet  # noqa: PLC0415

    return Packet.from_port(T0, line)


def replay(case: dict) -> int:
    print(case.get("signature"), case.get("case"))
    return 0


async def repeated_readings(ctx: Ctx, trials: int) -> None:
    """An UNCHANGED reading re-announced periodically: the newest message is live, so the value must stay reported
    however old the first announcement is."""
    from ramses_rf import Gateway  # noqa: PLC0415

    rng = ctx.rng
    for trial in range(trials):
        period = rng.choice([185, 300, 1200])
        cycles = rng.choice([5, 8, 12])
        arr = rng.random() < 0.5
        t = dt(2026, 1, 1, 12, 0, 0)
        lines = [f"{t.isoformat(timespec='microseconds')} 045 RP --- {CTL} {GW} --:------ 0005 004 00080300"]
        for _ in range(cycles):
            t += td(seconds=period)
            if arr:
                lines.append(f"{t.isoformat(timespec='microseconds')} 045  I --- {CTL} --:------ {CTL} 30C9 006 0007D00107D0")
                lines.append(f"{(t + td(seconds=1)).isoformat(timespec='microseconds')} 045  I --- {CTL} --:------ {CTL} 2309 006 0008660108FC")
            else:
                lines.append(f"{t.isoformat(timespec='microseconds')} 045  I --- 34:064023 --:------ 34:064023 30C9 003 0007D0")
        t += td(seconds=5)
        lines.append(f"{t.isoformat(timespec='microseconds')} 045  I --- 32:000004 --:------ 32:000004 1298 003 000000")
        g = Gateway(None, input_file=io.TextIOWrapper(io.BytesIO(("\n".join(lines) + "\n").encode())), config={"disable_discovery": True})
        try:
            await gw.start(g)
        except Exception as err:  # noqa: BLE001
            ctx.dist["e2e-start-failed:" + type(err).__name__] += 1
            continue
        for _ in range(8):
            await asyncio.sleep(0)
        ctx.case(("repeat", trial, period, cycles, arr), True, "e2e-unchanged-reading-repeated")
        if arr:
            z = {int(z.idx, 16): z for z in g.tcs.zones}.get(0) if g.tcs else None
            reads = []
            for _ in range(2):
                reads.append((z.temperature, z.setpoint) if z else None)
                await asyncio.sleep(0)
                await asyncio.sleep(0)
            if z is None or any(r != (20.0, 21.5) for r in reads):
                ctx.violation("live-repeated-reading-not-reported", "an unchanged reading that was just re-announced is not reported (the older copy aged out)",
                              {"period_s": period, "cycles": cycles, "reads": reads, "log_tail": [x[27:] for x in lines[-4:]]}, "history")
        else:
            dev = next((d for d in g.devices if d.id == "34:064023"), None)
            reads = []
            for _ in range(2):
                reads.append(dev.temperature if dev else "no-device")
                await asyncio.sleep(0)
                await asyncio.sleep(0)
            if any(r != 20.0 for r in reads):
                ctx.violation("live-repeated-reading-not-reported", "an unchanged reading that was just re-announced is not reported (the older copy aged out)",
                              {"period_s": period, "cycles": cycles, "reads": reads, "log_tail": [x[27:] for x in lines[-4:]]}, "history")
        await g.stop()
