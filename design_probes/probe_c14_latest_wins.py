import asyncio, logging, io, random, datetime as dt
logging.disable(logging.CRITICAL)
from ramses_rf import Gateway
rnd=random.Random(31)
CTL="01:145038"; GW="18:111111"
def T(k): return f"{k:04X}"
async def main():
    bad=0; n=0
    for trial in range(300):
        t=dt.datetime(2026,1,1,12,0,0); lines=[]
        def add(l):
            nonlocal t; t+=dt.timedelta(seconds=rnd.randint(1,20)); lines.append(f"{t.isoformat(timespec='microseconds')} 045 {l}")
        add(f"RP --- {CTL} {GW} --:------ 0005 004 00080F00")
        exp_temp={}; exp_sp={}
        for _ in range(rnd.randint(5,40)):
            k=rnd.choice(["arr30","one30","arr23","one23","2349","other","dev30"])
            if k=="arr30":
                zs=sorted(rnd.sample(range(4),rnd.randint(2,4))); pl=""
                for z in zs:
                    v=rnd.randrange(500,3000); pl+=f"{z:02X}{T(v)}"; exp_temp[z]=v/100
                add(f" I --- {CTL} --:------ {CTL} 30C9 {len(pl)//2:03d} {pl}")
            elif k=="one30":
                z=rnd.randrange(4); v=rnd.randrange(500,3000); exp_temp[z]=v/100
                add(f"RP --- {CTL} {GW} --:------ 30C9 003 {z:02X}{T(v)}")
            elif k=="arr23":
                zs=sorted(rnd.sample(range(4),rnd.randint(2,4))); pl=""
                for z in zs:
                    v=rnd.randrange(500,3000,50); pl+=f"{z:02X}{T(v)}"; exp_sp[z]=v/100
                add(f" I --- {CTL} --:------ {CTL} 2309 {len(pl)//2:03d} {pl}")
            elif k=="one23":
                z=rnd.randrange(4); v=rnd.randrange(500,3000,50); exp_sp[z]=v/100
                add(f"RP --- {CTL} {GW} --:------ 2309 003 {z:02X}{T(v)}")
            elif k=="2349":
                z=rnd.randrange(4); v=rnd.randrange(500,3000,50); exp_sp[z]=v/100
                add(f"RP --- {CTL} {GW} --:------ 2349 007 {z:02X}{T(v)}00FFFFFF")
            elif k=="other":
                add(f" I --- {CTL} --:------ {CTL} 1F09 003 FF0708")
            elif k=="dev30":
                add(f" I --- 04:00000{rnd.randrange(1,4)} --:------ 04:00000{rnd.randrange(1,4)} 30C9 003 00{T(rnd.randrange(500,3000))}".replace("04:000001 --:------ 04:000002","04:000001 --:------ 04:000001").replace("04:000002 --:------ 04:000001","04:000002 --:------ 04:000002"))
        g=Gateway(None, input_file=io.TextIOWrapper(io.BytesIO(("\n".join(lines)+"\n").encode())), config={"disable_discovery":True})
        try:
            await g.start()
        except Exception as e:
            print("start failed", type(e).__name__); continue
        for _ in range(5): await asyncio.sleep(0)
        zones={int(z.idx,16):z for z in g.tcs.zones} if g.tcs else {}
        for z in range(4):
            if z not in zones: continue
            n+=1
            gt=zones[z].temperature; gs=zones[z].setpoint
            if gt!=exp_temp.get(z) or gs!=exp_sp.get(z):
                bad+=1
                if bad<=4: print("MISMATCH zone",z,"temp",gt,exp_temp.get(z),"sp",gs,exp_sp.get(z)); print("   ","\n    ".join(l[27:] for l in lines[-8:]))
        await g.stop()
    print("checked",n,"bad",bad)
asyncio.run(main())
