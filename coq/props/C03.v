(* C03 -- Command builders emit valid frames of the advertised verb/code that decode back.  Statements only.
   PAYLOAD_REGEXES and API_MAP are regenerated from the source on every run; `payload_ok` is re.match by the verified matcher. *)
From Coq Require Import ZArith String Ascii List Bool.
From RV Require Import Py PyStr Regex GenRegex GenTables M_Command P_Command.
Import ListNotations.
Open Scope Z_scope.

(* the six zone getters that have a payload regex: for every zone index 0..15 the payload is accepted for RQ|code, the
   constructor is registered under RQ|code, and the index reads back; every other index 0..255 is refused, except ... *)
Theorem C03_zone_getters_valid : forall g i p, In g valid_getters -> 0 <= i < 16 -> getter_payload g i = Some p ->
  payload_ok V_RQ (getter_code g) p = true /\ registered V_RQ (getter_code g) (getter_name g) = true /\ int16 (slice 0 2 p) = Some i.
Proof. exact zone_getters. Qed.
Theorem C03_zone_getters_refuse : forall g i, In g valid_getters -> 0 <= i < 256 ->
  (getter_payload g i = None <-> (15 < i /\ i <> 0xF9 /\ i <> 0xFA /\ i <> 0xFC)).
Proof. exact zone_getters_refuse. Qed.
(* ... the domain ids F9/FA/FC, which _check_idx lets through for the TPI/DHW constructors: the zone getters' regex rejects them (known finding) *)
Theorem C03_getter_domain_id_refuted : exists p, getter_payload GZoneConfig 0xFC = Some p /\ payload_ok V_RQ (getter_code GZoneConfig) p = false.
Proof. exact getter_domain_id_refuted. Qed.
(* get_mix_valve_params builds RQ|1030, for which the schema has no regex: rejected for every index (known finding) *)
Theorem C03_mix_valve_refuted : forall i p, getter_payload GMixValve i = Some p -> payload_ok V_RQ (getter_code GMixValve) p = false.
Proof. exact mix_valve_refuted. Qed.

(* set_zone_setpoint: for every zone index 0..15 and EVERY setpoint the encoder accepts (k/100, any integer k; the word is
   k mod 2^16 by C04_temp_encode_decode) the payload is accepted for W|2309 and the word reads back *)
Theorem C03_set_zone_setpoint_valid : forall idx k, 0 <= idx < 16 -> payload_ok V_W 0x2309 (setpoint_payload idx k) = true.
Proof. intros idx k H. exact (proj1 (set_zone_setpoint idx k H)). Qed.
Theorem C03_set_zone_setpoint_decodes_back : forall idx k, 0 <= idx < 16 -> int16 (slice 2 6 (setpoint_payload idx k)) = Some (k mod 65536).
Proof. intros idx k H. exact (proj2 (set_zone_setpoint idx k H)). Qed.

(* get_system_log_entry: whatever it builds is one of the 64 entries and is accepted for RQ|0418 *)
Theorem C03_log_entry_valid : forall i p, log_entry_payload i = Some p -> 0 <= i < 64 /\ payload_ok V_RQ 0x0418 p = true.
Proof. exact log_entry_valid. Qed.
(* regression witness: index 64, built before fix cc4b630, is rejected *)
Theorem C03_log_entry_refuted : payload_ok V_RQ 0x0418 (hexN 6 64) = false.
Proof. exact log_entry_refuted. Qed.

(* get_opentherm_data: all 256 ids, with the parity flag, are accepted for RQ|3220 and the id reads back *)
Theorem C03_opentherm_valid : forall i, 0 <= i < 256 ->
  payload_ok V_RQ 0x3220 (opentherm_payload i) = true /\ int16 (slice 4 6 (opentherm_payload i)) = Some i.
Proof. exact opentherm_valid. Qed.

(* get_schedule_fragment: every (zone, fragment, total) it does not refuse is accepted for RQ|0404 *)
Theorem C03_fragment_request_valid : forall idx fn tot p, 0 <= idx < 16 -> 0 <= fn < 32 -> 0 <= tot < 32 ->
  fragment_request idx fn tot = Some p -> payload_ok V_RQ 0x0404 p = true.
Proof. exact fragment_request_valid. Qed.

Theorem C03_registered :
  registered V_W 0x2309 "set_zone_setpoint" = true /\ registered V_RQ 0x0418 "get_system_log_entry" = true /\
  registered V_RQ 0x3220 "get_opentherm_data" = true /\ registered V_RQ 0x0404 "get_schedule_fragment" = true.
Proof. exact registered_all. Qed.
