From Coq Require Import ZArith List Bool PrimFloat Uint63 FloatOps SpecFloat.
Import ListNotations.
Open Scope Z_scope.

(* int(x) for a binary64 x: truncation toward zero, via SpecFloat *)
Definition trunc_to_Z (f : float) : option Z :=
  match Prim2SF f with
  | S754_zero _ => Some 0
  | S754_finite s m e =>
      let mag := if (0 <=? e)%Z then (Zpos m * 2 ^ e) else (Zpos m / 2 ^ (- e)) in
      Some (if s then - mag else mag)
  | _ => None
  end.

Definition f_of_Z (z : Z) : float :=
  if (0 <=? z) then of_uint63 (Uint63.of_Z z) else PrimFloat.opp (of_uint63 (Uint63.of_Z (- z))).

(* hex_to_temp on the raw 16-bit word (no sentinels): signed /100 *)
Definition to_temp (w : Z) : float := PrimFloat.div (f_of_Z (if w <? 32768 then w else w - 65536)) (f_of_Z 100).
(* hex_from_temp: int(value*100), then +2^16 if negative *)
Definition from_temp (v : float) : option Z :=
  match trunc_to_Z (PrimFloat.mul v (f_of_Z 100)) with
  | Some t => Some (if 0 <=? t then t else t + 65536)
  | None => None
  end.
Definition ok (w : Z) : bool := match from_temp (to_temp w) with Some w' => w' =? w | None => false end.
Definition words := map Z.of_nat (seq 0 65536).
Definition bad := filter (fun w => negb (ok w)) words.
Time Eval vm_compute in (length bad, firstn 5 bad).
