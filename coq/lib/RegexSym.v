(* RegexSym: matching a regex against a SYMBOLIC string -- a list of positions each of which is either one fixed character or
   "any character of a class" -- so that one kernel computation decides membership for every string of that shape.
   [smatch_sound]: smatch r ss = true -> every concretisation of ss matches r.  Used for the payloads of the command
   constructors, whose data fields (temperatures, datetimes, durations) are arbitrary hex digits. *)
From Coq Require Import List Bool Ascii Arith Lia.
From RV Require Import Regex.
Import ListNotations.

Definition all_ascii : list ascii := map ascii_of_nat (seq 0 256).
Lemma in_all_ascii c : In c all_ascii.
Proof.
  unfold all_ascii. apply in_map_iff. exists (nat_of_ascii c). split; [apply ascii_nat_embedding|].
  apply in_seq. pose proof (nat_ascii_bounded c). lia.
Qed.

(* same shape, and character tests that agree on every character: the two expressions have the same language *)
Fixpoint re_eqv (a b : re) : bool :=
  match a, b with
  | Emp, Emp | Eps, Eps => true
  | Chr f, Chr g => forallb (fun c => Bool.eqb (f c) (g c)) all_ascii
  | Cat a1 a2, Cat b1 b2 | Alt a1 a2, Alt b1 b2 => re_eqv a1 b1 && re_eqv a2 b2
  | Star a1, Star b1 => re_eqv a1 b1
  | _, _ => false
  end.

Lemma star_congr a b : (forall s, lang a s -> lang b s) -> forall s, lang (Star a) s -> lang (Star b) s.
Proof.
  intros H s L. remember (Star a) as r eqn:E. induction L as [| | | | | a'|a' u t Hu _ Ht IHt]; try discriminate.
  - constructor.
  - injection E as ->. constructor; [apply H; exact Hu | apply IHt; reflexivity].
Qed.

Lemma re_eqv_lang a : forall b, re_eqv a b = true -> forall s, lang a s <-> lang b s.
Proof.
  induction a as [| |f|a1 IH1 a2 IH2|a1 IH1 a2 IH2|a1 IH1]; intros b E s; destruct b as [| |g|b1 b2|b1 b2|b1]; try discriminate; cbn [re_eqv] in E.
  - tauto.
  - tauto.
  - rewrite forallb_forall in E. split; intro L; apply chr_inv in L as (c & -> & Hc); constructor;
      specialize (E c (in_all_ascii c)); apply eqb_prop in E; congruence.
  - apply andb_prop in E as [E1 E2]. split; intro L; apply cat_inv in L as (u & v & -> & Lu & Lv); constructor;
      [apply (IH1 b1 E1) | apply (IH2 b2 E2) | apply (IH1 b1 E1) | apply (IH2 b2 E2)]; assumption.
  - apply andb_prop in E as [E1 E2]. split; intro L; apply alt_inv in L as [L|L];
      [apply LAltL, (IH1 b1 E1) | apply LAltR, (IH2 b2 E2) | apply LAltL, (IH1 b1 E1) | apply LAltR, (IH2 b2 E2)]; assumption.
  - split; apply star_congr; intros u Lu; apply (IH1 b1 E); exact Lu.
Qed.

Inductive sym := SC (c : ascii) | SAny (rs : list (nat * nat)).
Definition conc1 (y : sym) (c : ascii) : Prop := match y with SC c' => c = c' | SAny rs => in_ranges rs c = true end.
Definition conc (ss : list sym) (s : list ascii) : Prop := Forall2 conc1 ss s.
Definition chars_of (rs : list (nat * nat)) : list ascii := filter (in_ranges rs) all_ascii.

Definition smatch_list (r : re) (l : list ascii) (k : re -> bool) : bool :=
  match l with
  | [] => false
  | c0 :: cs => forallb (fun c => re_eqv (deriv c r) (deriv c0 r)) cs && k (deriv c0 r)
  end.

Fixpoint smatch (r : re) (ss : list sym) : bool :=
  match ss with
  | [] => nullable r
  | SC c :: t => smatch (deriv c r) t
  | SAny rs :: t => smatch_list r (chars_of rs) (fun d => smatch d t)
  end.

Lemma in_chars_of rs c : in_ranges rs c = true -> In c (chars_of rs).
Proof. intro H. unfold chars_of. apply filter_In. split; [apply in_all_ascii | exact H]. Qed.
Strategy opaque [all_ascii chars_of].

Lemma smatch_any r rs t : smatch r (SAny rs :: t) = smatch_list r (chars_of rs) (fun d => smatch d t).
Proof. reflexivity. Qed.
Lemma smatch_chr r c t : smatch r (SC c :: t) = smatch (deriv c r) t.
Proof. reflexivity. Qed.

Lemma smatch_list_sound r l k s c : smatch_list r l k = true -> In c l ->
  (forall d, k d = true -> matches d s = true) -> matches (deriv c r) s = true.
Proof.
  destruct l as [|c0 cs]; [discriminate|]. unfold smatch_list. intros H Hin K.
  apply andb_prop in H as [Hall Hm]. destruct Hin as [<-|Hin]; [apply K; exact Hm|].
  rewrite forallb_forall in Hall. specialize (Hall c Hin).
  apply matches_correct. apply (re_eqv_lang _ _ Hall). apply matches_correct. apply K; exact Hm.
Qed.

Theorem smatch_sound : forall ss r, smatch r ss = true -> forall s, conc ss s -> matches r s = true.
Proof.
  induction ss as [|y ss IH]; intros r H s C; inversion C as [|y' c ss' s' Hc Ct]; subst.
  - exact H.
  - destruct y as [c'|rs].
    + rewrite smatch_chr in H. unfold conc1 in Hc. subst c'. change (matches (deriv c r) s' = true). apply IH; assumption.
    + rewrite smatch_any in H. unfold conc1 in Hc. change (matches (deriv c r) s' = true).
      apply (smatch_list_sound r (chars_of rs) (fun d => smatch d ss) s' c H).
      * apply in_chars_of. exact Hc.
      * intros d Hd. apply IH; assumption.
Qed.

(* building concretisations *)
Lemma conc_app a b s t : conc a s -> conc b t -> conc (a ++ b) (s ++ t).
Proof. apply Forall2_app. Qed.
Lemma conc_lit s : conc (map SC s) s.
Proof. induction s as [|c s IH]; constructor; [reflexivity | exact IH]. Qed.
Lemma conc_class rs s : forallb (in_ranges rs) s = true -> conc (repeat (SAny rs) (length s)) s.
Proof.
  induction s as [|c s IH]; intro H; cbn; [constructor|]. cbn in H. apply andb_prop in H as [H1 H2].
  constructor; [exact H1 | apply IH; exact H2].
Qed.
