import asyncio, logging, sys
sys.path.insert(0, __import__('os').path.dirname(__file__))
logging.disable(logging.CRITICAL)
from vloop import VLoop
from ramses_rf.binding_fsm import BindContext
class Dev: id="07:111111"
async def main(loop):
    errs=[]
    loop.set_exception_handler(lambda l,c: errs.append((loop.time(), c.get('exception'))))
    ctx = BindContext(Dev())
    try:
        await ctx.wait_for_binding_request(["1260"])
    except BaseException as e:
        print("t=",loop.time(),"caller got", type(e).__name__, e)
    print("is_binding", ctx.is_binding, ctx.state)
    await asyncio.sleep(10)
    print("later: is_binding", ctx.is_binding, ctx.state, "errs", errs)
    try:
        await ctx.wait_for_binding_request(["1260"])
    except BaseException as e:
        print("2nd attempt:", type(e).__name__, e)
loop=VLoop(); asyncio.set_event_loop(loop)
loop.run_until_complete(main(loop))
