import asyncio, logging, sys, json
logging.disable(logging.CRITICAL)
from ramses_rf import Gateway
from ramses_rf.schemas import SCH_GLOBAL_SCHEMAS
from ramses_rf.helpers import shrink
async def replay(pkts, **cfg):
    gwy = Gateway(None, input_file=None, packet_dict=pkts, config=cfg) if False else None
    return gwy
async def mk(pkts, **cfg):
    import io
    txt="".join(f"{k} {v}\n" for k,v in pkts.items())
    f=io.TextIOWrapper(io.BytesIO(txt.encode()))
    gwy=Gateway(None, input_file=f, config=cfg)
    await gwy.start()
    return gwy
async def main():
    CTL="01:145038"
    # C15: max_zones=16, zone 0C announced via 0005
    pk={
     "2026-01-01T12:00:00.000000":"045 RP --- 01:145038 18:111111 --:------ 0005 004 0008FF1F",
     "2026-01-01T12:00:01.000000":"045  I --- 01:145038 --:------ 01:145038 30C9 006 0007D00C07D0",
    }
    g=await mk(pk, max_zones=16)
    sch=g.schema
    print("zones:", list(sch[CTL]["zones"]))
    try:
        SCH_GLOBAL_SCHEMAS(shrink(sch)); print("schema valid")
    except Exception as e: print("SCHEMA INVALID:", type(e).__name__, str(e)[:120])
    await g.stop()
    # C13: zero countdown
    pk={
     "2026-01-01T12:00:00.000000":"045  I --- 01:145038 --:------ 01:145038 1F09 003 FF0000",
     "2026-01-01T12:00:01.000000":"045  I --- 01:145038 --:------ 01:145038 30C9 003 0007D0",
    }
    g=await mk(pk)
    for view in ("schema","params","status"):
        try: getattr(g,view); print(view,"ok")
        except Exception as e: print(view,"RAISES",type(e).__name__,e)
    try: g.get_state(); print("get_state ok")
    except Exception as e: print("get_state RAISES",type(e).__name__, "| engine_state:", g._engine_state is not None, "msg_handler:", g._protocol._msg_handler)
    await g.stop()
    # C16: 313F expired kept
    pk={
     "2020-01-01T12:00:00.000000":"045  I --- 01:145038 --:------ 01:145038 313F 009 00FC0A2E0C010107E4",
     "2026-01-01T12:00:01.000000":"045  I --- 01:145038 --:------ 01:145038 30C9 003 0007D0",
    }
    g=await mk(pk)
    sch,st=g.get_state()
    print("state:", st)
    await g.stop()
asyncio.run(main())
