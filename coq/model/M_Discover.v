(* M_Discover -- active discovery of a controller's configuration: what a conforming controller answers to the
   0005 / 000C requests, which requests the gateway's polling tables hold given what it knows, and what it
   learns from a reply (ramses_rf/system/heat.py SystemBase/MultiZone/StoredHw._setup_discovery_cmds and
   _handle_msg, ramses_rf/system/zones.py Zone/DhwZone, ramses_tx/parsers.py parser_0005/parser_000c).
   Definitions only; proofs are in proof/P_Discover.v. *)
From Coq Require Import List Bool Arith.
Import ListNotations.

Definition N : nat := 12.                      (* zone indexes 00..0B *)
Inductive cls := RAD | VAL | MIX | ELE.       (* 08 / 0A / 0B / 11 *)
Definition cls_eqb (a b : cls) : bool :=
  match a, b with RAD, RAD | VAL, VAL | MIX, MIX | ELE, ELE => true | _, _ => false end.

(* the controller's configuration *)
Record czone := mkCz { cz_cls : cls; cz_sensor : option nat; cz_acts : list nat }.
Record cfg := mkCfg { c_zones : nat -> option czone;
                      c_dhw_sensor : option nat; c_dhw_valve : option nat; c_htg_valve : option nat; c_app : option nat }.

(* what the gateway knows *)
Record kzone := mkKz { kz_cls : option cls; kz_sensor : option nat; kz_acts : list nat }.
Record known := mkK { k_zones : nat -> option kzone;
                      k_dhw_sensor : option nat; k_dhw_valve : option nat; k_htg_valve : option nat; k_app : option nat }.
Definition k0 : known := mkK (fun _ => None) None None None None.

Inductive rq :=
  | RqZones (c : cls)                    (* 0005 00<class>  : which zones are of this class *)
  | RqSensors                            (* 0005 0004       : which zones have a sensor *)
  | RqZoneAct (i : nat) (r : option cls) (* 000C <i><role>  : the actuators of zone i, role = its class or the generic 00 *)
  | RqZoneSen (i : nat)                  (* 000C <i>04      : the sensor of zone i *)
  | RqDhwSensor | RqDhwValve | RqHtgValve   (* 000C 000D / 000E / 010E *)
  | RqApp.                               (* 000C 000F *)
Inductive rp := RpMask (l : list nat) | RpDevs (l : list nat).

Definition olist (o : option nat) : list nat := match o with Some d => [d] | None => [] end.
Definition zmask (g : cfg) (p : czone -> bool) : list nat :=
  filter (fun i => match c_zones g i with Some z => p z | None => false end) (seq 0 N).

(* a conforming controller *)
Definition reply (g : cfg) (q : rq) : rp :=
  match q with
  | RqZones c => RpMask (zmask g (fun z => cls_eqb (cz_cls z) c))
  | RqSensors => RpMask (zmask g (fun z => match cz_sensor z with Some _ => true | None => false end))
  | RqZoneAct i r =>
      RpDevs (match c_zones g i with
              | Some z => match r with None => cz_acts z | Some c => if cls_eqb (cz_cls z) c then cz_acts z else [] end
              | None => []
              end)
  | RqZoneSen i => RpDevs (match c_zones g i with Some z => olist (cz_sensor z) | None => [] end)
  | RqDhwSensor => RpDevs (olist (c_dhw_sensor g))
  | RqDhwValve => RpDevs (olist (c_dhw_valve g))
  | RqHtgValve => RpDevs (olist (c_htg_valve g))
  | RqApp => RpDevs (olist (c_app g))
  end.

(* ---- learning ---- *)
Definition upd_zone (k : known) (i : nat) (f : kzone -> kzone) : known :=
  let z := match k_zones k i with Some z => z | None => mkKz None None [] end in
  mkK (fun j => if j =? i then Some (f z) else k_zones k j) (k_dhw_sensor k) (k_dhw_valve k) (k_htg_valve k) (k_app k).

Definition set_cls (c : cls) (z : kzone) : kzone :=
  mkKz (match kz_cls z with None => Some c | o => o end) (kz_sensor z) (kz_acts z).
Definition set_sensor (d : nat) (z : kzone) : kzone :=
  mkKz (kz_cls z) (match kz_sensor z with None => Some d | o => o end) (kz_acts z).
Definition mem (d : nat) (l : list nat) : bool := existsb (Nat.eqb d) l.
Definition add_acts (l : list nat) (z : kzone) : kzone :=
  mkKz (kz_cls z) (kz_sensor z) (fold_left (fun a d => if mem d a then a else a ++ [d]) l (kz_acts z)).
Definition first_set (o : option nat) (l : list nat) : option nat :=
  match o, l with None, d :: _ => Some d | _, _ => o end.

Definition learn (k : known) (q : rq) (r : rp) : known :=
  match q, r with
  | RqZones c, RpMask l => fold_left (fun k i => upd_zone k i (set_cls c)) l k
  | RqSensors, RpMask l => fold_left (fun k i => upd_zone k i (fun z => z)) l k
  | RqZoneAct i ro, RpDevs l =>
      match l with
      | [] => k
      | _ => upd_zone k i (fun z => match ro with Some c => set_cls c (add_acts l z) | None => add_acts l z end)
      end
  | RqZoneSen i, RpDevs l => match l with d :: _ => upd_zone k i (set_sensor d) | [] => k end
  | RqDhwSensor, RpDevs l => mkK (k_zones k) (first_set (k_dhw_sensor k) l) (k_dhw_valve k) (k_htg_valve k) (k_app k)
  | RqDhwValve, RpDevs l => mkK (k_zones k) (k_dhw_sensor k) (first_set (k_dhw_valve k) l) (k_htg_valve k) (k_app k)
  | RqHtgValve, RpDevs l => mkK (k_zones k) (k_dhw_sensor k) (k_dhw_valve k) (first_set (k_htg_valve k) l) (k_app k)
  | RqApp, RpDevs l => mkK (k_zones k) (k_dhw_sensor k) (k_dhw_valve k) (k_htg_valve k) (first_set (k_app k) l)
  | _, _ => k
  end.

(* ---- the polling tables: what is asked, given what is known ---- *)
Definition requests (k : known) : list rq :=
  [RqApp; RqDhwValve; RqHtgValve; RqZones RAD; RqZones VAL; RqZones MIX; RqZones ELE; RqSensors; RqDhwSensor] ++
  flat_map (fun i => match k_zones k i with Some z => [RqZoneAct i (kz_cls z); RqZoneSen i] | None => [] end) (seq 0 N).

(* one polling round: every request of the tables as they stand at its start; `lost q` = the request or its reply is lost *)
Definition round (g : cfg) (lost : rq -> bool) (k : known) : known :=
  fold_left (fun k q => if lost q then k else learn k q (reply g q)) (requests k) k.
Definition rounds (g : cfg) (losses : list (rq -> bool)) (k : known) : known :=
  fold_left (fun k lost => round g lost k) losses k.
Definition no_loss : rq -> bool := fun _ => false.
