From Coq Require Import List Bool Arith.
From RV Require Import M_Engine.
Import ListNotations.

Lemma bracket_up : forall e b, up e -> bracket true e b = (e, if b then BodyRaised else Done).
Proof.
  intros [h s d w sv tr rp] b [Hs [Hw Hr]]; cbn in Hs, Hw, Hr; subst sv w rp.
  unfold bracket, pause, resume; cbn. destruct b; cbn; destruct s; destruct tr; reflexivity.
Qed.

Lemma bracket_paused : forall g e b, saved e <> None -> bracket g e b = (e, RuntimeErr).
Proof.
  intros g [h s d w sv tr rp] b Hs; cbn in Hs. unfold bracket, pause; cbn.
  destruct sv as [x|]; [reflexivity | congruence].
Qed.

(* one snapshot/restore, whatever its body does, leaves every engine variable as it was *)

Theorem snapshot_leaves_engine : forall e o, up e -> snapshot_op o = true ->
  fst (step true e o) = e /\ snd (step true e o) <> RuntimeErr.
Proof.
  intros e o Hup Ho. destruct o as [b|b| | |]; try discriminate; cbn;
    rewrite bracket_up by exact Hup; cbn; (split; [reflexivity | destruct b; discriminate]).
Qed.

Theorem snapshot_when_paused : forall g e o, saved e <> None -> snapshot_op o = true ->
  step g e o = (e, RuntimeErr).
Proof.
  intros g e o Hp Ho. destruct o as [b|b| | |]; try discriminate; cbn; apply bracket_paused; exact Hp.
Qed.

(* any sequence of snapshots and restores, each succeeding or failing *)
Theorem snapshots_leave_engine : forall ops e, up e -> forallb snapshot_op ops = true ->
  fst (run true e ops) = e.
Proof.
  induction ops as [|o ops IH]; intros e Hup Hall; [reflexivity|].
  cbn in Hall. apply andb_prop in Hall as [Ho Hall]. cbn [run].
  destruct (step true e o) as [e1 x] eqn:Hs.
  pose proof (snapshot_leaves_engine e o Hup Ho) as [H1 _]. rewrite Hs in H1; cbn in H1; subst e1.
  specialize (IH e Hup Hall). destruct (run true e ops) as [e2 xs]. cbn in *. exact IH.
Qed.

(* ... and the next packet is handled by the same handler as before *)
Theorem still_receiving : forall ops e h, up e -> handler e = Some h -> forallb snapshot_op ops = true ->
  snd (run true e (ops ++ [Rx])) = snd (run true e ops) ++ [Handled h].
Proof.
  induction ops as [|o ops IH]; intros e h Hup Hh Hall.
  - cbn. rewrite Hh. destruct Hup as [_ [_ Hr]]. rewrite Hr, andb_false_r. reflexivity.
  - cbn in Hall. apply andb_prop in Hall as [Ho Hall]. cbn [run app].
    destruct (step true e o) as [e1 x] eqn:Hs.
    pose proof (snapshot_leaves_engine e o Hup Ho) as [H1 _]. rewrite Hs in H1; cbn in H1; subst e1.
    specialize (IH e h Hup Hh Hall).
    destruct (run true e (ops ++ [Rx])) as [e2 xs]. destruct (run true e ops) as [e3 ys]. cbn in *. congruence.
Qed.

(* pause/resume pairs restore the engine exactly *)
Theorem pause_resume_id : forall e, up e -> fst (resume (fst (pause e))) = e.
Proof.
  intros [h s d w sv tr rp] [Hs [Hw Hr]]; cbn in Hs, Hw, Hr; subst sv w rp. unfold pause, resume; cbn. destruct s; destruct tr; reflexivity.
Qed.

(* the engine invariant of every reachable state, whatever the clients do: it is either up, or paused with
   everything switched off and the saved tuple that of an up engine *)
Definition Inv (e : eng) : Prop :=
  up e \/ (exists h s d, saved e = Some (h, s, d) /\ handler e = None /\ sending_off e = true
                         /\ disc_off e = true /\ wr_paused e = true /\ (has_tr e = false -> rd_paused e = false)).

Lemma step_inv : forall e o, Inv e -> Inv (fst (step true e o)).
Proof.
  intros e o [Hup | (h0 & s0 & d0 & Hs & Hh & Hso & Hd & Hw & Hr)].
  - destruct o as [b|b| | |]; cbn [step].
    + rewrite bracket_up by exact Hup. left; exact Hup.
    + rewrite bracket_up by exact Hup. left; exact Hup.
    + destruct e as [h s d w sv tr rp]; destruct Hup as [Hs [Hw Hr]]; cbn in Hs, Hw, Hr; subst. unfold pause; cbn.
      right. exists h, s, d. repeat split; try reflexivity. cbn. intros ->. reflexivity.
    + destruct e as [h s d w sv tr rp]; destruct Hup as [Hs [Hw Hr]]; cbn in Hs, Hw, Hr; subst. unfold resume; cbn.
      left; repeat split; reflexivity.
    + left; exact Hup.
  - assert (Hp : saved e <> None) by congruence.
    assert (Hsame : Inv e) by (right; exists h0, s0, d0; repeat split; assumption).
    destruct o as [b|b| | |]; cbn [step].
    + rewrite bracket_paused by exact Hp. exact Hsame.
    + rewrite bracket_paused by exact Hp. exact Hsame.
    + unfold pause. rewrite Hs. exact Hsame.
    + unfold resume. rewrite Hs. cbn. left. split; [reflexivity|]. split; cbn; [rewrite Hw; destruct s0; reflexivity|].
      destruct (has_tr e) eqn:Et; [reflexivity|apply Hr; reflexivity].
    + exact Hsame.
Qed.

Theorem run_inv : forall ops e, Inv e -> Inv (fst (run true e ops)).
Proof.
  induction ops as [|o ops IH]; intros e He; [exact He|].
  cbn [run]. pose proof (step_inv e o He) as H1. destruct (step true e o) as [e1 x]. cbn in H1.
  specialize (IH e1 H1). destruct (run true e1 ops) as [e2 xs]. exact IH.
Qed.

(* never stuck paused: from any reachable state one Resume (or none) brings the engine up *)
Theorem never_stuck : forall ops e, Inv e ->
  up (fst (run true e ops)) \/ up (fst (step true (fst (run true e ops)) Resume)).
Proof.
  intros ops e He. pose proof (run_inv ops e He) as [Hup | (h & s & d & Hs & _ & _ & _ & Hw & Hr)]; [left; exact Hup|].
  right. destruct (fst (run true e ops)) as [h1 s1 d1 w1 sv1 tr1 rp1]; cbn in *. subst. cbn. split; [reflexivity|]. split; cbn; [destruct s; reflexivity|].
  destruct tr1; [reflexivity|apply Hr; reflexivity].
Qed.

(* the tree before the repair: a snapshot whose body raises leaves the engine paused, and the next packet is dropped *)
Definition up_example : eng := mkEng (Some 7) false false false None true false.
Theorem unguarded_refuted :
  run false up_example [GetState true; Rx; GetState false] =
  (mkEng None true true true (Some (Some 7, false, false)) true true, [BodyRaised; Dropped; RuntimeErr]).
Proof. vm_compute. reflexivity. Qed.
Theorem guarded_repaired :
  run true up_example [GetState true; Rx; GetState false] = (up_example, [BodyRaised; Handled 7; Done]).
Proof. vm_compute. reflexivity. Qed.
Example up_example_up : up up_example /\ Inv up_example.
Proof. split; [|left]; repeat split; reflexivity. Qed.

(* the engine that forgets to resume READING when sending is disabled (one merged guard in _resume): a snapshot in the middle of a replayed log
   leaves the transport paused, and the rest of the log is never taken from the source -- the model separates the two *)
Definition resume_merged (e : eng) : eng * bool :=
  match saved e with
  | None => (e, false)
  | Some (h, s, d) => (mkEng h s d (if s then wr_paused e else false) None (has_tr e) (if has_tr e && negb s then false else rd_paused e), true)
  end.
Definition replaying : eng := mkEng (Some 7) true true true None true false.
Theorem merged_guard_refuted :
  up replaying /\ rd_paused (fst (resume_merged (fst (pause replaying)))) = true /\
  snd (step true (fst (resume_merged (fst (pause replaying)))) Rx) = Dropped /\
  snd (run true replaying [GetState false; Rx]) = [Done; Handled 7].
Proof. repeat split; vm_compute; reflexivity. Qed.
