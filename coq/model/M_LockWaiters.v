(* M_LockWaiters -- SEVERAL zones' schedule transfers at once around the system-wide transfer lock (system/heat.py: _obtain_lock polls every 5 ms
   until the lock is free or its own, _release_lock sets it free unconditionally; system/schedule.py: _get_schedule / set_schedule do
   `await _obtain_lock(idx)` and THEN `try: <the exchanges> finally: _release_lock()`).  A transfer is a little machine: it starts waiting, a poll
   that finds the lock free makes it the holder, it exchanges fragments while holding, and it ends -- by completing, by an exchange raising, or by
   its caller giving up -- at ANY moment, waiting or holding.  [inside_try = true] is the slip: the lock obtained inside the try, so that a transfer
   that ends while still WAITING runs the finally too.  Definitions only; proofs in proof/P_LockWaiters.v. *)
From Coq Require Import List Bool Arith.
Import ListNotations.

Inductive tst := TIdle | TWaiting | THolding | TDone.

Record sys := mkSys {
  lock : option nat;          (* tcs.zone_lock_idx *)
  ts : nat -> tst;            (* the transfer of each zone *)
  exch : list (nat * option nat)   (* every fragment exchange so far: (its zone, who held the lock then), oldest first *)
}.

Inductive ev :=
| EStart (z : nat)            (* the transfer reaches `await _obtain_lock(idx)` *)
| EPoll (z : nat)             (* one turn of the polling loop *)
| EExchange (z : nat)         (* one RQ / W of a fragment and its reply *)
| EEnd (z : nat).             (* the transfer is over: done, failed, or given up by its caller (CancelledError at whatever it awaited) *)

Definition upd (f : nat -> tst) (z : nat) (v : tst) : nat -> tst := fun k => if Nat.eqb k z then v else f k.

Definition step (inside_try : bool) (s : sys) (e : ev) : sys :=
  match e with
  | EStart z => match ts s z with
                | TIdle | TDone => mkSys (lock s) (upd (ts s) z TWaiting) (exch s)
                | _ => s
                end
  | EPoll z => match ts s z, lock s with
               | TWaiting, None => mkSys (Some z) (upd (ts s) z THolding) (exch s)
               | _, _ => s
               end
  | EExchange z => match ts s z with
                   | THolding => mkSys (lock s) (ts s) (exch s ++ [(z, lock s)])
                   | _ => s
                   end
  | EEnd z => match ts s z with
              | THolding => mkSys None (upd (ts s) z TDone) (exch s)                                      (* finally: _release_lock() *)
              | TWaiting => mkSys (if inside_try then None else lock s) (upd (ts s) z TDone) (exch s)     (* the finally is not reached / (slip) is *)
              | _ => s
              end
  end.

Definition run (inside_try : bool) (s : sys) (es : list ev) : sys := fold_left (step inside_try) es s.
Definition init : sys := mkSys None (fun _ => TIdle) [].

(* for the correspondence: the lock after each event *)
Fixpoint locks (inside_try : bool) (s : sys) (es : list ev) : list (option nat) :=
  match es with
  | [] => []
  | e :: r => let s1 := step inside_try s e in lock s1 :: locks inside_try s1 r
  end.
