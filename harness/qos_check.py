"""C07 / C08 / C09: one harness, three property views (theorem list + oracle predicates)."""

from __future__ import annotations

import re

from . import common, qos
from .common import Ctx

THEOREMS = {
    "C07": ["C07_deadline_armed_at_call", "C07_deadline_wakes_caller", "C07_wake_answers", "C07_send_limit_is_sources", "C07_cap_is_20_seconds",
            "C07_result_belongs", "C07_result_belongs_nonvacuous", "C07_foreign_packet_ignored", "C07_own_null_entry_answers",
            "C07_at_rest_all_answered", "C07_all_answered_nonvacuous"],
    "C08": ["C08_tx_count_le_limit", "C08_limit_formula", "C08_backoff_delay_bound", "C08_retry_ladder", "C08_backoff_across_commands", "C08_tx_after_answer_refuted", "C08_caps_as_stated",
            "C08_queue_ordered", "C08_next_is_least_pending", "C08_priority_then_arrival_witness",
            "C08_one_in_flight", "C08_current_is_holder", "C08_one_in_flight_nonvacuous", "C08_slot_changes_hands"],
    "C09": ["C09_no_crash_refuted", "C09_counters_consistent_partial", "C09_caller_wake_answers", "C09_cancel_schedules_wake", "C09_cancelled_caller_answered",
            "C09_at_rest_not_waiting", "C09_at_rest_nonvacuous"],
}

RULE = ("scenarios = timed external events over the alphabet {connection made/lost, caller i sends (priority, max_retries 0-5, "
        "timeout in {0.125,0.5,0.515,1,1.5,5,20,30 s}, wait_for_reply), packet received (echo, reply, foreign gateway's packet with "
        "the same header, reply to another gateway, unrelated), caller i cancelled from OUTSIDE 15 ms - 4.7 s after its call (a fifth of the scenarios)}; "
        "every other scenario's callers go through Engine.async_send_cmd around the same protocol; a per-write transport plan (latency 0/15 ms/0.5 s/1 s, write failure, "
        "echo after 15-515 ms or lost, reply after 31 ms-1 s or lost), tie policy fifo/lifo among equal deadlines, gateway QoS mode "
        "(disable_qos True/None/False); all times on a 1/64 s grid so that timers coincide exactly; 1-3 callers (4%: 6 or 34); "
        "non-trivial = at least one frame was written; distinct = by scenario")


def special_scenarios():
    """Hand-picked schedules that the properties single out (run first, every time)."""
    G = qos.GRID

    def one(mr, to, wfr=False, plan=(), default=None, lifo=False, events=()):
        return {"lifo": lifo, "mode": False,
                "cmds": [{"kind": "rq30c9", "idx": 1, "prio": 0, "max_retries": mr, "timeout": to, "wfr": wfr}],
                "events": [(0, ("made",)), (G, ("call", 0)), *events], "plan": list(plan),
                "default_plan": default or {"lat": 0, "fail": False, "echo": None, "rply": None}}

    out = []
    for mr in range(6):  # the retry ladder: nothing answers, the timeout allows every attempt
        out.append(one(mr, 20_000_000))
    out.append(one(3, 500_000, lifo=True))   # caller timeout coincides with the echo timer, timer first
    out.append(one(3, 500_000, lifo=False))
    out.append(one(0, 20_000_000, default={"lat": 1_000_000, "fail": False, "echo": None, "rply": None}))  # slow transport
    out.append(one(3, 20_000_000, wfr=True, default={"lat": 0, "fail": False, "echo": 2 * G, "rply": 4 * G}))
    out.append(one(3, 20_000_000, wfr=True, events=[(3 * G, ("rx", "rply", 0)), (4 * G, ("rx", "echo", 0))]))  # reply before echo
    out.append(one(3, 20_000_000, events=[(2 * G, ("lost",))]))
    out.append(one(2, 20_000_000, plan=[{"lat": 0, "fail": True, "echo": None, "rply": None}]))
    # three unanswered commands in a row: the back-off exponent is carried over and must stay capped
    out.append({"lifo": False, "mode": False,
                "cmds": [{"kind": "rq30c9", "idx": i, "prio": 0, "max_retries": 3, "timeout": 20_000_000, "wfr": False} for i in range(3)],
                "events": [(0, ("made",)), (G, ("call", 0)), (2 * G, ("call", 1)), (3 * G, ("call", 2))], "plan": [],
                "default_plan": {"lat": 0, "fail": False, "echo": None, "rply": None}})
    # "the wait doubling (up to 8x) after each unanswered attempt" ACROSS commands: a silent device is backed off from, whichever command meets the silence.
    # Four single-attempt commands 10 s apart, nothing answers: they fail after 0.5, 1, 2 and 4 s; and after a command that used its whole budget
    # (0.5 + 1 + 2 + 4 s) the next single attempt waits the full 4 s
    silent = {"lat": 0, "fail": False, "echo": None, "rply": None}
    out.append({"lifo": False, "mode": False, "cmds": [{"kind": "rq30c9", "idx": i, "prio": 0, "max_retries": 0, "timeout": 20_000_000, "wfr": False} for i in range(5)],
                "events": [(0, ("made",))] + [(G * (1 + 640 * i), ("call", i)) for i in range(5)], "plan": [], "default_plan": silent,
                "expect_fail_after": [500_000, 1_000_000, 2_000_000, 4_000_000, 4_000_000]})
    out.append({"lifo": False, "mode": False, "cmds": [{"kind": "rq30c9", "idx": 0, "prio": 0, "max_retries": 3, "timeout": 20_000_000, "wfr": False},
                                                       {"kind": "rq30c9", "idx": 1, "prio": 0, "max_retries": 0, "timeout": 20_000_000, "wfr": False}],
                "events": [(0, ("made",)), (G, ("call", 0)), (G * 641, ("call", 1))], "plan": [], "default_plan": silent, "expect_fail_after": [7_500_000, 4_000_000]})
    # two callers send the SAME frame; the queued one times out while the first is still retrying
    out.append({"lifo": False, "mode": False,
                "cmds": [{"kind": "rq30c9", "idx": 1, "prio": 0, "max_retries": 3, "timeout": 20_000_000, "wfr": False},
                         {"kind": "rq30c9", "idx": 1, "prio": 0, "max_retries": 3, "timeout": 2 * G, "wfr": False}],
                "events": [(0, ("made",)), (G, ("call", 0)), (2 * G, ("call", 1))], "plan": [],
                "default_plan": {"lat": 0, "fail": False, "echo": None, "rply": None}})
    # a backlog of equal-priority commands that straddles the 32-slot buffer size: first come, first served
    kinds = [(k, i) for k in ("rq30c9", "w2309", "i30c9") for i in range(16)]
    for n_before, n_burst in ((0, 34), (20, 22)):
        cmds = [{"kind": k, "idx": i, "prio": 0, "max_retries": 0, "timeout": 20_000_000, "wfr": False} for k, i in kinds[: n_before + n_burst]]
        evs = [(0, ("made",))] + [(G * (1 + 12 * j), ("call", j)) for j in range(n_before)]          # these complete one by one
        evs += [(G * (1 + 12 * n_before + j), ("call", n_before + j)) for j in range(n_burst)]        # these pile up: one call per tick, one answer per 8 ticks
        out.append({"lifo": False, "mode": False, "cmds": cmds, "events": evs, "plan": [], "default_plan": {"lat": 0, "fail": False, "echo": 8 * G, "rply": None}})
    # a queued caller gives up (its own timeout) while other commands of mixed priorities wait behind the one in flight: the survivors still start in order
    def cmd(i, prio, to):
        return {"kind": "rq30c9", "idx": i, "prio": prio, "max_retries": 0, "timeout": to, "wfr": False}
    for prios, victim in (((0, 2, 0), 0), ((0, 0, -2), 2), ((2, 0, 0, -2, 2), 3), ((0, 4, 2, 0, -2, 0), 0), ((-2, 0, 2, 0, 4), 1)):
        cmds = [cmd(0, 0, 20_000_000)] + [cmd(1 + j, p, (6 * G if j == victim else 20_000_000)) for j, p in enumerate(prios)]
        evs = [(0, ("made",)), (G, ("call", 0))] + [(G * (3 + j), ("call", 1 + j)) for j in range(len(prios))]
        out.append({"lifo": False, "mode": False, "cmds": cmds, "events": evs, "plan": [{"lat": 0, "fail": False, "echo": None, "rply": None}],
                    "default_plan": {"lat": 0, "fail": False, "echo": 2 * G, "rply": None}})
    # k commands are answered promptly, THEN one gets no echo at all: its waits must still double from wherever the exponent stands
    for k_ok, k_lost_first in ((1, False), (3, False), (5, False), (2, True)):
        cmds = [{"kind": "rq30c9", "idx": i, "prio": 0, "max_retries": 3, "timeout": 20_000_000, "wfr": False} for i in range(k_ok + 1 + (1 if k_lost_first else 0))]
        plan = ([{"lat": 0, "fail": False, "echo": None, "rply": None}] * 4 if k_lost_first else []) + [{"lat": 0, "fail": False, "echo": 2 * G, "rply": None}] * k_ok
        evs = [(0, ("made",))] + [(G * (1 + 600 * j), ("call", j)) for j in range(len(cmds))]
        out.append({"lifo": False, "mode": False, "cmds": cmds, "events": evs, "plan": plan, "default_plan": {"lat": 0, "fail": False, "echo": None, "rply": None}})
    # a second caller arrives at the very instant the first caller's timeout expires (either order within the iteration); the first command's echo is late:
    # it arrives after that, well before the FSM's own echo timer -- it must never be handed to the second caller
    for lifo in (False, True):
        for k in (6, 5, 7):
            out.append({"lifo": lifo, "mode": False,
                        "cmds": [{"kind": "rq30c9", "idx": 1, "prio": 0, "max_retries": 3, "timeout": k * G, "wfr": False},
                                 {"kind": "rq30c9", "idx": 2, "prio": 0, "max_retries": 3, "timeout": 20_000_000, "wfr": False}],
                        "events": [(0, ("made",)), (G, ("call", 0)), (G + 6 * G, ("call", 1))],
                        "plan": [{"lat": 0, "fail": False, "echo": 8 * G, "rply": None}], "default_plan": {"lat": 0, "fail": False, "echo": 2 * G, "rply": None}})
    # ... the same with a STALL (a callback that takes wall time): the second caller's first step and the first caller's timeout land in one iteration,
    # the caller's step first -- the window in which the command in flight has a cancelled future but the FSM has not been reset yet
    for lifo in (False, True):
        for stall_at, stall in ((6, 2), (5, 3), (6, 1)):
            out.append({"lifo": lifo, "mode": False,
                        "cmds": [{"kind": "rq30c9", "idx": 1, "prio": 0, "max_retries": 3, "timeout": 6 * G, "wfr": False},
                                 {"kind": "rq30c9", "idx": 2, "prio": 0, "max_retries": 3, "timeout": 20_000_000, "wfr": False}],
                        "events": [(0, ("made",)), (G, ("call", 0)), (stall_at * G, ("call", 1)), (stall_at * G, ("stall", stall * G))],
                        "plan": [{"lat": 0, "fail": False, "echo": 8 * G, "rply": None}], "default_plan": {"lat": 0, "fail": False, "echo": 2 * G, "rply": None}})
    # echo and reply of the command in flight arrive in the SAME loop iteration while another command waits in the buffer; then silence
    for wfr, n in ((True, 2), (True, 3), (False, 2)):
        out.append({"lifo": False, "mode": False,
                    "cmds": [{"kind": "rq30c9", "idx": i, "prio": 0, "max_retries": 3, "timeout": 20_000_000, "wfr": wfr} for i in range(n)],
                    "events": [(0, ("made",))] + [(G, ("call", i)) for i in range(n)], "plan": [],
                    "default_plan": {"lat": 0, "fail": False, "echo": 2 * G, "rply": 2 * G}})
    # the connection is lost while a command is in flight (waiting for its echo / its reply), the transport reporting its own kind of error
    # fault-log requests: the echo arrives, then -- before the addressed controller's reply -- a NEIGHBOUR controller's null entry (to its own gateway /
    # to ours), its real entry with the same index, or the addressed controller's own null entry (which IS the reply for an empty slot)
    for mode in (False, None):
        for kind in ("nbr_null_entry", "nbr_null_entry_to_us", "nbr_rply", "null_entry"):
            sc = one(2, 20_000_000, wfr=True, default={"lat": 0, "fail": False, "echo": G, "rply": 5 * G}, events=[(4 * G, ("rx", kind, 0))])
            sc["cmds"][0].update({"kind": "rq0418", "idx": 5})
            sc["mode"] = mode
            out.append(sc)
    # an IDLE protocol, several callers of different priorities arriving in ONE loop iteration, the lowest priority first: they start in priority order
    for lifo in (False, True):
        sc = one(0, 20_000_000, default={"lat": 0, "fail": False, "echo": G, "rply": None}, lifo=lifo)
        sc["cmds"] = [{"kind": "rq30c9", "idx": i, "prio": p, "max_retries": 0, "timeout": 20_000_000, "wfr": False} for i, p in enumerate((4, 0, -2, -4, 0))]
        sc["events"] = [(0, ("made",))] + [(64 * G, ("call", i)) for i in range(5)]
        sc["burst_when_idle"] = True
        out.append(sc)
    # more callers than the send buffer holds (32), all in one loop iteration, the gateway echoing promptly: those that do not fit are refused with
    # the protocol's own error, the others are answered
    sc = one(0, 20_000_000, default={"lat": 0, "fail": False, "echo": G, "rply": None})
    sc["cmds"] = [{"kind": "rq30c9", "idx": i % 12, "prio": 0, "max_retries": 0, "timeout": 20_000_000, "wfr": False} for i in range(36)]
    sc["events"] = [(0, ("made",))] + [(64 * G, ("call", i)) for i in range(36)]
    out.append(sc)
    # the loss of the connection is reported TWICE (the transport's callback is known to be invoked twice): while a command waits for its echo / its
    # reply, and when idle
    out.append(one(3, 20_000_000, events=[(2 * G, ("lost", None)), (3 * G, ("lost", None))]))
    out.append(one(3, 20_000_000, wfr=True, default={"lat": 0, "fail": False, "echo": 2 * G, "rply": None}, events=[(5 * G, ("lost", "transport")), (5 * G, ("lost", "transport")), (9 * G, ("lost", None))]))
    out.append(one(0, 20_000_000, default={"lat": 0, "fail": False, "echo": G, "rply": None}, events=[(40 * G, ("lost", None)), (41 * G, ("lost", None))]))
    for kind in (None, "transport", "serial", "oserror"):
        out.append(one(3, 20_000_000, events=[(2 * G, ("lost", kind))]))
        out.append(one(3, 20_000_000, wfr=True, default={"lat": 0, "fail": False, "echo": 2 * G, "rply": None}, events=[(5 * G, ("lost", kind))]))
    return out


def check(ctx: Ctx, pid: str) -> None:
    thorough = ctx.tier == "thorough"
    ctx.rule = RULE
    ctx.assumptions += [
        "asyncio is modelled by a mini event loop reproducing _run_once batching, call_soon FIFO, timers by (deadline, tie policy), "
        "asyncio.sleep's extra hop, wait_for cancelling the awaited future; threading.Lock, real selector latency and GC timing are not modelled",
        "the transport is an environment: per-write latency / failure / echo / reply; the PortProtocol wrapper (impersonation alert, "
        "QoS override) is applied by the harness when it prepares the model's inputs",
        "packets are abstracted to (header, source, addressed-to-gateway, null-log-entry class)",
    ]
    built = ctx.build(pid, THEOREMS[pid])
    n = 400 if thorough else 90
    rng = ctx.rng
    scns = special_scenarios() + [qos.gen_scenario(rng) for _ in range(n)]
    import logging  # noqa: PLC0415
    logging.disable(logging.CRITICAL)
    impl, wedged = [], 0
    for k, s in enumerate(scns):
        s.setdefault("via_engine", k % 2 == 1)      # every other scenario: the callers go through the gateway-level entry (Engine.async_send_cmd)
        if wedged >= 2:      # the loop keeps getting blocked: do not spend the budget waiting
            scns = scns[: len(impl)]
            ctx.notes.append("run stopped after two wedged scenarios")
            break
        r = qos.run_impl(s)
        wedged += 1 if r[3].get("wedged") else 0
        impl.append(r)
    if pid == "C08":
        default_qos_budget(ctx)
    qos_override_rule(ctx)
    for s, (tr, st, qs, info) in zip(scns, impl):
        nontriv = any(e[0] == 1 for e in tr)
        ctx.case(("scn", repr(s["events"]), repr(s["cmds"]), repr(s["plan"]), s["lifo"], s["mode"]), nontriv,
                 "scenario:" + ("written" if nontriv else "nothing-written"))
        oracle(ctx, pid, s, tr, st, qs, info)
    # correspondence: the model on the same scenarios
    if built:
        files, shard = {}, 25
        for k in range(0, len(scns), shard):
            files[f"q_{k // shard}"] = qos.PRELUDE + "".join(
                f"Eval vm_compute in ({qos.scn_to_coq(s, im[3])}).\n" for s, im in zip(scns[k:k + shard], impl[k:k + shard]))
        res = common.coq_eval(pid + "q", files, timeout=900)
        bad, total, first = 0, 0, ""
        for k in range(0, len(scns), shard):
            rc, out = res[f"q_{k // shard}"]
            if rc:
                bad += 1
                first = first or ("coqc failed: " + out[-300:])
                continue
            outs = re.findall(r"=\s*(\[.*?\])\s*:\s*list \(list Z\)", out, flags=re.S)
            for j, o in enumerate(outs):
                rows = eval(o.replace(";", ","), {"__builtins__": {}})  # noqa: S307
                m = qos.canon_model(rows)
                tr, st, qs, _ = impl[k + j]
                i = qos.canon_impl(tr, st, qs)
                total += 1
                if impl[k + j][3].get("wedged"):
                    bad += 1
                    first = first or f"scenario {k + j}: the implementation blocked the event loop"
                elif (m[0], m[1], m[2]) != (i[0], i[1], i[2]) or not m[3]:
                    bad += 1
                    if pid == "C09":
                        # the model is the unchanged code WITH its recorded findings (C09_no_crash_refuted): an exception left in the loop at an instant at
                        # which the model leaves none is not one of them
                        mine = [e for e in i[0] if e and e[0] == 5]
                        theirs = [e for e in m[0] if e and e[0] == 5]
                        extra = [e for e in mine if mine.count(e) > theirs.count(e)]
                        if extra:
                            sc = scns[k + j]
                            ctx.violation("loop-exception-the-model-does-not-have", "an exception was left unhandled in the event loop at an instant at which the model of the "
                                          "send machinery (which has the recorded findings) leaves none",
                                          {"events": sc["events"], "cmds": sc["cmds"], "plan": sc["plan"], "default_plan": sc["default_plan"], "lifo": sc["lifo"], "mode": sc["mode"],
                                           "at": [e[1] for e in extra], "implementation_trace": i[0], "model_trace": m[0]}, "schedule")
                    if not first:
                        s = scns[k + j]
                        diff = next((x for x in range(max(len(m[0]), len(i[0]))) if x >= len(m[0]) or x >= len(i[0]) or m[0][x] != i[0][x]), None)
                        first = (f"scenario {k + j}: first differing trace entry #{diff}: model {m[0][diff:diff + 3] if diff is not None else None} "
                                 f"implementation {i[0][diff:diff + 3] if diff is not None else None}; final model state {m[1]} queue {m[2]}, "
                                 f"implementation state {i[1]} queue {i[2]}; events {s['events']} cmds {s['cmds']} plan {s['plan']} "
                                 f"default {s['default_plan']} lifo {s['lifo']} mode {s['mode']}")
        ctx.obligation("correspondence:send-machinery-traces", bad == 0 and total == len(scns), "correspondence",
                       f"{bad} of {len(scns)} traces differ; first: {first}"[:1500] if bad or total != len(scns) else "")
        ctx.extra["traces_compared"] = total
        if first:
            ctx.extra["first_trace_mismatch"] = first
    else:
        ctx.obligation("correspondence:send-machinery-traces", False, "correspondence", "model not built")


def qos_override_rule(ctx: Ctx) -> None:
    """The harness prepares the model's inputs with its own reading of PortProtocol._send_cmd's QoS override (qos.effective_wfr: which commands keep
    wait_for_reply under disable_qos True / None / False).  That reading is checked against the real override on every run: the wait_for_reply that
    reaches the state machine, for every mode, every command kind of the scenarios and the other QoS codes in every verb."""
    import asyncio  # noqa: PLC0415

    from ramses_tx.command import Command  # noqa: PLC0415
    from ramses_tx.protocol import PortProtocol  # noqa: PLC0415
    from ramses_tx.typing import QosParams  # noqa: PLC0415

    frag = "7881EB".ljust(40, "0")
    cmds = [qos.build_cmd({"kind": k, "idx": 1}) for k in ("rq30c9", "rq0006", "w2309", "i30c9", "rq0418")]
    cmds += [Command.set_schedule_fragment(qos.CTL, "03", 1, 3, frag), Command.get_schedule_fragment(qos.CTL, "03", 1, 0),
             Command.from_attrs(" I", qos.CTL, "0418", "000000B0000000000000000000007FFFFF7000000000"),
             Command.put_bind(" W", "01:145038", "2309", "34:123456", idx="00"), Command.put_bind(" I", "34:123456", ("2309", "30C9"), None),
             Command.get_zone_name(qos.CTL, "01")]
    bad = []

    async def main():
        for mode in (True, None, False):
            pp = PortProtocol(lambda m: None, disable_qos=mode)
            seen = []

            async def capture(send_fnc, cmd, priority, q):
                seen.append(q.wait_for_reply)
                return None

            pp._context.send_cmd = capture
            for cmd in cmds:
                for wfr in (None, False, True):
                    seen.clear()
                    await pp._send_cmd(cmd, qos=QosParams(wait_for_reply=wfr))
                    want = qos.effective_wfr(mode, cmd.code, wfr)
                    if not seen or bool(seen[0]) != want:
                        bad.append(f"disable_qos={mode}, {cmd.verb}|{cmd.code}, wait_for_reply={wfr}: the state machine is handed {seen[0] if seen else 'nothing'}, the harness assumes {want}")

    loop = asyncio.new_event_loop()
    asyncio.set_event_loop(loop)
    try:
        loop.run_until_complete(main())
    except Exception as err:  # noqa: BLE001
        bad.append(f"{type(err).__name__}: {err}"[:200])
    finally:
        asyncio.set_event_loop(None)
        loop.close()
    ctx.obligation("harness:qos-override-rule", not bad, "correspondence", f"{len(bad)} differ; first: {bad[0]}" if bad else
                   f"{3 * len(cmds) * 3} combinations of mode, command and wait_for_reply: the override applied by PortProtocol._send_cmd is the one the model's inputs are prepared with")


def default_qos_budget(ctx: Ctx) -> None:
    """C08 on commands sent WITHOUT a qos argument (the library's defaults), before and after the library has sent packets of its own (the
    impersonation alert that precedes a command with a foreign source address): an unanswered default-QoS command is transmitted exactly
    1 + min(default max_retries, 3) times each time."""
    import asyncio  # noqa: PLC0415

    import ramses_tx.protocol_fsm as fsm  # noqa: PLC0415
    from ramses_tx import exceptions as exc  # noqa: PLC0415
    from ramses_tx.command import Command  # noqa: PLC0415
    from ramses_tx.packet import Packet  # noqa: PLC0415
    from ramses_tx.protocol import PortProtocol  # noqa: PLC0415
    from ramses_tx.typing import QosParams  # noqa: PLC0415

    from .vloop import VLoop  # noqa: PLC0415

    loop = VLoop()
    asyncio.set_event_loop(loop)

    class VDT(qos._dt.datetime):
        _tick = 0

        @classmethod
        def now(cls, tz=None):
            cls._tick += 1
            return qos.EPOCH + qos._dt.timedelta(seconds=loop.time(), microseconds=cls._tick)

    saved = fsm.dt
    fsm.dt = VDT
    writes: list = []
    echo_for: set = set()
    steps = []
    knobs: list = []

    async def main():
        proto = PortProtocol(lambda m: None, disable_qos=False)

        class Tr:
            def get_extra_info(self, k, d=None):
                return {"active_gwy": qos.GW, "is_evofw3": True}.get(k, d)

            def is_closing(self):
                return False

            async def write_frame(self, frame, disable_tx_limits=False):
                writes.append(frame)
                if any(k in frame for k in echo_for):
                    loop.call_later(0.02, lambda: proto.pkt_received(Packet.from_port(VDT.now(), "000 " + frame.replace("18:000730", qos.GW))))

        proto.connection_made(Tr(), ramses=True)
        want = 1 + min(QosParams().max_retries, 3)

        async def unanswered(tag, zone):
            cmd = Command.get_zone_temp(qos.CTL, zone)
            n0 = len(writes)
            try:
                await proto.send_cmd(cmd)                      # no qos argument: the library's defaults
                out = "returned"
            except exc.ProtocolSendFailed:
                out = "ProtocolSendFailed"
            except Exception as err:  # noqa: BLE001
                out = type(err).__name__
            n = sum(1 for f in writes[n0:] if f == str(cmd))
            steps.append((tag, n, want, out))

        # the knobs of the gateway-level entries (Engine.async_send_cmd, Gateway.async_send_cmd) reach the protocol as given: None means the default, 0 means 0
        from ramses_tx.const import Priority  # noqa: PLC0415
        from ramses_tx.gateway import Engine  # noqa: PLC0415

        seen = []

        class Capture:
            async def send_cmd(self, cmd, **kw):
                seen.append(kw)
                return None

        entries = [("Engine.async_send_cmd", Engine("/dev/null"))]
        try:
            from ramses_rf import Gateway  # noqa: PLC0415
            entries.append(("Gateway.async_send_cmd", Gateway("/dev/null", config={"disable_discovery": True})))
        except Exception:  # noqa: BLE001
            pass
        for label, eng in entries:
            eng._protocol = Capture()
            for mr in (None, 0, 1, 2, 3, 5):
                for to in (None, 0.1, 5.0, 30.0):
                    for wfr in (None, False, True):
                        for pr in (Priority.LOW, Priority.HIGH):
                            seen.clear()
                            kw = {k: v for k, v in (("max_retries", mr), ("timeout", to)) if v is not None or k == "max_retries"}
                            try:
                                await eng.async_send_cmd(Command.get_zone_temp(qos.CTL, "01"), priority=pr, wait_for_reply=wfr, **kw)
                            except Exception as err:  # noqa: BLE001
                                knobs.append((label, mr, to, wfr, int(pr), "raised " + type(err).__name__, None))
                                continue
                            q = seen[0].get("qos") if seen else None
                            ref = QosParams(max_retries=mr, timeout=to, wait_for_reply=wfr)
                            got = None if q is None else (q.max_retries, q.timeout, q.wait_for_reply, int(seen[0].get("priority", Priority.DEFAULT)))
                            knobs.append((label, mr, to, wfr, int(pr), got, (ref.max_retries, ref.timeout, ref.wait_for_reply, int(pr))))
        await unanswered("before", "01")
        echo_for.update(("7FFF", " 30C9 003 0007D0"))
        try:      # a command with a foreign source address: the library sends its impersonation alert (7FFF) first
            await proto.send_cmd(Command._from_attrs(" I", "30C9", "0007D0", addr0="34:123456", addr2="34:123456"))
            steps.append(("impersonated", len([f for f in writes if " 7FFF " in f]), 1, "returned"))
        except Exception as err:  # noqa: BLE001
            steps.append(("impersonated", -1, 1, type(err).__name__))
        await unanswered("after-the-library's-own-alert", "02")
        await unanswered("again", "03")

    try:
        loop.run_until_complete(main())
    finally:
        fsm.dt = saved
        asyncio.set_event_loop(None)
        loop.close()
    ctx.case(("default-qos-budget",), True, "default-qos:before-and-after-an-impersonated-send")
    ctx.case(("gateway-entry-knobs", len(knobs)), bool(knobs), "gateway-entry:knobs-handed-to-the-protocol")
    for label, mr, to, wfr, pr, got, want_k in knobs:
        if got != want_k:
            ctx.violation(f"gateway-entry-changes-the-knobs:{label}", f"{label}(max_retries={mr}, timeout={to}, wait_for_reply={wfr}, priority={pr}) hands the protocol {got}, "
                          f"a QosParams built from the same arguments holds {want_k}", {"entry": label, "max_retries": mr, "timeout": to, "wait_for_reply": wfr, "priority": pr,
                                                                                       "handed_on": str(got), "expected": str(want_k)}, "input")
            break
    for tag, n, want, out in steps:
        if tag != "impersonated" and n != want:
            ctx.violation("default-qos-budget-changes:" + tag, f"an unanswered command sent with the library's default QoS was transmitted {n} times ({tag}), not 1 + min(max_retries, 3) = {want}",
                          {"steps": [list(x) for x in steps]}, "history")


def oracle(ctx: Ctx, pid: str, s, tr, st, qs, info) -> None:
    G = qos.GRID
    cmds = s["cmds"]
    calls = {ev[1]: t for t, ev in s["events"] if ev[0] == "call"}
    writes = {i: [e[1] for e in tr if e[0] == 1 and e[2] == i] for i in calls}
    dones = {i: [e for e in tr if e[0] in (2, 3, 4, 6, 7, 10) and e[2] == i] for i in calls}
    # a caller cancelled from outside before its first step (only a stalled loop lets that happen) never runs: nothing to answer
    unborn = {ev[1] for _, ev in s["events"] if ev[0] == "cancel"} if any(ev[0] == "stall" for _, ev in s["events"]) else set()
    case = {"events": s["events"], "cmds": cmds, "plan": s["plan"], "default_plan": s["default_plan"], "lifo": s["lifo"],
            "mode": s["mode"], "trace": tr}
    slow = any(p["lat"] > 0 for p in s["plan"]) or s["default_plan"]["lat"] > 0
    if info.get("wedged"):
        ctx.violation("event-loop-wedged", "the send machinery blocked the event loop (no progress for 20 s of wall time): every caller hangs",
                      {k: case[k] for k in ("events", "cmds", "plan", "default_plan", "lifo", "mode")}, "schedule")
        return

    if pid == "C07":
        for i, t0 in calls.items():
            c = cmds[i]
            if i in unborn and not dones[i]:
                continue
            if len(dones[i]) != 1:
                ctx.violation("caller-not-answered-once", "a send_cmd call did not finish exactly once", {**case, "cmd": i, "answers": dones[i]}, "schedule")
                continue
            d = dones[i][0]
            stalled = sum(ev[1] for _, ev in s["events"] if ev[0] == "stall")      # a stalled loop cannot answer: the time it was held up does not count
            deadline = t0 + min(c["timeout"], 20_000_000) + stalled
            if d[1] > deadline:
                ctx.violation("answered-after-deadline", "send_cmd finished later than min(timeout, 20 s) after the call",
                              {**case, "cmd": i, "answered_at": d[1], "deadline": deadline}, "schedule")
            if d[0] == 4:
                ctx.violation(f"outcome-outside-protocol-error-family:{d[3]}", "send_cmd raised an exception outside the ProtocolError family",
                              {**case, "cmd": i}, "schedule")
            if d[0] == 2:
                cmd = info["cmds"][i]
                frame, hdr = info["results"][i]
                ok = hdr.replace("18:000730", qos.GW) == cmd.tx_header.replace("18:000730", qos.GW) or hdr == cmd.rx_header
                # the reply to an RQ|0418 for an empty slot is the ADDRESSED controller's null entry, which always carries index 00
                ok = ok or (cmd.code == "0418" and cmd.rx_header and hdr[:-2] == cmd.rx_header[:-2] and frame.split()[-1] == qos.NULL_ENTRY)
                if not ok:
                    ctx.violation("result-belongs-to-another-command", "send_cmd returned a packet that is neither its echo nor its reply",
                                  {**case, "cmd": i, "returned_header": hdr}, "schedule")
    elif pid == "C08":
        for i in calls:
            c = cmds[i]
            limit = 1 + min(c["max_retries"], 3)
            if len(writes[i]) > limit:
                ctx.violation("more-transmissions-than-budget", "a command was transmitted more than 1 + min(max_retries, 3) times",
                              {**case, "cmd": i, "writes": writes[i], "limit": limit}, "schedule")
            # (a caller cancelled from OUTSIDE was given nothing by the library: its command stays in flight until its own timer ends it)
            if dones[i] and dones[i][0][0] != 10 and any(w > dones[i][0][1] for w in writes[i]):
                sig = "tx-after-answer:transport-delayed-write" if slow else "tx-after-answer:other"
                ctx.violation(sig, "a command was transmitted after its caller had been answered",
                              {**case, "cmd": i, "writes": writes[i], "answered_at": dones[i][0][1]}, "schedule")
        # no fewer: an FSM failure BEFORE the caller's own deadline means the whole budget was used
        quiet = (not any(p["fail"] for p in s["plan"]) and not slow and not any(ev[0] == "lost" for _, ev in s["events"]))
        if quiet:
            for i, t0 in calls.items():
                c = cmds[i]
                if dones[i] and dones[i][0][0] == 3 and writes[i] and dones[i][0][1] < t0 + min(c["timeout"], 20_000_000):
                    limit = 1 + min(c["max_retries"], 3)
                    if len(writes[i]) < limit:
                        ctx.violation("given-up-before-budget-used", "a command failed before its timeout although it had been transmitted fewer than 1 + min(max_retries, 3) times",
                                      {**case, "cmd": i, "writes": writes[i], "limit": limit, "failed_at": dones[i][0][1]}, "schedule")
        for i, want_us in enumerate(s.get("expect_fail_after", [])):
            got = dones[i][0] if dones[i] else None
            if got is None or got[0] != 3 or got[1] != calls[i] + want_us:
                ctx.violation("backoff-not-carried-across-commands", f"with nothing answering, command {i} should fail {want_us / 1e6} s after its call (the wait doubles after each unanswered "
                              f"attempt, whichever command it belonged to, up to 8 x 0.5 s); it ended with {got} (call at {calls[i]})",
                              {**case, "cmd": i, "expected_failure_at": calls[i] + want_us}, "schedule")
                break
        # the plain ladder: single caller, nothing answers, no transport latency, generous timeout
        if (len(cmds) == 1 and not s["plan"] and s["default_plan"]["echo"] is None and not slow and cmds[0]["timeout"] >= 16_000_000
                and len(s["events"]) == 2):
            limit = 1 + min(cmds[0]["max_retries"], 3)
            w = writes[0]
            if len(w) != limit:
                ctx.violation("fewer-transmissions-than-budget", "an unanswered command was not transmitted exactly 1 + min(max_retries, 3) times",
                              {**case, "writes": w, "limit": limit}, "schedule")
            gaps = [b - a for a, b in zip(w, w[1:])]
            if gaps != [500_000 * 2**k for k in range(len(gaps))]:
                ctx.violation("backoff-not-doubling", "the waits between attempts are not 0.5 s doubling", {**case, "gaps_us": gaps}, "schedule")
        # every wait between attempts is base * 2^k, k <= 3 (the exponent is carried over between commands)
        silent = (not s["plan"] and s["default_plan"]["echo"] is None and s["default_plan"]["rply"] is None
                  and not any(ev[0] in ("rx", "lost") for _, ev in s["events"]))
        if not slow and silent:
            for i, w in writes.items():
                for a, b in zip(w, w[1:]):
                    if (b - a) not in (500_000, 1_000_000, 2_000_000, 4_000_000):
                        ctx.violation("backoff-wait-out-of-range", "the wait before a retransmission is not 0.5 s x 2^k with k <= 3",
                                      {**case, "cmd": i, "wait_us": b - a}, "schedule")
        # ... and each unanswered attempt doubles the wait (up to 8x), wherever the exponent stood when the command started: the n-th frame
        # written gets the n-th entry of the transport's plan, so a command none of whose frames is echoed has waited for its echo each time
        if not slow and not any(p["fail"] for p in s["plan"]) and not any(ev[0] in ("rx", "lost") for _, ev in s["events"]):
            order = [e for e in tr if e[0] == 1]
            plan_of = {(e[1], e[2], k): (s["plan"][k] if k < len(s["plan"]) else s["default_plan"]) for k, e in enumerate(order)}
            for i, w in writes.items():
                mine = [p for (t, c, k), p in plan_of.items() if c == i]
                if len(w) >= 3 and all(p["echo"] is None and p["rply"] is None for p in mine):
                    gaps = [b - a for a, b in zip(w, w[1:])]
                    if any(g2 != min(2 * g1, 4_000_000) for g1, g2 in zip(gaps, gaps[1:])):
                        ctx.violation("backoff-not-doubling:after-answered-commands" if any(p["echo"] is not None for p in plan_of.values()) else "backoff-not-doubling",
                                      "the waits between the attempts of an unanswered command do not double (up to 8x) from one attempt to the next",
                                      {**case, "cmd": i, "gaps_us": gaps}, "schedule")
        # one in flight / start order
        fw = {i: w[0] for i, w in writes.items() if w}
        if s.get("burst_when_idle") and len(fw) == len(cmds):
            sgn = -1 if s["lifo"] else 1      # callers of one instant run in the tie policy's order; all are in the buffer before the first one starts
            want = sorted(range(len(cmds)), key=lambda i: (cmds[i]["prio"], sgn * i))
            got = sorted(fw, key=lambda i: fw[i])
            if got != want:
                ctx.violation("start-order:burst-on-an-idle-protocol", "callers that arrived in one loop iteration on an idle protocol did not start in priority order (first come first served within a priority)",
                              {**case, "started_in_order": got, "expected": want, "priorities": [c["prio"] for c in cmds]}, "schedule")
        for j, tj in fw.items():
            for i, ti in fw.items():
                if ti < tj and dones[i] and dones[i][0][1] > tj and not slow:
                    ctx.violation("two-commands-in-flight", "a second command was first transmitted before the previous one was answered",
                                  {**case, "first": i, "second": j}, "schedule")
            for k, tk in calls.items():
                if k == j or tk > tj - 1 or (dones[k] and dones[k][0][1] <= tj):
                    continue
                if k in fw and fw[k] < tj:
                    continue
                # k was waiting in the queue when j started
                sgn = -1 if s["lifo"] else 1   # simultaneous calls are executed in the tie policy's order
                if (cmds[k]["prio"], tk, sgn * k) < (cmds[j]["prio"], calls[j], sgn * j) and calls[j] <= tj and not slow and tk < tj and calls[j] < tj:
                    queued_j_before = calls[j]
                    if max(tk, queued_j_before) < tj - G:  # both were queued well before j started
                        ctx.violation("start-order", "a queued command started before one of higher priority / earlier arrival",
                                      {**case, "started": j, "overtaken": k}, "schedule")
    elif pid == "C09":
        for e in tr:
            if e[0] == 5:
                coincide = any(calls[i] + min(cmds[i]["timeout"], 20_000_000) == e[1] for i in calls)
                late_fail = any(p["fail"] and p["lat"] > 0 for p in s["plan"])
                conn = [(t, ev[0]) for t, ev in s["events"] if ev[0] in ("made", "lost")]
                reconnect = any(t == e[1] and k == "made" and idx > 0 and conn[idx - 1][1] == "lost" for idx, (t, k) in enumerate(conn))
                lost_at_end = (any(t == e[1] and k == "lost" for t, k in conn)
                               and any(d[1] == e[1] for ds in dones.values() for d in ds))
                sig = f"loop-exception:{e[2]}:" + ("caller-timeout-coincides-with-fsm-timer" if coincide else
                                                   "reconnect-after-loss-in-flight" if reconnect else
                                                   "connection-lost-in-the-iteration-a-command-ended" if lost_at_end else
                                                   "write-fails-in-the-iteration-its-timer-expires" if late_fail and e[1] in info.get("failed_writes", []) else
                                                   "delayed-write-fails-after-command-ended" if late_fail else "other")
                ctx.violation(sig, "an exception was left unhandled in the event loop (an internal consistency check tripped)",
                              {**case, "at": e[1]}, "schedule")
        for e in tr:
            if e[0] == 4 and "Assertion" in str(e[3]):
                coincide = any(calls[i] + min(cmds[i]["timeout"], 20_000_000) == e[1] for i in calls)
                ctx.violation("internal-assertion-handed-to-a-caller:" + ("caller-timeout-coincides-with-the-end-of-its-command" if coincide else "other"),
                              "one of the sender's internal consistency checks tripped inside send_cmd and reached the caller as an AssertionError",
                              {**case, "at": e[1], "cmd": e[2]}, "schedule")
        last_conn = [ev[0] for _, ev in s["events"] if ev[0] in ("made", "lost")][-1]
        want = 1 if last_conn == "made" else 0
        crashed = any(e[0] == 5 for e in tr)
        late_fail = any(p["fail"] and p["lat"] > 0 for p in s["plan"])
        if (st != want or info.get("pending_in_queue", 0) != 0) and not crashed:
            ctx.violation("not-idle-at-quiescence" + (":state-resurrected-by-late-write-failure" if late_fail and want == 0 and st == 1 else ""), "once traffic stopped the sender is not idle/inactive with an empty queue",
                          {**case, "state": st, "queued": qs}, "schedule")
        for i in calls:
            if not dones[i] and not crashed and i not in unborn:
                ctx.violation("caller-never-answered", "a caller was never answered", {**case, "cmd": i}, "schedule")
        if info.get("probe") not in ("ok", "skipped-inactive"):
            sig = "probe-fails-after-episode" + (":after-internal-assertion" if crashed else "")
            ctx.violation(sig, "a fresh command to a responsive device fails after the episode", {**case, "probe": info.get("probe")}, "schedule")
