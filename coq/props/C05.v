(* C05 -- Decoded payloads are element-wise, index-consistent and within range.  Statements only. *)
From Coq Require Import ZArith String Ascii List Bool PrimFloat.
From RV Require Import Py PyStr PyFloat GenTables M_Codecs M_Payload M_Header P_Payload M_ModeCmd P_ModeDecode.
Import ListNotations.
Open Scope Z_scope.

(* an array payload -- any number of elements, any element values -- decodes to exactly the list of what each element
   decodes to on its own, in order, for ANY element decoder (the translator checks on every run that each of the
   array-capable parsers is such a comprehension over whole elements of the regenerated length) *)
Theorem C05_array_elementwise : forall (A : Type) (f : str -> A) (n : nat) es, (0 < n)%nat ->
  Forall (fun e => List.length e = n) es -> decode_array f n (concat es) = map f es.
Proof. exact @array_elementwise. Qed.

(* the index the k-th element reports is the first byte of the k-th element of the frame *)
Theorem C05_array_index : forall (A : Type) (g : str -> A) (n : nat) es k e, (0 < n)%nat ->
  Forall (fun e => List.length e = n) es -> nth_error es k = Some e ->
  nth_error (decode_array (elem g) n (concat es)) k = Some (slice 0 2 e, g e).
Proof. exact @array_index. Qed.

(* every array-capable code has a positive element length *)
Theorem C05_elem_chars_positive : forallb (fun p => 0 <? snd p) ARRAY_ELEM_CHARS = true.
Proof. exact elem_chars_pos. Qed.

(* the zone/domain/log index under which a packet is filed is carried in the frame: a slice of the payload, or one of
   the fixed domain ids a 000C role / the DHW schedule stands for *)
Theorem C05_idx_from_frame : forall f s, pkt_idx f = IStr s ->
  s = slice 0 2 (f_payload f) \/ s = slice 4 6 (f_payload f) \/
  (f_code f = C_000C /\ (s = lit "FC" \/ s = lit "F9" \/ s = lit "FA")) \/ (f_code f = C_0404 /\ s = lit "HW").
Proof. exact idx_from_frame. Qed.

(* ranges: every temperature a 16-bit word decodes to lies within -273.15 .. 327.67; every ratio a byte decodes to within 0 .. 1 *)
Theorem C05_temp_range : forall w t, 0 <= w < 65536 -> hex_to_temp w = Ok (TNum t) -> temp_in_range t = true.
Proof. exact temp_range. Qed.
Theorem C05_ratio_range : forall b hr r, 0 <= b < 256 -> hex_to_percent b hr = Ok (Some r) -> ratio_in_range r = true.
Proof. exact ratio_range. Qed.

(* ---- the decoders modelled in full (M_ModeCmd: parser_2349 zone mode, parser_000a zone configuration; tied to the real decoder on
   payloads assembled from valid, sentinel and invalid fields) ---- *)
(* whatever a W/I/RP|2349 payload of hex digits decodes to, its setpoint -- if it is a number -- is within -273.15 .. 327.67 *)
Theorem C05_zone_mode_setpoint_in_range : forall p z t, forallb is_hex_upper p = true -> parser_2349 p = Ok z -> zm_setpoint z = TNum t -> temp_in_range t = true.
Proof. exact zone_mode_setpoint_in_range. Qed.
Theorem C05_zone_config_temps_in_range : forall p z, forallb is_hex_upper p = true -> parser_000a p = Ok z ->
  (forall t, zc_min z = TNum t -> temp_in_range t = true) /\ (forall t, zc_max z = TNum t -> temp_in_range t = true).
Proof. exact zone_config_temps_in_range. Qed.
(* the decoded zone mode does not depend on the index byte: the zone it is filed under is the one in the frame (C05_idx_from_frame), nothing else *)
Theorem C05_zone_mode_ignores_idx : forall x y r, List.length x = 2%nat -> List.length y = 2%nat -> parser_2349 (x ++ r) = parser_2349 (y ++ r).
Proof. exact zone_mode_ignores_idx. Qed.
