import asyncio, logging, sys, time, random
sys.path.insert(0, __import__('os').path.dirname(__file__))
logging.disable(logging.CRITICAL)
from vloop import VLoop
def run(seed):
    rnd=random.Random(seed)
    loop=VLoop(); asyncio.set_event_loop(loop)
    import importlib, ramses_tx.transport as tr
    tr.perf_counter=lambda: loop.time()
    importlib.reload(tr)            # re-create the decorator closure with virtual time at 0
    tr.perf_counter=lambda: loop.time()
    from collections import deque
    class T(tr.PortTransport):
        def __init__(self):
            self._loop=loop; self._leaker_sem=asyncio.BoundedSemaphore(); self._disable_sending=False; self._closing=False
            self._transmit_times=deque(maxlen=99); self._outbound_rule={}; self._inbound_rule={}; self.out=[]
            self._leaker_task=loop.create_task(self._leak_sem())
        def _write(self, data): self.out.append((loop.time(), 330+10*len(data[46:].rstrip(b"\r\n"))))
    inflight=[0]; K=[0]; pat=[None]
    async def one(t, n):
        inflight[0]+=1; K[0]=max(K[0],inflight[0])
        try: await t.write_frame("RQ --- 18:000730 01:145038 --:------ 0000 %03d "%n + "00"*n)
        finally: inflight[0]-=1
    async def main():
        t=T(); tasks=[]
        now=0.0
        pattern=rnd.choice(["burst","steady","mixed"]); pat[0]=pattern
        for i in range(rnd.randint(40,200)):
            if pattern=="burst": gap=rnd.choice([0,0,0,0.01,30,120])
            elif pattern=="steady": gap=rnd.choice([0.5,1,2,3,5])
            else: gap=rnd.choice([0,0.01,0.5,2,10,60])
            if gap: await asyncio.sleep(gap)
            tasks.append(asyncio.create_task(one(t, rnd.choice([1,3,12,48]))))
        await asyncio.gather(*tasks)
        t._leaker_task.cancel()
        return t.out
    out=loop.run_until_complete(main())
    rate=384.0; cap=23040.0; mx=810.0
    # worst window over all pairs
    worst=-1e18; ts=[x[0] for x in out]; bs=[x[1] for x in out]
    pre=[0]
    for b in bs: pre.append(pre[-1]+b)
    for i in range(len(out)):
        for j in range(i,len(out)):
            bits=pre[j+1]-pre[i]; L=ts[j]-ts[i]
            worst=max(worst, bits-rate*L-cap)
    # write gap: count in windows
    gapviol=0
    for i in range(len(ts)):
        j=i
        while j<len(ts) and ts[j]-ts[i]<=1.0: j+=1
        if j-i > 1.0/0.05+2: gapviol+=1
    order_ok = True
    return len(out), K[0], worst, gapviol, pat[0]
for seed in range(12):
    n,K,worst,gv,pat=run(seed)
    print(f"seed {seed} {pat:6s} writes {n:3d} K {K:3d} worst_excess_over(rate*L+cap) {worst:9.1f} = {worst/810:6.2f} frames(max 810)  gapviol {gv}")
